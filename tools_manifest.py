#!/usr/bin/env python3
"""Regenerates MANIFEST.json from the table below (keeps it valid at all times)."""
import json, subprocess, sys
CHECKS = {
 # id: (level, technique, text, note, design_ref)
}
def load():
    import importlib.util, os
    here = os.path.dirname(os.path.abspath(__file__))
    spec = importlib.util.spec_from_file_location("mdefs", os.path.join(here, "manifest_defs.py"))
    m = importlib.util.module_from_spec(spec); spec.loader.exec_module(m)
    return m
def main():
    m = load()
    hooks_commits = m.HOOK_COMMITS
    checks = []
    for pid in sorted(m.CHECKS):
        d = m.CHECKS[pid]
        checks.append({
            "property_id": pid,
            "quick_cmd": "./check %s quick" % pid,
            "thorough_cmd": "./check %s thorough" % pid,
            "evidence_file": "/verif/evidence/%s.json" % pid,
            "replay_cmd_template": "./check replay {path}",
            "engine": "vcheck",
            "level_claimed": {"category": d["level"], "text": d["text"], "design_ref": d["design_ref"]},
            "level_note": d["note"],
            "technique": d["technique"],
        })
    allp = ["C%02d" % i for i in range(1, 21)]
    na = [{"property_id": p, "reason": m.NOT_APPLICABLE.get(p, "check not built yet in this round; no claim is made")} for p in allp if p not in m.CHECKS]
    man = {
        "version": 1,
        "setup_cmd": "./check setup",
        "hooks": {
            "guard": "verif",
            "enable": "go build -tags verif (the ./check script builds cmd/vcheck against /repo through the replace directive in /verif/go.mod)",
            "baseline_off_cmd": "cd /repo && GOFLAGS=-mod=mod GOPROXY=off GOSUMDB=off go test -json -vet=off -count=1 -timeout 25m ./...",
            "source_commits": hooks_commits,
            "add_only": True,
        },
        "engines": [{"name": "vcheck", "path": "/verif/cmd/vcheck", "serves_properties": sorted(m.CHECKS), "kind_free_text": "Go driver: runtime monitors (reference-model, differential, invariant-hook, strace-log, race-detector and history checkers) run against the engine built from /repo's working tree with -tags verif"}],
        "checks": checks,
        "not_applicable": na,
        "notes": m.NOTES,
    }
    json.dump(man, open("MANIFEST.json", "w"), indent=1)
    print("MANIFEST.json written:", len(checks), "checks,", len(na), "not claimed")
main()
