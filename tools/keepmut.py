#!/usr/bin/env python3
"""tools/keepmut.py <src-dir> <seeded-id> <property> <caught_by_csv> <status> <needs> [what_we_ran]
Copies a confirmed seeded change into /verif/seeded/<id>/ with meta.json."""
import sys, os, shutil, json, glob
src, sid, prop, caught, status, needs = sys.argv[1:7]
ran = sys.argv[7] if len(sys.argv) > 7 else ""
m = os.path.join(src, "_mutant")
if not os.path.isdir(m): m = src
dst = os.path.join("/verif/seeded", sid)
os.makedirs(dst, exist_ok=True)
shutil.copy(os.path.join(m, "patch.diff"), dst)
for f in glob.glob(os.path.join(m, "*_test.go")) + glob.glob(os.path.join(m, "*.go")) + glob.glob(os.path.join(m, "notes.md")):
    b = os.path.basename(f)
    if b.endswith("_test.go"): b = b + ".txt"   # keep `go build ./...` of /verif clean
    shutil.copy(f, os.path.join(dst, b))
meta = {"id": sid, "breaks_property": prop, "needs_to_manifest": needs,
        "confirmed": "patch applies to /repo HEAD, compiles, pinned suite passes with it, demonstration fails with it and passes without (tools/evalmut.sh)",
        "caught_by": [c for c in caught.split(",") if c], "status": status, "what_we_ran": ran}
json.dump(meta, open(os.path.join(dst, "meta.json"), "w"), indent=1)
print("kept", dst)
