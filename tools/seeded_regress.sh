#!/bin/bash
# tools/seeded_regress.sh [ids...]  - applies every kept seeded change to a scratch worktree of
# /repo HEAD (outside /repo and /verif) and runs the quick check of the property it breaks (and of
# the other checks listed in meta.json caught_by). Prints one line per (change, check).
export GOFLAGS=-mod=mod GOPROXY=off GOSUMDB=off GOTOOLCHAIN=local
cd /verif
seed=${VERIF_SEED:-1}; export VERIF_SEED=$seed
ids=${@:-$(ls seeded | grep -v '\.md$')}
for id in $ids; do
  d=seeded/$id
  [ -f $d/patch.diff ] || continue
  checks=$(python3 -c "import json;m=json.load(open('$d/meta.json'));print(' '.join(dict.fromkeys([m['breaks_property']]+m['caught_by'])))")
  scratch=/root/scratch/regress-$id-$$
  git -C /repo worktree add -q --detach $scratch HEAD || continue
  if ! git -C $scratch apply /verif/$d/patch.diff 2>/dev/null; then echo "$id PATCH-DOES-NOT-APPLY"; git -C /repo worktree remove --force $scratch; continue; fi
  for c in $checks; do
    out=$(VERIF_REPO=$scratch ./check $c quick 2>&1); rc=$?
    n=$(echo "$out" | grep -ac "^VIOLATION")
    if [ $rc -eq 1 ] && [ $n -gt 0 ]; then echo "$id $c CAUGHT ($n violation lines)"; else echo "$id $c MISSED rc=$rc: $(echo "$out" | tail -1 | cut -c1-120)"; fi
  done
  git -C /repo worktree remove --force $scratch; rm -rf $scratch
done
