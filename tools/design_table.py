#!/usr/bin/env python3
"""Rewrites the table of DESIGN.md section 9 in place from tools/seeded_table.py."""
import subprocess, re
t = subprocess.check_output(["python3", "/verif/tools/seeded_table.py"], text=True).rstrip("\n")
L = open("/verif/DESIGN.md").read().split("\n")
a = next(i for i, l in enumerate(L) if l.startswith("| change | breaks"))
b = next(i for i, l in enumerate(L) if "changes kept;" in l and i > a)
L[a:b + 1] = t.split("\n")
open("/verif/DESIGN.md", "w").write("\n".join(L))
