#!/bin/bash
# tools/evalmut.sh <mutant-dir-with-_mutant> <property> [checks...]
# Validates a seeded change (applies cleanly, compiles, suite passes, demo fails with / passes without)
# in a scratch worktree outside /repo and /verif, then runs our checks against it.
set -u
export GOFLAGS=-mod=mod GOPROXY=off GOSUMDB=off GOTOOLCHAIN=local
src=$1; prop=$2; shift 2; checks=${@:-$prop}
m=$src/_mutant; [ -d "$m" ] || m=$src
name=$(basename $src)
scratch=/root/scratch/eval-$name-$$
git -C /repo worktree add -q --detach $scratch HEAD || exit 9
cleanup() { git -C /repo worktree remove --force $scratch 2>/dev/null; rm -rf $scratch; }
trap cleanup EXIT
cd $scratch
# place demo tests
demos=()
for t in $m/*_test.go; do
  [ -f "$t" ] || continue
  pkg=$(grep -m1 '^package ' $t | awk '{print $2}')
  case $pkg in evalfilter|evalfilter_test) dir=. ;; main) dir=cmd/evalfilter ;; *) dir=${pkg%_test} ;; esac
  cp $t $dir/zz_$(basename $t); demos+=("$dir")
done
echo "== demo on clean tree (must pass)"
clean_ok=1
for d in "${demos[@]}"; do go test -vet=off -count=1 ./$d 2>&1 | tail -3; [ ${PIPESTATUS[0]} -eq 0 ] || clean_ok=0; done
echo "clean_demo_pass=$clean_ok"
git apply $m/patch.diff || { echo "PATCH DOES NOT APPLY"; exit 8; }
go build ./... || { echo "DOES NOT COMPILE"; exit 7; }
echo "== demo with change (must fail)"
mut_fail=0
for d in "${demos[@]}"; do go test -vet=off -count=1 ./$d > /tmp/evalmut.$$ 2>&1 || mut_fail=1; tail -4 /tmp/evalmut.$$; done; rm -f /tmp/evalmut.$$
echo "mutant_demo_fails=$mut_fail"
# existing suite without the demo files
for d in "${demos[@]}"; do rm -f $d/zz_*_test.go; done
echo "== existing suite with change (must pass)"
go test -vet=off -count=1 ./... 2>&1 | grep -v 'no test files' | grep -v '^ok' | head; suite=${PIPESTATUS[0]}
echo "suite_rc=$suite"
cd /verif
for c in $checks; do
  echo "== our check $c quick against the change"
  VERIF_REPO=$scratch ./check $c quick 2>&1 | grep -av "^  " | tr -d "\000" | cut -c1-300 | tail -6
done
