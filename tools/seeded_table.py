#!/usr/bin/env python3
"""Prints the markdown table of DESIGN.md section 9 from seeded/*/meta.json."""
import json, glob, os
rows = []
for f in sorted(glob.glob('/verif/seeded/*/meta.json')):
    m = json.load(open(f))
    patch = open(os.path.join(os.path.dirname(f), 'patch.diff')).read()
    files = sorted({l[6:] for l in patch.splitlines() if l.startswith('+++ b/')})
    first = "missed at first" in m['status']
    rows.append((m['id'], m['breaks_property'], ", ".join(files), m['needs_to_manifest'], ", ".join(m['caught_by']), m['status']))
print("| change | breaks | files touched | needs, to manifest | caught by (quick) | history |")
print("|---|---|---|---|---|---|")
for r in rows:
    print("| %s | %s | %s | %s | %s | %s |" % tuple(x.replace("|", "\\|") for x in r))
missed = sum(1 for r in rows if "missed" in r[5])
print()
print("%d changes kept; %d were caught by the checks as they stood when the change arrived, %d were missed at first and led to a strengthening of a generator or an oracle (never to a weaker check); all %d are caught now (tools/seeded_regress.sh)." % (len(rows), len(rows) - missed, missed, len(rows)))
