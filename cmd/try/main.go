// try runs a script given on the command line through the engine (debug aid).
package main

import (
	"fmt"
	"os"
	"runtime"
	"time"

	evalfilter "github.com/skx/evalfilter/v2"
)

func main() {
	e := evalfilter.New(os.Args[1])
	if err := e.Prepare(); err != nil {
		fmt.Println("prepare:", err)
		return
	}
	t0 := time.Now()
	out, err := e.Execute(map[string]interface{}{})
	var ms runtime.MemStats
	runtime.ReadMemStats(&ms)
	fmt.Println("->", out.Type(), out.Inspect(), err, time.Since(t0), "stack MB", ms.StackSys>>20)
}
