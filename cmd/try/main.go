// try runs a script given on the command line through the engine (debug aid).
package main

import (
	"fmt"
	"os"

	evalfilter "github.com/skx/evalfilter/v2"
	"github.com/skx/evalfilter/v2/object"
)

func main() {
	for _, noopt := range []bool{false, true} {
		e := evalfilter.New(os.Args[1])
		e.SetVariable("i2", &object.Integer{Value: 3})
		var err error
		if noopt {
			err = e.Prepare([]byte{evalfilter.NoOptimize})
		} else {
			err = e.Prepare()
		}
		if err != nil {
			fmt.Println("prepare:", err)
			continue
		}
		if len(os.Args) > 2 {
			e.Dump()
		}
		out, err := e.Execute(map[string]interface{}{})
		fmt.Println("noopt", noopt, "->", out.Type(), out.Inspect(), err)
	}
}
