package main

import (
	"fmt"
	"math"
	"sort"
	"strings"
	"unicode/utf8"

	"verif/internal/eng"
	"verif/internal/ev"
	"verif/internal/gast"
	"verif/internal/gen"
	"verif/internal/model"
)

func init() { register("C16", "exploration", c16) }

func c16Containers() []model.Value {
	he := func(k, v model.Value) model.HashEnt { return model.HashEnt{Key: k, Val: v} }
	return []model.Value{
		model.Arr(), model.Arr(model.Int(7)), model.Arr(model.Int(1), model.Int(2), model.Int(3)),
		model.Arr(model.Int(1), model.Str("a"), model.Float(2.5), model.Bool(true), model.Str("狐")),
		model.Arr(model.Str(""), model.Str("b"), model.Str("b")),
		model.Arr(model.Float(1), model.Int(1), model.Str("1")),
		model.Str(""), model.Str("x"), model.Str("abc"), model.Str("héllo"), model.Str("狐犬"), model.Str("a狐b"), model.Str("éx"),
		model.Hash(), model.Hash(he(model.Str("a"), model.Int(1))),
		model.Hash(he(model.Str("b"), model.Int(2)), he(model.Str("a"), model.Int(1)), he(model.Str("c"), model.Str("z"))),
		model.Hash(he(model.Int(10), model.Str("ten")), he(model.Int(9), model.Str("nine")), he(model.Float(2.5), model.Bool(true)), he(model.Str("k"), model.Float(0.5))),
		model.Hash(he(model.Int(-1), model.Int(0)), he(model.Int(0), model.Int(1))),
		model.Hash(he(model.Float(1.25), model.Str("a")), he(model.Float(1.5), model.Str("b")), he(model.Float(1.75), model.Str("c"))),
		model.Hash(he(model.Float(0.1), model.Int(1)), he(model.Float(0.2), model.Int(2)), he(model.Float(0.3), model.Int(3)), he(model.Float(-0.5), model.Int(4))),
		model.Hash(he(model.Int(256), model.Str("i")), he(model.Int(512), model.Str("j")), he(model.Int(65536), model.Str("k")), he(model.Int(4294967296), model.Str("l")), he(model.Int(-256), model.Str("m"))),
		model.Hash(he(model.Str("ab"), model.Int(1)), he(model.Str("ba"), model.Int(2)), he(model.Str("a"), model.Int(3)), he(model.Str("b"), model.Int(4)), he(model.Str(""), model.Int(5))),
		// float keys and elements that agree in their first six (or fifteen) decimals are distinct keys and elements
		model.Hash(he(model.Float(0.1234567), model.Str("a")), he(model.Float(0.1234568), model.Str("b")), he(model.Float(0.12345675), model.Str("c"))),
		model.Hash(he(model.Float(1.5), model.Str("x")), he(model.Float(1.5000001), model.Str("y")), he(model.Float(math.Nextafter(1.5, 2)), model.Str("z")), he(model.Float(1.4999999), model.Str("w"))),
		model.Hash(he(model.Float(1000000.5), model.Int(1)), he(model.Float(1000000.25), model.Int(2)), he(model.Float(123456789.125), model.Int(3)), he(model.Float(-1000000.5), model.Int(4)), he(model.Int(1000000), model.Int(5))),
		model.Arr(model.Float(0.1234567), model.Float(0.1234568), model.Float(math.Nextafter(2.5, 3))),
		// arrays as elements: present is present, a prefix or an empty array is not
		model.Arr(model.Arr(model.Int(1), model.Int(2)), model.Arr(model.Int(3))), model.Arr(model.Arr(), model.Int(1)), model.Arr(model.Arr(model.Arr(model.Str("x"), model.Str("y")), model.Int(2)), model.Str("[1]")),
		// entries and elements that are null, false, zero and empty are entries and elements all the same
		model.Arr(model.Null(), model.Int(1), model.Null()), model.Arr(model.Null()), model.Arr(model.Bool(false), model.Int(0), model.Str(""), model.Null(), model.Arr(), model.Hash()),
		model.Hash(he(model.Str("a"), model.Int(1)), he(model.Str("b"), model.Null()), he(model.Str("c"), model.Int(3))), model.Hash(he(model.Int(7), model.Null())),
		model.Hash(he(model.Str("x"), model.Null()), he(model.Str("y"), model.Null())),
		model.Hash(he(model.Str("f"), model.Bool(false)), he(model.Str("z"), model.Int(0)), he(model.Str("e"), model.Str("")), he(model.Str("n"), model.Null()), he(model.Str("ea"), model.Arr()), he(model.Str("eh"), model.Hash())),
	}
}

// hashes whose keys print alike: distinct keys, order among the ties unspecified
func c16TieHashes() []model.Value {
	he := func(k, v model.Value) model.HashEnt { return model.HashEnt{Key: k, Val: v} }
	return []model.Value{
		model.Hash(he(model.Int(1), model.Str("int")), he(model.Str("1"), model.Str("str")), he(model.Float(1), model.Str("flt"))),
		model.Hash(he(model.Int(1), model.Str("int")), he(model.Str("1"), model.Str("str")), he(model.Str("0"), model.Str("zero")), he(model.Int(2), model.Str("two")), he(model.Float(2), model.Str("f2")), he(model.Str("3"), model.Str("s3"))),
		model.Hash(he(model.Float(2.5), model.Int(1)), he(model.Str("2.5"), model.Int(2))),
	}
}

func c16(c *ev.Ctx) {
	c.SetRule("exhaustive small shapes: arrays / strings / hashes (empty, one, many; mixed element types; multi-byte and combining text; int/float/string keys incl. keys that print alike) x provenance (literal, variable, field) x every index from -2 to len+2 and every key / near-miss key, membership of present and absent elements, len, keys, ranges a..b for a,b in -2..3, foreach with and without index (trace of (index|key, value)), nested iteration over the same container; compared with the reference model; for hashes with tied printed keys a dedicated oracle checks each entry is visited exactly once in non-decreasing printed-key order. Plus random containers. Distinct = distinct script+bindings; non-trivial = outcome defined by the model.")
	conts := c16Containers()
	type job struct {
		id    string
		class string
		prog  gast.Program
		vars  map[string]model.Value
		flds  map[string]model.Value
	}
	var jobs []job
	addExpr := func(id, class string, e gast.Expr, vars, flds map[string]model.Value) {
		jobs = append(jobs, job{id, class, gast.Program{Stmts: []gast.Stmt{gast.Return{X: e}}}, vars, flds})
	}
	addProg := func(id, class string, p gast.Program, vars, flds map[string]model.Value) {
		jobs = append(jobs, job{id, class, p, vars, flds})
	}
	probeKeys := []model.Value{model.Int(0), model.Int(1), model.Int(-1), model.Int(9), model.Int(10), model.Float(1), model.Float(2.5), model.Float(10), model.Float(2.75), model.Float(1.25), model.Float(1.26), model.Float(0.5), model.Float(0.15), model.Int(256), model.Int(0), model.Str("a"), model.Str("1"), model.Str("10"), model.Str("2.5"), model.Str("k"), model.Str(""), model.Str("absent"), model.Bool(true), model.Null()}
	for ci, v := range conts {
		for prov := 0; prov < 3; prov++ {
			var x gast.Expr
			vars, flds := map[string]model.Value{}, map[string]model.Value{}
			switch prov {
			case 0:
				l, ok := gen.LitOf(v)
				if !ok {
					continue
				}
				x = l
			case 1:
				x = gast.Ident{Name: "cv"}
				vars["cv"] = v
			case 2:
				if !fieldOK(v) {
					continue
				}
				x = gast.Ident{Name: "CF"}
				flds["CF"] = v
			}
			tag := fmt.Sprintf("%d/%d", ci, prov)
			addExpr("print/"+tag, "printed form", x, vars, flds)
			addExpr("len/"+tag, "len", gast.Call{Fn: "len", Args: []gast.Expr{x}}, vars, flds)
			n := 0
			switch v.K {
			case model.KArr:
				n = len(v.A)
			case model.KStr:
				n = len([]rune(v.S))
			}
			if v.K == model.KArr || v.K == model.KStr {
				for i := -2; i <= n+2; i++ {
					il, _ := gen.LitOf(model.Int(int64(i)))
					addExpr(fmt.Sprintf("index/%s/%d", tag, i), "indexing", gast.Index{X: x, I: il}, vars, flds)
					// the index as a variable, too
					vv := map[string]model.Value{"ix": model.Int(int64(i))}
					for k, val := range vars {
						vv[k] = val
					}
					addExpr(fmt.Sprintf("indexvar/%s/%d", tag, i), "indexing", gast.Index{X: x, I: gast.Ident{Name: "ix"}}, vv, flds)
				}
			}
			if v.K == model.KHash {
				keys := append([]model.Value{}, probeKeys...)
				for _, e := range v.H {
					keys = append(keys, e.Key)
					// near misses of every numeric key: a step in the seventh decimal, one unit in the last place, the other numeric kind
					switch e.Key.K {
					case model.KFloat:
						f := e.Key.F
						keys = append(keys, model.Float(f+1e-7), model.Float(f-1e-7), model.Float(math.Nextafter(f, math.Inf(1))), model.Float(math.Nextafter(f, math.Inf(-1))))
						if f == math.Trunc(f) && math.Abs(f) < 1e15 {
							keys = append(keys, model.Int(int64(f)))
						}
					case model.KInt:
						if e.Key.I > -1<<50 && e.Key.I < 1<<50 {
							keys = append(keys, model.Float(float64(e.Key.I)), model.Float(float64(e.Key.I)+1e-7), model.Float(float64(e.Key.I)-1e-7))
						}
					}
				}
				for ki, k := range keys {
					kl, ok := gen.LitOf(k)
					if !ok {
						continue
					}
					addExpr(fmt.Sprintf("hashget/%s/%d", tag, ki), "hash lookup", gast.Index{X: x, I: kl}, vars, flds)
					if k.K == model.KStr && isIdent(k.S) {
						addExpr(fmt.Sprintf("hashdot/%s/%d", tag, ki), "hash lookup", gast.Dot{X: x, Name: k.S}, vars, flds)
					}
				}
				addExpr("keys/"+tag, "keys", gast.Call{Fn: "keys", Args: []gast.Expr{x}}, vars, flds)
			}
			if v.K == model.KArr || v.K == model.KStr {
				var cands []model.Value
				if v.K == model.KArr {
					cands = append(cands, v.A...)
					for _, e := range v.A {
						if e.K == model.KFloat {
							cands = append(cands, model.Float(e.F+1e-7), model.Float(e.F-1e-7), model.Float(math.Nextafter(e.F, math.Inf(1))), model.Float(math.Nextafter(e.F, math.Inf(-1))))
						}
					}
					cands = append(cands, model.Int(1), model.Float(1), model.Str("1"), model.Str("a"), model.Int(99), model.Bool(true), model.Bool(false), model.Null(), model.Str(""))
					cands = append(cands, model.Arr(), model.Arr(model.Int(1)), model.Arr(model.Int(1), model.Int(2)), model.Arr(model.Int(1), model.Int(2), model.Int(3)), model.Arr(model.Int(3)), model.Arr(model.Int(2)),
						model.Arr(model.Arr(model.Str("x")), model.Int(2)), model.Arr(model.Arr(model.Str("x"), model.Str("y")), model.Int(2)), model.Arr(model.Arr(model.Str("x"), model.Str("y"))), model.Arr(model.Arr()), model.Hash())
				} else {
					for _, r := range v.S {
						cands = append(cands, model.Str(string(r)))
					}
					cands = append(cands, model.Str(""), model.Str("zz"), model.Str(v.S), model.Str(v.S+"x"), model.Str("́"))
					// characters that are not in the string but begin with the same byte as one that is
					for _, r := range v.S {
						for _, d := range []rune{1, -1, 2, 16, 63} {
							if n := r + d; n > 0x20 && utf8.ValidRune(n) && string(n)[0] == string(r)[0] && !strings.ContainsRune(v.S, n) {
								cands = append(cands, model.Str(string(n)), model.Str(string(n)+string(n)))
							}
						}
					}
				}
				for ki, k := range cands {
					kl, ok := gen.LitOf(k)
					if !ok {
						continue
					}
					addExpr(fmt.Sprintf("in/%s/%d", tag, ki), "membership", gast.Infix{Op: "in", L: kl, R: x}, vars, flds)
				}
			}
			// iteration
			tr := func(args ...gast.Expr) gast.Stmt { return gast.ExprStmt{X: gast.Call{Fn: "t", Args: args}} }
			id := func(n string) gast.Expr { return gast.Ident{Name: n} }
			addProg("foreach/"+tag, "iteration", gast.Program{Stmts: []gast.Stmt{gast.Foreach{Var: "e", It: x, Body: []gast.Stmt{tr(id("e"))}}, gast.Return{X: gast.IntLit{V: 0}}}}, vars, flds)
			addProg("foreach-idx/"+tag, "iteration", gast.Program{Stmts: []gast.Stmt{gast.Foreach{Idx: "i", Var: "e", It: x, Body: []gast.Stmt{tr(id("i"), id("e"))}}, gast.Return{X: gast.IntLit{V: 0}}}}, vars, flds)
			addProg("foreach-nested-same/"+tag, "nested iteration over one container", gast.Program{Stmts: []gast.Stmt{
				gast.Foreach{Idx: "i", Var: "e", It: x, Body: []gast.Stmt{gast.Foreach{Idx: "j", Var: "f", It: x, Body: []gast.Stmt{tr(id("i"), id("e"), id("j"), id("f"))}}, tr(id("i"), id("e"))}},
				gast.Return{X: gast.IntLit{V: 0}}}}, vars, flds)
			addProg("foreach-twice/"+tag, "iteration", gast.Program{Stmts: []gast.Stmt{
				gast.Foreach{Var: "e", It: x, Body: []gast.Stmt{tr(id("e")), gast.If{C: gast.Infix{Op: "==", L: gast.Call{Fn: "len", Args: []gast.Expr{gast.Call{Fn: "string", Args: []gast.Expr{id("e")}}}}, R: gast.IntLit{V: 1}}, Then: []gast.Stmt{gast.Return{X: gast.IntLit{V: 1}}}}}},
				gast.Return{X: gast.IntLit{V: 0}}}}, vars, flds)
		}
	}
	// ranges
	for a := -2; a <= 3; a++ {
		for b := -2; b <= 3; b++ {
			al, _ := gen.LitOf(model.Int(int64(a)))
			bl, _ := gen.LitOf(model.Int(int64(b)))
			addExpr(fmt.Sprintf("range/%d/%d", a, b), "range", gast.Infix{Op: "..", L: al, R: bl}, nil, nil)
			addExpr(fmt.Sprintf("rangevar/%d/%d", a, b), "range", gast.Infix{Op: "..", L: gast.Ident{Name: "lo"}, R: gast.Ident{Name: "hi"}}, map[string]model.Value{"lo": model.Int(int64(a)), "hi": model.Int(int64(b))}, nil)
			addExpr(fmt.Sprintf("rangelen/%d/%d", a, b), "range", gast.Call{Fn: "len", Args: []gast.Expr{gast.Infix{Op: "..", L: al, R: bl}}}, nil, nil)
		}
	}
	// bounds that are computed: sums, differences, products, calls and indexes on either side,
	// written without parentheses (the range takes everything on both sides)
	{
		n := gast.Ident{Name: "n"}
		arr := gast.Ident{Name: "arr"}
		il := func(v int64) gast.Expr { return gast.IntLit{V: v} }
		bin := func(op string, l, r gast.Expr) gast.Expr { return gast.Infix{Op: op, L: l, R: r} }
		bounds := []gast.Expr{il(2), n, bin("+", il(2), il(3)), bin("+", n, il(1)), bin("-", n, il(1)), bin("-", gast.Call{Fn: "len", Args: []gast.Expr{arr}}, il(1)), bin("*", il(2), il(3)), bin("*", n, n),
			bin("%", il(7), il(4)), bin("**", il(2), il(3)), bin("/", il(8), il(2)), gast.Index{X: arr, I: il(1)}, gast.Prefix{Op: "-", X: n}, bin("+", bin("*", n, il(2)), il(1)), gast.Call{Fn: "min", Args: []gast.Expr{n, il(5)}}}
		vars := map[string]model.Value{"n": model.Int(3), "arr": model.Arr(model.Int(4), model.Int(6), model.Int(9))}
		for li, lo := range bounds {
			for hi, hb := range bounds {
				rg := bin("..", lo, hb)
				addExpr(fmt.Sprintf("range-computed/%d/%d", li, hi), "range with computed bounds", rg, vars, nil)
				if (li+hi)%3 == 0 {
					tr := gast.ExprStmt{X: gast.Call{Fn: "t", Args: []gast.Expr{gast.Ident{Name: "i"}, gast.Ident{Name: "e"}}}}
					addProg(fmt.Sprintf("range-computed-foreach/%d/%d", li, hi), "range with computed bounds", gast.Program{Stmts: []gast.Stmt{gast.Foreach{Idx: "i", Var: "e", It: rg, Body: []gast.Stmt{tr}}, gast.Return{X: gast.Call{Fn: "len", Args: []gast.Expr{rg}}}}}, vars, nil)
				}
			}
		}
	}
	for _, bad := range []model.Value{model.Float(1), model.Str("1"), model.Null(), model.Bool(true)} {
		bl, _ := gen.LitOf(bad)
		addExpr("range-bad/"+bad.Describe(), "range", gast.Infix{Op: "..", L: gast.IntLit{V: 1}, R: bl}, nil, nil)
		addExpr("range-bad2/"+bad.Describe(), "range", gast.Infix{Op: "..", L: bl, R: gast.IntLit{V: 3}}, nil, nil)
	}
	// sizes around the byte boundary of instruction operands
	for _, cnt := range []int{255, 256, 257, 300} {
		els := make([]model.Value, cnt)
		var ents []model.HashEnt
		for i := range els {
			els[i] = model.Int(int64(i))
			ents = append(ents, model.HashEnt{Key: model.Int(int64(i * 3)), Val: model.Int(int64(i))})
		}
		big, _ := gen.LitOf(model.Value{K: model.KArr, A: els})
		bigH, _ := gen.LitOf(model.Value{K: model.KHash, H: ents})
		for _, idx := range []int{0, 1, cnt - 2, cnt - 1, cnt, cnt + 1, 254, 255, 256} {
			il, _ := gen.LitOf(model.Int(int64(idx)))
			addExpr(fmt.Sprintf("bigarr/%d/%d", cnt, idx), "large array literal", gast.Index{X: big, I: il}, nil, nil)
			kl, _ := gen.LitOf(model.Int(int64(idx * 3)))
			addExpr(fmt.Sprintf("bighash/%d/%d", cnt, idx), "large hash literal", gast.Index{X: bigH, I: kl}, nil, nil)
		}
		addExpr(fmt.Sprintf("bigarr-len/%d", cnt), "large array literal", gast.Call{Fn: "len", Args: []gast.Expr{big}}, nil, nil)
		addExpr(fmt.Sprintf("bighash-len/%d", cnt), "large hash literal", gast.Call{Fn: "len", Args: []gast.Expr{bigH}}, nil, nil)
		lo, _ := gen.LitOf(model.Int(int64(1)))
		hi, _ := gen.LitOf(model.Int(int64(cnt)))
		addExpr(fmt.Sprintf("bigrange/%d", cnt), "range", gast.Call{Fn: "len", Args: []gast.Expr{gast.Infix{Op: "..", L: lo, R: hi}}}, nil, nil)
		tr := func(args ...gast.Expr) gast.Stmt { return gast.ExprStmt{X: gast.Call{Fn: "t", Args: args}} }
		addProg(fmt.Sprintf("bigarr-foreach/%d", cnt), "iteration", gast.Program{Stmts: []gast.Stmt{gast.Assign{Name: "n", X: gast.IntLit{V: 0}}, gast.Foreach{Idx: "i", Var: "e", It: big, Body: []gast.Stmt{gast.Assign{Name: "n", X: gast.Infix{Op: "+", L: gast.Ident{Name: "n"}, R: gast.Infix{Op: "-", L: gast.Ident{Name: "e"}, R: gast.Ident{Name: "i"}}}}}}, tr(gast.Ident{Name: "n"}), gast.Return{X: gast.Ident{Name: "n"}}}}, nil, nil)
	}
	c.ParFor(len(jobs), func(i int) {
		j := jobs[i]
		if !c.Want(j.id) {
			return
		}
		for _, noOpt := range []bool{false, true} {
			judged := checkProgramAgainstModel(c, j.id, j.class, j.prog, j.vars, []map[string]model.Value{j.flds, j.flds}, noOpt)
			c.Case(gast.Text(j.prog)+fmt.Sprint(describeFields(j.vars), describeFields(j.flds), noOpt), judged > 0)
		}
		if i%700 == 0 {
			c.Sample(map[string]string{"script": gast.Text(j.prog), "kind": j.class})
		}
	})
	c.Extra("exhaustive_shapes", len(jobs))

	// built-ins hand back new values: the container given to them is unchanged afterwards
	// (same printed form, same length, same iteration) - also while it is being iterated
	c16BuiltinsKeepArgument(c, "a", func(lit string) (string, map[string]interface{}) { return "a = " + lit + "; ", nil })
	// an integer and a float (or a string) of the same printed form in one script are still
	// two different keys, members and elements
	for vi, v := range []int64{65535, 65536, 70000, 2147483648, 9007199254740992, 1000000} {
		id := fmt.Sprintf("print-alike/%d", vi)
		if !c.Want(id) {
			continue
		}
		I, F, S := fmt.Sprint(v), fmt.Sprintf("%d.0", v), fmt.Sprintf("\"%d\"", v)
		cases := []struct{ script, want string }{
			{"h = {" + I + ": \"i\", " + F + ": \"f\", " + S + ": \"s\"}; return [len(h), h[" + I + "], h[" + F + "], h[" + S + "]];", "ARRAY:[3, i, f, s]"},
			{"h = {" + F + ": \"f\", " + I + ": \"i\"}; n = 0; foreach k, v1 in h { n++; } return [n, len(keys(h)), h[" + I + "], h[" + F + "]];", "ARRAY:[2, 2, i, f]"},
			{"a = [" + I + ", " + F + ", " + S + "]; return [type(a[0]), type(a[1]), type(a[2]), " + I + " in a, " + F + " in [" + I + "], " + S + " in [" + I + ", " + F + "]];", "ARRAY:[integer, float, string, true, false, false]"},
			{"a = [" + F + ", " + I + "]; return [type(a[0]), type(a[1]), len(a)];", "ARRAY:[float, integer, 2]"},
			{"h = {" + S + ": 1}; return [h[" + I + "], h[" + F + "], h[" + S + "]];", "ARRAY:[null, null, 1]"},
		}
		for _, tc := range cases {
			for _, noOpt := range []bool{false, true} {
				evr, err := eng.New(tc.script, eng.Options{NoOptimize: noOpt})
				got := "prepare-error"
				if err == nil {
					got = evr.Exec(nil).Desc()
				}
				c.Case(tc.script+fmt.Sprint(noOpt), true)
				if got != tc.want {
					c.Violation(id, "keys / members that print alike are confused", map[string]interface{}{"summary": fmt.Sprintf("%s (noopt=%v) gives %s, expected %s", tc.script, noOpt, got, tc.want), "script": tc.script})
				}
			}
		}
	}
	// strings a host can supply (and some a script can write): the replacement character,
	// combining marks, invalid bytes - len, indexing and iteration agree with each other
	for si, hs := range []string{"ab\ufffdcd", "\ufffd", "x\ufffd", "\ufffd\ufffdy", "e\u0301a", "\u0301", "a\xffb", "\xff", "é\xc3", "a\x00b", "👍🏽x", ""} {
		id := fmt.Sprintf("host-strings/%d", si)
		if !c.Want(id) {
			continue
		}
		script := `n = 0; bad = 0; foreach i, ch in S { n++; if (i != n - 1 || len(ch) != 1 || string(S[i]) != ch) { bad++; } } return [n == len(S), bad, type(S[len(S)]), len(S) == 0 || type(S[len(S) - 1]) == "string", S in [S], len(S + S) == 2 * len(S)];`
		for _, noOpt := range []bool{false, true} {
			evr, err := eng.New(script, eng.Options{NoOptimize: noOpt})
			if err != nil {
				continue
			}
			o := evr.Exec(map[string]interface{}{"S": hs})
			c.Case(fmt.Sprintf("host-string %q %v", hs, noOpt), true)
			if o.Desc() != "ARRAY:[true, 0, null, true, true, true]" {
				c.Violation(id, "len, indexing and iteration of a string disagree", map[string]interface{}{"summary": fmt.Sprintf("S=%q (noopt=%v): [iterations == len, mismatching positions, type(S[len]), last index is a character, S in [S], len(S+S) == 2 len(S)] = %s %s", hs, noOpt, o.Desc(), errText(o.Err)), "script": script})
			}
		}
	}
	// hashes with tied printed keys: dedicated oracle
	for ti, h := range c16TieHashes() {
		for prov := 0; prov < 2; prov++ {
			id := fmt.Sprintf("ties/%d/%d", ti, prov)
			if !c.Want(id) {
				continue
			}
			c16TieCheck(c, id, h, prov)
		}
	}

	// random containers
	n := c.Pick(3000, 100000)
	c.ParFor(n, func(i int) {
		id := fmt.Sprintf("rand/%d", i)
		if !c.Want(id) {
			return
		}
		r := c.Rng("rand", i)
		kind := []model.Kind{model.KArr, model.KHash, model.KStr}[r.Intn(3)]
		v := gen.RandValue(r, kind)
		lit, ok := gen.LitOf(v)
		if !ok {
			return
		}
		var x gast.Expr = lit
		vars := map[string]model.Value{}
		if r.Intn(2) == 0 {
			x = gast.Ident{Name: "cv"}
			vars["cv"] = v
		}
		var p gast.Program
		tr := func(args ...gast.Expr) gast.Stmt { return gast.ExprStmt{X: gast.Call{Fn: "t", Args: args}} }
		switch r.Intn(5) {
		case 0:
			idx, _ := gen.LitOf(model.Int(int64(r.Intn(9) - 2)))
			p = gast.Program{Stmts: []gast.Stmt{gast.Return{X: gast.Index{X: x, I: idx}}}}
		case 1:
			k, _ := gen.LitOf(gen.RandScalar(r, []model.Kind{model.KInt, model.KFloat, model.KStr}[r.Intn(3)]))
			p = gast.Program{Stmts: []gast.Stmt{gast.Return{X: gast.ArrayLit{Els: []gast.Expr{gast.Call{Fn: "len", Args: []gast.Expr{x}}, gast.Call{Fn: "type", Args: []gast.Expr{x}}, x, k}}}}}
			if kind == model.KHash {
				p = gast.Program{Stmts: []gast.Stmt{gast.Return{X: gast.ArrayLit{Els: []gast.Expr{gast.Index{X: x, I: k}, gast.Call{Fn: "keys", Args: []gast.Expr{x}}}}}}}
			}
		case 2:
			p = gast.Program{Stmts: []gast.Stmt{gast.Foreach{Idx: "i", Var: "e", It: x, Body: []gast.Stmt{tr(gast.Ident{Name: "i"}, gast.Ident{Name: "e"})}}}}
		case 3:
			k, _ := gen.LitOf(gen.RandScalar(r, []model.Kind{model.KInt, model.KFloat, model.KStr, model.KBool}[r.Intn(4)]))
			p = gast.Program{Stmts: []gast.Stmt{gast.Return{X: gast.Infix{Op: "in", L: k, R: x}}}}
		default:
			p = gast.Program{Stmts: []gast.Stmt{gast.Foreach{Var: "e", It: x, Body: []gast.Stmt{gast.Foreach{Var: "f", It: x, Body: []gast.Stmt{tr(gast.Ident{Name: "e"}, gast.Ident{Name: "f"})}}}}}}
		}
		judged := checkProgramAgainstModel(c, id, "random container", p, vars, []map[string]model.Value{nil}, r.Intn(2) == 0)
		c.Case(gast.Text(p)+fmt.Sprint(describeFields(vars)), judged > 0)
	})
}

func isIdent(s string) bool {
	if s == "" {
		return false
	}
	for i, r := range s {
		if !(r >= 'a' && r <= 'z' || r >= 'A' && r <= 'Z' || (i > 0 && r >= '0' && r <= '9')) {
			return false
		}
	}
	return true
}

// c16TieCheck: for a hash whose keys print alike, lookups must still be exact
// and iteration / keys / printing must list each entry exactly once in
// non-decreasing printed-key order, the same way every time.
func c16TieCheck(c *ev.Ctx, id string, h model.Value, prov int) {
	lit, _ := gen.LitOf(h)
	var x gast.Expr = lit
	vars := map[string]model.Value{}
	if prov == 1 {
		x = gast.Ident{Name: "cv"}
		vars["cv"] = h
	}
	xs := gast.ExprText(x)
	fail := func(what, script string) {
		c.Violation(id, "hash with keys that print alike: "+what, map[string]interface{}{"summary": what + "\n  script: " + script + fmt.Sprintf("\n  vars: %v", describeFields(vars)), "script": script})
	}
	// exact lookups
	for _, e := range h.H {
		kl, _ := gen.LitOf(e.Key)
		script := "return " + xs + "[" + gast.ExprText(kl) + "];"
		evr, err := eng.New(script, eng.Options{Vars: vars})
		c.Case(script+fmt.Sprint(prov), true)
		if err != nil {
			fail("prepare failed: "+err.Error(), script)
			continue
		}
		if got := evr.Exec(nil).Desc(); got != e.Val.Describe() {
			fail(fmt.Sprintf("lookup of key %s gives %s, expected %s", e.Key.Describe(), got, e.Val.Describe()), script)
		}
	}
	// iteration: each entry once, sorted by printed key, stable over repetitions
	script := "foreach k, v in " + xs + " { t(k, v); } return len(" + xs + ");"
	want := map[string]int{}
	for _, e := range h.H {
		want["t("+e.Key.Describe()+", "+e.Val.Describe()+")"]++
	}
	var first []string
	for rep := 0; rep < 30; rep++ {
		evr, err := eng.New(script, eng.Options{Vars: vars, NoOptimize: rep%2 == 1})
		c.Case(fmt.Sprint(script, prov, rep), true)
		if err != nil {
			fail("prepare failed: "+err.Error(), script)
			return
		}
		o := evr.Exec(nil)
		got := map[string]int{}
		for _, t := range o.Trace {
			got[t]++
		}
		if o.Desc() != fmt.Sprintf("INTEGER:%d", len(h.H)) || !sameCount(got, want) {
			fail(fmt.Sprintf("foreach does not visit each entry exactly once: trace %v result %s %s", o.Trace, o.Desc(), errText(o.Err)), script)
			return
		}
		keys := make([]string, len(o.Trace))
		for i, t := range o.Trace {
			keys[i] = t[strings.Index(t, ":")+1 : strings.Index(t, ",")]
		}
		if !sort.StringsAreSorted(keys) {
			fail(fmt.Sprintf("foreach order is not sorted by key: %v", o.Trace), script)
			return
		}
		if rep == 0 {
			first = o.Trace
		} else if !traceEq(first, o.Trace) {
			fail(fmt.Sprintf("iteration order changes between runs: %v vs %v", first, o.Trace), script)
			return
		}
	}
	// printing and keys(): stable and complete
	for _, sc := range []string{"return string(" + xs + ");", "return keys(" + xs + ");"} {
		seen := map[string]bool{}
		for rep := 0; rep < 30; rep++ {
			evr, err := eng.New(sc, eng.Options{Vars: vars})
			if err != nil {
				fail("prepare failed: "+err.Error(), sc)
				break
			}
			seen[evr.Exec(nil).Desc()] = true
			c.Case(fmt.Sprint(sc, prov, rep), true)
		}
		if len(seen) != 1 {
			fail(fmt.Sprintf("printed form / key list differs between evaluations: %d variants", len(seen)), sc)
		}
	}
}

func sameCount(a, b map[string]int) bool {
	if len(a) != len(b) {
		return false
	}
	for k, v := range a {
		if b[k] != v {
			return false
		}
	}
	return true
}

// c16BuiltinsKeepArgument: for unsorted arrays / strings / hashes bound to `name` (by the
// given setup), every built-in applied to it leaves it as it was. Shared by C16 (script
// variables) and C04 (object fields).
func c16BuiltinsKeepArgument(c *ev.Ctx, name string, setup func(lit string) (string, map[string]interface{})) {
	values := []model.Value{
		model.Arr(model.Int(3), model.Int(1), model.Int(2)), model.Arr(model.Str("pear"), model.Str("apple"), model.Str("fig"), model.Str("Apple")),
		model.Arr(model.Int(10), model.Int(9), model.Int(100), model.Float(2.5)), model.Arr(model.Int(8), model.Int(9), model.Int(10), model.Int(11)),
		model.Arr(model.Str("b"), model.Int(1), model.Bool(true)), model.Str("cba"), model.Arr(),
		model.Hash(model.HashEnt{Key: model.Str("z"), Val: model.Int(1)}, model.HashEnt{Key: model.Str("a"), Val: model.Int(2)}),
	}
	calls := []string{"sort(%s)", "sort(%s, true)", "reverse(%s)", "reverse(%s, true)", "len(%s)", "join(%s, \",\")", "string(%s)", "keys(%s)", "type(%s)", "lower(%s)", "upper(%s)", "min(%s, %s)", "max(%s, 1)", "sprintf(\"%%v\", %s)", "split(string(%s), \",\")", "replace(%s, /a/, \"b\")", "match(%s, /a/)"}
	for vi, v := range values {
		lit, ok := gen.LitOf(v)
		if !ok {
			continue
		}
		prefix, obj := setup(gast.ExprText(lit))
		if obj == nil {
			obj = map[string]interface{}{}
		}
		if _, isField := obj["__field__"]; isField {
			g, ok := eng.ToGo(v)
			if !ok {
				continue
			}
			obj = map[string]interface{}{name: g}
		}
		for ci, call := range calls {
			id := fmt.Sprintf("keeparg/%s/%d/%d", name, vi, ci)
			if !c.Want(id) {
				continue
			}
			cl := strings.ReplaceAll(call, "%s", name)
			cl = strings.ReplaceAll(cl, "%%", "%")
			scripts := []string{
				prefix + "before = string(" + name + "); n = len(" + name + "); x = " + cl + "; y = " + cl + "; return [before == string(" + name + "), n == len(" + name + ")];",
				prefix + "before = string(" + name + "); seen = \"\"; foreach e in " + name + " { x = " + cl + "; seen = seen + string(e) + \"|\"; } again = \"\"; foreach e in " + name + " { again = again + string(e) + \"|\"; } return [before == string(" + name + "), seen == again];",
			}
			for _, sc := range scripts {
				for _, noOpt := range []bool{false, true} {
					evr, err := eng.New(sc, eng.Options{NoOptimize: noOpt})
					if err != nil {
						continue
					}
					o := evr.Exec(obj)
					c.Case(sc+fmt.Sprint(noOpt), true)
					if o.Err != nil {
						continue // a built-in that does not accept this type: nothing to compare
					}
					if o.Desc() != "ARRAY:[true, true]" {
						c.Violation(id, "a built-in changed the container it was given", map[string]interface{}{"summary": fmt.Sprintf("%s (noopt=%v) gives %s, expected [true, true] (printed form / length / iteration of %s unchanged)", sc, noOpt, o.Desc(), name), "script": sc})
					}
				}
			}
		}
	}
}
