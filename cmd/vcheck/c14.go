package main

import (
	"fmt"
	"math"
	"math/rand"
	"os"
	"path/filepath"
	"regexp"
	"strconv"
	"strings"
	"sync/atomic"
	"time"
	"unicode/utf8"

	"github.com/skx/evalfilter/v2/lexer"
	"github.com/skx/evalfilter/v2/token"

	"verif/internal/eng"
	"verif/internal/ev"
	"verif/internal/gast"
	"verif/internal/gen"
)

func init() { register("C14", "exploration", c14) }

type tk struct{ T, L string }

// lexAll tokenises text with the engine's lexer; it stops at the first EOF or
// ILLEGAL, or after max calls.
func lexAll(text string, max int) (out []tk, sawEOF bool) {
	l := lexer.New(text)
	for i := 0; i < max; i++ {
		t := l.NextToken()
		out = append(out, tk{string(t.Type), t.Literal})
		if t.Type == token.EOF {
			return out, true
		}
		if t.Type == token.ILLEGAL {
			return out, false
		}
	}
	return out, false
}

func randUnicodeString(r *rand.Rand) string {
	n := r.Intn(12)
	var b strings.Builder
	for i := 0; i < n; i++ {
		switch r.Intn(17) {
		case 14:
			b.WriteRune(rune(0x80 + r.Intn(0x80))) // Latin-1 supplement: 2-byte sequences that fit one byte as a rune
		case 15:
			// boundaries of the UTF-8 encoding lengths and of the planes
			b.WriteRune([]rune{0x7f, 0x80, 0xff, 0x100, 0x7ff, 0x800, 0xd7ff, 0xe000, 0xfffd - 1, 0xffff, 0x10000, 0x10ffff, 0xa0, 0xe9, 0xfc}[r.Intn(15)])
		case 16:
			b.WriteRune(rune(0x100 + r.Intn(0x700))) // other 2-byte sequences
		case 0:
			b.WriteRune('"')
		case 1:
			b.WriteRune('\'')
		case 2:
			b.WriteRune('\\')
		case 3:
			b.WriteRune('\n')
		case 4:
			b.WriteRune('\t')
		case 5:
			b.WriteRune('\r')
		case 6:
			b.WriteRune(rune(0x300 + r.Intn(0x70))) // combining marks
		case 7:
			b.WriteRune(rune(0x4e00 + r.Intn(0x5000))) // CJK
		case 8:
			b.WriteRune(rune(0x1F600 + r.Intn(80))) // astral plane
		case 9:
			b.WriteRune([]rune{'/', 'n', 't', 'r', '0', ' ', ';', '}', '{', '$', '√'}[r.Intn(11)])
		case 10:
			for {
				c := rune(1 + r.Intn(0x10FFFF))
				if utf8.ValidRune(c) && c != 0xFFFD {
					b.WriteRune(c)
					break
				}
			}
		default:
			b.WriteRune(rune('a' + r.Intn(26)))
		}
	}
	return b.String()
}

var c14Current atomic.Value // string: the input being lexed (for the watchdog)

func c14(c *ev.Ctx) {
	c.SetRule("(1) random Unicode strings (all planes, combining marks, quotes, backslashes, newlines) spelled as literals in both quote styles with random equivalent spellings: the token and the executed value must be exactly the string; (2) regexp literals with escaped / and \\ and i/m flags: token and value are the pattern with (?flags) prefix; (3) integer / decimal spellings with leading and trailing zeros up to MaxInt64 (one past is rejected); (4) '/' after every token class is division or regexp by the stated rule; (5) layout: generated programs re-laid-out with random whitespace, newlines, // comments and no separator where tokens cannot merge give the same (type, literal) token stream; (6) termination: EOF is reached within len(input)+2 NextToken calls on random byte / rune strings. Distinct = distinct text; all non-trivial.")
	// watchdog for (6): a hang inside NextToken cannot be interrupted in-process
	stop := make(chan struct{})
	go func() {
		last, since := "", time.Now()
		for {
			select {
			case <-stop:
				return
			case <-time.After(2 * time.Second):
			}
			cur, _ := c14Current.Load().(string)
			if cur != last {
				last, since = cur, time.Now()
			} else if cur != "" && time.Since(since) > 60*time.Second {
				p := filepath.Join(ev.Root, "replay", "C14-hang-input.txt")
				os.MkdirAll(filepath.Dir(p), 0o755)
				os.WriteFile(p, []byte(cur), 0o644)
				fmt.Fprintf(ev.Out, "INCONCLUSIVE property=C14 tokenisation of the input saved at %s made no progress for 60s\n", p)
				os.Exit(3)
			}
		}
	}()
	defer close(stop)

	// (1) strings
	n := c.Pick(6000, 300000)
	c.ParFor(n, func(i int) {
		id := fmt.Sprintf("str/%d", i)
		if !c.Want(id) {
			return
		}
		r := c.Rng("str", i)
		v := randUnicodeString(r)
		quote := byte('"')
		if r.Intn(2) == 0 {
			quote = '\''
		}
		var alt *rand.Rand
		if r.Intn(3) != 0 {
			alt = r
		}
		lit := gast.EncodeString(v, quote, alt)
		c.Case(lit, true)
		toks, _ := lexAll("x = "+lit+" ;", 10)
		if len(toks) < 3 || toks[2].T != "STRING" || toks[2].L != v {
			c.Violation(id, "string literal token", map[string]interface{}{"summary": fmt.Sprintf("literal %s should denote %q, lexer gives %v", lit, v, toks), "script": lit})
			return
		}
		evr, err := eng.New("return "+lit+";", eng.Options{NoHook: true})
		if err != nil {
			c.Violation(id, "string literal rejected", map[string]interface{}{"summary": fmt.Sprintf("literal %s rejected: %v", lit, err), "script": lit})
			return
		}
		if o := evr.Exec(nil); o.Desc() != "STRING:"+v {
			c.Violation(id, "string literal value", map[string]interface{}{"summary": fmt.Sprintf("return %s; gives %q, expected %q", lit, o.Desc(), "STRING:"+v), "script": lit})
		}
		c.SampleEvery(i, func() interface{} { return map[string]string{"literal": lit, "denotes": v} })
	})
	// (2) regexps
	n = c.Pick(3000, 100000)
	c.ParFor(n, func(i int) {
		id := fmt.Sprintf("re/%d", i)
		if !c.Want(id) {
			return
		}
		r := c.Rng("re", i)
		pat := randUnicodeString(r)
		if i%3 == 0 {
			// two cases in three keep raw line feeds and carriage returns inside the literal
			pat = strings.Map(func(x rune) rune {
				if x == '\n' || x == '\r' {
					return 'z'
				}
				return x
			}, pat)
		} else if i%3 == 1 {
			at := r.Intn(len(pat) + 1)
			for try := 0; try < 50 && !utf8.RuneStart(append([]byte(pat), 'x')[at]); try++ {
				at = r.Intn(len(pat) + 1)
			}
			if !utf8.RuneStart(append([]byte(pat), 'x')[at]) {
				at = len(pat)
			}
			pat = pat[:at] + []string{"\n", "\r\n", "\r", "\n\n", "\t\n ", "?\n?"}[r.Intn(6)] + pat[at:]
		}
		if pat == "" || strings.HasPrefix(pat, "(?") {
			pat = "a" + pat
		}
		flags := []string{"", "", "i", "m", "im", "mi", "ii", "imi"}[r.Intn(8)]
		dedup := ""
		for _, f := range flags {
			if !strings.ContainsRune(dedup, f) {
				dedup += string(f)
			}
		}
		want := pat
		if dedup != "" {
			want = "(?" + dedup + ")" + pat
		}
		lit := gast.EncodeRegex(pat, flags)
		c.Case(lit, true)
		toks, _ := lexAll("x ~= "+lit+" ;", 10)
		if len(toks) < 3 || toks[2].T != "REGEXP" || toks[2].L != want {
			c.Violation(id, "regexp literal token", map[string]interface{}{"summary": fmt.Sprintf("literal %s should denote %q, lexer gives %v", lit, want, toks), "script": lit})
			return
		}
		evr, err := eng.New("return "+lit+";", eng.Options{NoHook: true})
		if err != nil {
			c.Violation(id, "regexp literal rejected", map[string]interface{}{"summary": fmt.Sprintf("literal %s rejected: %v", lit, err), "script": lit})
			return
		}
		if o := evr.Exec(nil); o.Desc() != "REGEXP:"+want {
			c.Violation(id, "regexp literal value", map[string]interface{}{"summary": fmt.Sprintf("return %s; gives %q, expected %q", lit, o.Desc(), "REGEXP:"+want), "script": lit})
		}
	})
	for i, bad := range []string{"/a/x", "/a/ig", "/a/I"} {
		id := fmt.Sprintf("re-badflag/%d", i)
		if c.Want(id) {
			c.Case(bad, true)
			if _, err := eng.New("return "+bad+";", eng.Options{NoHook: true}); err == nil {
				c.Violation(id, "bad regexp flag accepted", map[string]interface{}{"summary": bad + " accepted", "script": bad})
			}
		}
	}
	// (2b) the meaning of regexp literals, used in sequences with repeats and near-twins
	// (same pattern with / without flags) across evaluators of one process
	type reCase struct{ pat, flags string }
	rePool := []reCase{{"zq-demo", "i"}, {"zq-demo", ""}, {"ZQ-DEMO", ""}, {"^line2$", "m"}, {"^line2$", ""}, {"a.c", ""}, {"a.c", "i"}, {"a\\.c", ""}, {"[0-9]+", ""}, {"x|y", ""}, {"h.llo", "im"}, {"^$", ""}, {"é", "i"}, {"É", ""},
		// a group or inline flags first, holding characters of more than one byte
		{"(?:é)", ""}, {"(?:狐|犬)+", ""}, {"(?i:É)x?", ""}, {"(?:ÄÖ|é)", "i"}, {"(?P<n>ü|é)", ""}, {"(?s)h.llo", ""}}
	subjects := []string{"ZQ-DEMO", "zq-demo", "line1\nline2", "LINE2", "abc", "a.c", "ABC", "12", "", "héllo", "HÉLLO", "x", "É", "é", "狐犬", "äö", "ü"}
	n = c.Pick(300, 20000)
	c.ParFor(n, func(i int) {
		id := fmt.Sprintf("remean/%d", i)
		if !c.Want(id) {
			return
		}
		r := c.Rng("remean", i)
		// a short sequence over two or three patterns with immediate repeats: A B A A B B A ...
		k := 2 + r.Intn(2)
		picks := make([]reCase, k)
		for q := range picks {
			picks[q] = rePool[r.Intn(len(rePool))]
		}
		for step := 0; step < 8; step++ {
			rc := picks[r.Intn(k)]
			if step > 0 && r.Intn(3) == 0 {
				// repeat the previous one
			}
			subj := subjects[r.Intn(len(subjects))]
			lit := gast.EncodeRegex(rc.pat, rc.flags)
			goPat := rc.pat
			if rc.flags != "" {
				goPat = "(?" + rc.flags + ")" + rc.pat
			}
			re, err := regexp.Compile(goPat)
			if err != nil {
				continue
			}
			want := false
			for _, line := range strings.Split(subj, "\n") {
				if re.MatchString(strings.TrimSpace(line)) {
					want = true
				}
			}
			script := "return [" + gast.EncodeString(subj, '"', nil) + " ~= " + lit + ", " + gast.EncodeString(subj, '"', nil) + " !~ " + lit + ", match(" + gast.EncodeString(subj, '"', nil) + ", " + lit + ")];"
			evr, err := eng.New(script, eng.Options{NoHook: true, NoOptimize: r.Intn(2) == 0})
			c.Case(script+fmt.Sprint(i, step), true)
			got := "rejected"
			if err == nil {
				got = evr.Exec(nil).Desc()
			}
			wantDesc := fmt.Sprintf("ARRAY:[%v, %v, %v]", want, !want, want)
			if got != wantDesc {
				c.Violation(id, "meaning of a regexp literal", map[string]interface{}{"summary": fmt.Sprintf("step %d of a sequence: %s gives %s, Go's regexp for %q on %q says %s", step+1, script, got, goPat, subj, wantDesc), "script": script})
				return
			}
		}
	})
	// (2c) generated regexps (groups of every kind - also as the very first item -, classes,
	// repetition, alternation) against generated subjects; Go's regexp package is the oracle
	n = c.Pick(1500, 60000)
	c.ParFor(n, func(i int) {
		id := fmt.Sprintf("regen/%d", i)
		if !c.Want(id) {
			return
		}
		r := c.Rng("regen", i)
		var gen func(d int) string
		atom := func(d int) string {
			switch k := r.Intn(14); {
			case k < 4:
				return []string{"a", "b", "aa", "ab", "1", "o", "foo", "bar"}[r.Intn(8)]
			case k == 4:
				// punctuation that means something elsewhere in the language (as the first
				// character of a literal it meets the lexer's division / regexp decision)
				return []string{"=", "==", "-", ",", ":", "!", "<", ">", "&", ";", "#", "'", "~", "%", "@", "_", " ", "!=", "=~"}[r.Intn(19)]
			case k == 5:
				return "."
			case k == 6:
				return []string{"[ab]", "[^a]", "[0-9]", "\\d", "\\w", "\\s"}[r.Intn(6)]
			case k == 7:
				return []string{"^", "$", "\\b"}[r.Intn(3)]
			case d <= 0:
				return "b"
			case k == 8:
				return "(" + gen(d-1) + ")"
			case k == 9 || k == 10:
				return "(?:" + gen(d-1) + ")"
			case k == 11:
				return "(?P<" + []string{"n", "nn", "aba"}[r.Intn(3)] + ">" + gen(d-1) + ")"
			case k == 12:
				return "(?" + []string{"i", "s", "is", "U", "i-s", "m"}[r.Intn(6)] + ":" + gen(d-1) + ")"
			}
			return "(?" + []string{"i", "s", "m", "im"}[r.Intn(4)] + ")" + gen(d-1)
		}
		gen = func(d int) string {
			var b strings.Builder
			for k := 0; k < 1+r.Intn(3); k++ {
				if k > 0 && r.Intn(4) == 0 {
					b.WriteString("|")
				}
				b.WriteString(atom(d))
				if r.Intn(3) == 0 {
					b.WriteString([]string{"*", "+", "?", "{2}", "{1,2}", "+?"}[r.Intn(6)])
				}
			}
			return b.String()
		}
		pat := gen(2)
		flags := []string{"", "", "i", "m", "im"}[r.Intn(5)]
		goPat := pat
		if flags != "" {
			goPat = "(?" + flags + ")" + pat
		}
		re, err := regexp.Compile(goPat)
		if err != nil {
			return
		}
		lit := gast.EncodeRegex(pat, flags)
		alphabet := []string{"a", "b", "A", "1", "o", "f", "r", " ", "foo", "bar", "ab", "=", "-", ",", ":", "!", "<", "&", ";", "#", "'", "~", "%", "@", "_"}
		var parts, wants []string
		for q := 0; q < 6; q++ {
			var sb strings.Builder
			for k := 0; k < r.Intn(6); k++ {
				sb.WriteString(alphabet[r.Intn(len(alphabet))])
			}
			subj := strings.TrimSpace(sb.String())
			parts = append(parts, gast.EncodeString(subj, '"', nil)+" ~= "+lit)
			wants = append(wants, fmt.Sprint(re.MatchString(subj)))
		}
		script := "return [" + strings.Join(parts, ", ") + "];"
		evr, err := eng.New(script, eng.Options{NoHook: true, NoOptimize: r.Intn(2) == 0})
		c.Case(script, true)
		got := "rejected"
		if err == nil {
			got = evr.Exec(nil).Desc()
		} else {
			got = "rejected: " + err.Error()
		}
		if want := "ARRAY:[" + strings.Join(wants, ", ") + "]"; got != want {
			c.Violation(id, "meaning of a generated regexp literal", map[string]interface{}{"summary": fmt.Sprintf("%s gives %s, Go's regexp for %q says %s", script, got, goPat, want), "script": script})
		}
	})
	// (3) numbers
	n = c.Pick(3000, 100000)
	c.ParFor(n, func(i int) {
		id := fmt.Sprintf("num/%d", i)
		if !c.Want(id) {
			return
		}
		r := c.Rng("num", i)
		zeros := strings.Repeat("0", r.Intn(4))
		if r.Intn(2) == 0 {
			var v int64
			switch r.Intn(5) {
			case 0:
				v = math.MaxInt64 - int64(r.Intn(3))
			case 1:
				v = int64(65533 + r.Intn(5))
			case 2:
				v = r.Int63()
			default:
				v = int64(r.Intn(1000))
			}
			lit := zeros + strconv.FormatInt(v, 10)
			c.Case(lit, true)
			evr, err := eng.New("return "+lit+";", eng.Options{NoHook: true, NoOptimize: r.Intn(2) == 0})
			want := "INTEGER:" + strconv.FormatInt(v, 10)
			got := "rejected"
			if err == nil {
				got = evr.Exec(nil).Desc()
			}
			if got != want {
				c.Violation(id, "integer literal", map[string]interface{}{"summary": fmt.Sprintf("return %s; gives %s, expected %s", lit, got, want), "script": lit})
			}
			return
		}
		ip := strconv.Itoa(r.Intn(100000))
		fp := strconv.Itoa(r.Intn(100000))
		lit := zeros + ip + "." + fp + strings.Repeat("0", r.Intn(3))
		f, _ := strconv.ParseFloat(lit, 64)
		c.Case(lit, true)
		evr, err := eng.New("return "+lit+";", eng.Options{NoHook: true})
		want := "FLOAT:" + strconv.FormatFloat(f, 'f', -1, 64)
		got := "rejected"
		if err == nil {
			got = evr.Exec(nil).Desc()
		}
		if got != want {
			c.Violation(id, "decimal literal", map[string]interface{}{"summary": fmt.Sprintf("return %s; gives %s, expected %s", lit, got, want), "script": lit})
		}
	})
	if c.Want("num/overflow") {
		c.Case("9223372036854775808", true)
		if _, err := eng.New("return 9223372036854775808;", eng.Options{NoHook: true}); err == nil {
			c.Violation("num/overflow", "integer one past MaxInt64 accepted", map[string]interface{}{"summary": "return 9223372036854775808; accepted", "script": "return 9223372036854775808;"})
		}
		for _, s := range []struct{ t, w string }{{"return 1..3;", "ARRAY:[1, 2, 3]"}, {"return 1.5;", "FLOAT:1.5"}, {"return [1.0, 1];", "ARRAY:[1, 1]"}, {"return 10 / 4;", "INTEGER:2"}, {"return 10.0 / 4;", "FLOAT:2.5"}} {
			c.Case(s.t, true)
			evr, err := eng.New(s.t, eng.Options{NoHook: true})
			got := "rejected"
			if err == nil {
				got = evr.Exec(nil).Desc()
			}
			if got != s.w {
				c.Violation("num/dots", "number / range spelling", map[string]interface{}{"summary": fmt.Sprintf("%s gives %s, expected %s", s.t, got, s.w), "script": s.t})
			}
		}
	}
	// (3b) literals of different kinds whose printed forms coincide, in one script:
	// each still denotes what it spells (and names stay names)
	forms := []string{"2.5", "70000", "65535", "65536", "100000.25", "abc", "steve", "true", "null", "x", "len", "1", "0.5", "9223372036854775807"}
	n = c.Pick(1500, 60000)
	c.ParFor(n, func(i int) {
		id := fmt.Sprintf("alike/%d", i)
		if !c.Want(id) {
			return
		}
		r := c.Rng("alike", i)
		f := forms[r.Intn(len(forms))]
		type lit struct{ text, want string }
		var lits []lit
		lits = append(lits, lit{strconv.Quote(f), "STRING:" + f})
		if _, err := strconv.ParseInt(f, 10, 64); err == nil {
			lits = append(lits, lit{f, "INTEGER:" + f})
		} else if fv, err := strconv.ParseFloat(f, 64); err == nil && strings.Contains(f, ".") {
			lits = append(lits, lit{f, "FLOAT:" + strconv.FormatFloat(fv, 'f', -1, 64)})
		}
		if _, err := strconv.ParseFloat(f, 64); err != nil {
			lits = append(lits, lit{"/" + f + "/", "REGEXP:" + f})
		}
		lits = append(lits, lit{"'" + f + "'", "STRING:" + f})
		r.Shuffle(len(lits), func(a, b int) { lits[a], lits[b] = lits[b], lits[a] })
		var sb strings.Builder
		var wants []string
		for k, l := range lits {
			fmt.Fprintf(&sb, "v%d = %s; ", k, l.text)
			wants = append(wants, l.want)
		}
		sb.WriteString("r = [")
		for k := range lits {
			if k > 0 {
				sb.WriteString(", ")
			}
			fmt.Fprintf(&sb, "type(v%d), string(v%d)", k, k)
		}
		sb.WriteString("]; return r;")
		script := sb.String()
		var want []string
		for _, w := range wants {
			tp := strings.ToLower(w[:strings.Index(w, ":")])
			want = append(want, tp, w[strings.Index(w, ":")+1:])
		}
		wantDesc := "ARRAY:[" + strings.Join(want, ", ") + "]"
		c.Case(script, true)
		for _, noOpt := range []bool{false, true} {
			evr, err := eng.New(script, eng.Options{NoHook: true, NoOptimize: noOpt})
			got := "rejected"
			if err == nil {
				got = evr.Exec(nil).Desc()
			}
			if got != wantDesc {
				c.Violation(id, "literals that print alike", map[string]interface{}{"summary": fmt.Sprintf("%s (noopt=%v) gives %s, expected %s", script, noOpt, got, wantDesc), "script": script})
				return
			}
		}
	})
	// (4) division vs regexp after every token class
	divAfter := []string{"x", "foo_1", "$y", ")", "]", "3", "2.5"}
	reAfter := []string{"(", "[", "{", "}", ",", ";", ":", "?", "=", "==", "!=", "+", "-", "*", "%", "<", ">", "<=", ">=", "&&", "||", "~=", "!~", "!", "return", "in", "case", "true", "false", "\"s\"", "'s'", "..", "+=", "**", "if", "else", "√"}
	for i, p := range divAfter {
		id := fmt.Sprintf("slash-div/%d", i)
		if !c.Want(id) {
			continue
		}
		text := p + " /ab/ 2"
		toks, _ := lexAll(text, 12)
		c.Case(text, true)
		k := len(toks) - 5
		if k < 0 || toks[k].T != "/" || toks[k+1] != (tk{"IDENT", "ab"}) || toks[k+2].T != "/" {
			c.Violation(id, "'/' after "+p+" should be division", map[string]interface{}{"summary": fmt.Sprintf("%s lexes as %v", text, toks), "script": text})
		}
		text2 := p + " /= 2"
		toks, _ = lexAll(text2, 12)
		c.Case(text2, true)
		if len(toks) < 3 || toks[len(toks)-3].T != "/=" {
			c.Violation(id, "'/=' after "+p, map[string]interface{}{"summary": fmt.Sprintf("%s lexes as %v", text2, toks), "script": text2})
		}
	}
	for i, p := range reAfter {
		id := fmt.Sprintf("slash-re/%d", i)
		if !c.Want(id) {
			continue
		}
		text := p + " /ab/ 2"
		toks, _ := lexAll(text, 12)
		c.Case(text, true)
		k := len(toks) - 3
		if k < 0 || toks[k] != (tk{"REGEXP", "ab"}) {
			c.Violation(id, "'/' after "+p+" should start a regexp", map[string]interface{}{"summary": fmt.Sprintf("%s lexes as %v", text, toks), "script": text})
		}
	}
	// (5) layout invariance
	n = c.Pick(2500, 300000)
	c.ParFor(n, func(i int) {
		id := fmt.Sprintf("layout/%d", i)
		if !c.Want(id) {
			return
		}
		r := c.Rng("layout", i)
		env := gen.NewEnv(r)
		pg := &gen.ProgGen{R: r, E: &gen.ExprGen{R: r, Env: env, Calls: true, IllTyped: 5}, CondFields: 2, MaxDepth: 2 + r.Intn(2), MaxStmts: 4, Funcs: r.Intn(3), Mutators: true}
		p := pg.Program()
		toks := (&gast.Printer{Mode: gast.ParenMode(r.Intn(3)), Rng: r}).ProgramTokens(p)
		canon := gast.Join(toks)
		a, okA := lexAll(canon, len(toks)*2+10)
		if !okA {
			c.Violation(id, "canonical text does not lex", map[string]interface{}{"summary": "generated program does not lex to EOF: " + canon, "script": canon})
			return
		}
		for v := 0; v < 3; v++ {
			laid := gast.JoinLayout(toks, r)
			b, _ := lexAll(laid, len(toks)*2+10)
			c.Case(laid, true)
			if !sameToks(a, b) {
				c.Violation(id, "layout changes tokens", map[string]interface{}{"summary": fmt.Sprintf("re-laid-out text lexes differently\n  canonical: %q\n  laid out:  %q\n  first difference: %s", canon, laid, firstDiff(a, b)), "script": laid, "canonical": canon})
				return
			}
		}
		if i%500 == 0 {
			c.Sample(map[string]string{"canonical": canon, "laid_out": gast.JoinLayout(toks, r)})
		}
	})
	// (6) termination
	n = c.Pick(20000, 1000000)
	alphabet := []rune("abc019 \t\n\r\"'/\\.+-*%=<>!~&|(){}[],;:?$_√é狐\x00#@^`")
	c.ParFor(n, func(i int) {
		id := fmt.Sprintf("term/%d", i)
		if !c.Want(id) {
			return
		}
		r := c.Rng("term", i)
		ln := r.Intn(60)
		if r.Intn(50) == 0 {
			ln = 2000 + r.Intn(3000)
		}
		var text string
		if r.Intn(2) == 0 {
			b := make([]byte, ln)
			for k := range b {
				b[k] = byte(r.Intn(256))
			}
			text = string(b)
		} else {
			rs := make([]rune, ln)
			for k := range rs {
				rs[k] = alphabet[r.Intn(len(alphabet))]
			}
			text = string(rs)
		}
		c14Current.Store(text)
		nr := len([]rune(text))
		l := lexer.New(text)
		seen := false
		for k := 0; k < nr+2; k++ {
			if l.NextToken().Type == token.EOF {
				seen = true
				break
			}
		}
		c.Case(text, true)
		if !seen {
			c.Violation(id, "tokenisation does not reach EOF", map[string]interface{}{"summary": fmt.Sprintf("no EOF within %d NextToken calls on a %d-rune input %q", nr+2, nr, text), "script": text})
		}
	})
	c14Current.Store("")
}

func sameToks(a, b []tk) bool {
	if len(a) != len(b) {
		return false
	}
	for i := range a {
		if a[i] != b[i] {
			return false
		}
	}
	return true
}

func firstDiff(a, b []tk) string {
	for i := 0; i < len(a) && i < len(b); i++ {
		if a[i] != b[i] {
			return fmt.Sprintf("token %d: %v vs %v", i, a[i], b[i])
		}
	}
	return fmt.Sprintf("lengths %d vs %d", len(a), len(b))
}
