package main

import (
	"fmt"
	"github.com/skx/evalfilter/v2/object"

	"verif/internal/eng"
	"verif/internal/ev"
	"verif/internal/gast"
	"verif/internal/gen"
	"verif/internal/model"
)

func init() { register("C06", "exploration", c06) }

func c06(c *ev.Ctx) {
	c.SetRule("random programs with 1-4 user-defined functions: parameters / locals / loop variables drawn from a tiny pool {a,b,x,n} that clashes with global names, nested and (argument-decreasing) recursive calls, returns at every depth inside foreach/while/switch, values read after the inner call returns, calls before definition; each program run under all truth assignments of its condition fields; compared with a lexical-frame reference model on result, host-call trace and variables left; after every run the number of open scopes (hook) must be what it was before the run. Distinct = distinct (program, assignment); non-trivial = at least one user-function call executed in the model and outcome defined.")
	c.Assume("reference model: a call binds parameters/locals/loop variables in its own frame, everything else is global; programs that touch a live caller's local (dynamic scoping) are don't-care")
	n := c.Pick(1200, 100000)
	c.ParFor(n, func(i int) {
		id := fmt.Sprintf("prog/%d", i)
		if !c.Want(id) {
			return
		}
		r := c.Rng("prog", i)
		env := gen.NewEnv(r)
		k := 1 + r.Intn(3)
		pg := &gen.ProgGen{R: r, E: &gen.ExprGen{R: r, Env: env}, CondFields: k, MaxDepth: 2 + r.Intn(2), MaxStmts: 4, Funcs: 1 + r.Intn(4), Mutators: r.Intn(2) == 0}
		p := pg.Program()
		script := gast.Text(p)
		noOpt := r.Intn(2) == 0
		if gast.ProgramHasSqrtOfIntConst(p) {
			noOpt = true
		}
		for mask := 0; mask < 1<<k; mask++ {
			obj := condObject(env.Fields, k, mask, r)
			objs := []map[string]model.Value{obj}
			judged := checkProgramAgainstModel(c, id, "program with functions", p, env.Vars, objs, noOpt)
			mv := modelRuns(p, env.Vars, objs)
			calls := 0
			for _, t := range mv[0].Trace {
				_ = t
				calls++
			}
			c.Case(fmt.Sprintf("%s|%d|%v", script, mask, noOpt), judged > 0 && calls > 0)
		}
		// scope balance (hook): one evaluator, all assignments in sequence
		evr, err := eng.New(script, eng.Options{NoOptimize: noOpt, Vars: env.Vars})
		if err == nil {
			for mask := 0; mask < 1<<k; mask++ {
				obj, _ := eng.FieldsToMap(condObject(env.Fields, k, mask, r))
				before := evr.ScopeDepth()
				o := evr.Exec(obj)
				if o.Budget {
					break
				}
				if after := evr.ScopeDepth(); after != before {
					c.Violation(id, "open scopes after a run", map[string]interface{}{
						"summary": fmt.Sprintf("open scopes before run %d: %d, after: %d (result %s)\n  script: %s\n  object: %v", mask, before, after, o.Desc(), script, obj),
						"script":  script, "object": fmt.Sprint(obj)})
					break
				}
				c.Count("scope_balance_checks", 1)
			}
		}
		c.SampleEvery(i, func() interface{} { return map[string]interface{}{"script": script} })
	})
	c06Names(c)
	c06Fixed(c)
	c06PartialReturn(c)
	c06ReadYourWrite(c)
	c06RecursionThroughLoops(c)
	// a built-in (also one the host adds later, after Prepare, between runs) wins over a
	// function of the same name that the script defines
	if c.Want("late-built-in") {
		for _, noOpt := range []bool{false, true} {
			script := `function area(w, h) { seen = "script"; return w * h + 1; } seen = "none"; return [area(3, 4), seen];`
			evr, err := eng.New(script, eng.Options{NoOptimize: noOpt})
			c.Case("late-built-in"+fmt.Sprint(noOpt), true)
			if err != nil {
				continue
			}
			first := evr.Exec(nil).Desc()
			evr.E.AddFunction("area", func(a []object.Object) object.Object { return &object.Integer{Value: 1000} })
			second := evr.Exec(nil).Desc()
			third := evr.Exec(nil).Desc()
			if first != "ARRAY:[13, script]" || second != "ARRAY:[1000, none]" || third != second {
				c.Violation("late-built-in", "a function the host adds after Prepare does not win over the script's function", map[string]interface{}{"summary": fmt.Sprintf("%s (noopt=%v): before AddFunction %s (expected [13, script]), after it %s and %s (expected [1000, none])", script, noOpt, first, second, third), "script": script})
			}
		}
	}
	// recursion keeps working after calls that failed deep inside other calls (the stream
	// is shared with C07)
	c07Limits(c)
	// the function table belongs to the script in force: after preparing another
	// script on the same evaluator a function only the old script defined is unknown
	c20RePrepare(c)
}

// c06Names: one identifier used in several roles at once (global, function,
// parameter, local, loop variable / index, object field, built-in name, string
// contents, hash key): the name spaces must not leak into each other.
func c06Names(c *ev.Ctx) {
	id := func(n string) gast.Expr { return gast.Ident{Name: n} }
	il := func(v int64) gast.Expr { return gast.IntLit{V: v} }
	str := func(v string) gast.Expr { return gast.StrLit{V: v} }
	call := func(f string, a ...gast.Expr) gast.Expr { return gast.Call{Fn: f, Args: a} }
	arr := func(a ...gast.Expr) gast.Expr { return gast.ArrayLit{Els: a} }
	asg := func(n string, e gast.Expr) gast.Stmt { return gast.Assign{Name: n, X: e} }
	ret := func(e gast.Expr) gast.Stmt { return gast.Return{X: e} }
	plus := func(a, b gast.Expr) gast.Expr { return gast.Infix{Op: "+", L: a, R: b} }
	tr := func(a ...gast.Expr) gast.Stmt { return gast.ExprStmt{X: gast.Call{Fn: "t", Args: a}} }
	names := []string{"x", "len", "type", "f", "Name", "Count", "k", "string", "a"}
	templates := []func(n, m string) gast.Program{
		func(n, m string) gast.Program { // variable and function of the same name
			return gast.Program{Stmts: []gast.Stmt{asg(n, il(1)), gast.FuncDef{Name: "u_" + n, Params: []string{n}, Body: []gast.Stmt{ret(plus(id(n), il(10)))}}, ret(arr(id(n), call("u_"+n, id(n)), id(n)))}}
		},
		func(n, m string) gast.Program { // parameter shadows global and field; assignment inside stays local
			return gast.Program{Stmts: []gast.Stmt{gast.FuncDef{Name: "g", Params: []string{n, m}, Body: []gast.Stmt{asg(n, plus(id(n), il(1))), tr(id(n), id(m)), ret(arr(id(n), id(m)))}}, asg("r", call("g", il(5), str("s"))), ret(arr(id(n), id(m), id("r")))}}
		},
		func(n, m string) gast.Program { // local shadows global / field, and is gone afterwards
			return gast.Program{Stmts: []gast.Stmt{asg(m, str("glob")), gast.FuncDef{Name: "g", Body: []gast.Stmt{gast.Local{Name: n}, gast.Local{Name: m}, asg(n, str("loc")), asg(m, id(n)), ret(arr(id(n), id(m)))}}, asg("r", call("g")), ret(arr(id(n), id(m), id("r"), str(n)))}}
		},
		func(n, m string) gast.Program { // loop variable and index named like a global / field / built-in
			return gast.Program{Stmts: []gast.Stmt{asg("acc", str("")), gast.Foreach{Idx: m, Var: n, It: arr(str("p"), str("q")), Body: []gast.Stmt{asg("acc", plus(id("acc"), plus(call("string", id(m)), id(n))))}}, ret(arr(id("acc"), id(n), id(m)))}}
		},
		func(n, m string) gast.Program { // loop variable inside a function named like its parameter; nested loop with the same names
			return gast.Program{Stmts: []gast.Stmt{gast.FuncDef{Name: "g", Params: []string{n, m}, Body: []gast.Stmt{
				gast.Foreach{Idx: m, Var: n, It: arr(il(7), il(8)), Body: []gast.Stmt{gast.Foreach{Idx: m, Var: n, It: str("ab"), Body: []gast.Stmt{tr(id(m), id(n))}}, tr(id(m), id(n))}},
				ret(arr(id(n), id(m)))}}, ret(arr(call("g", str("P"), str("Q")), id(n), id(m)))}}
		},
		func(n, m string) gast.Program { // the name as string contents and as hash key
			return gast.Program{Stmts: []gast.Stmt{asg(n, str(m)), asg("h", gast.HashLit{Keys: []gast.Expr{str(n), str(m + "_")}, Vals: []gast.Expr{id(n), str(n)}}), ret(arr(id("h"), gast.Index{X: id("h"), I: str(n)}, gast.Index{X: id("h"), I: id(n)}, id(n), id(m)))}}
		},
		func(n, m string) gast.Program { // recursion with parameters named like globals that the caller also uses
			return gast.Program{Stmts: []gast.Stmt{asg(n, il(100)), gast.FuncDef{Name: "rec", Params: []string{n, m}, Body: []gast.Stmt{
				gast.If{C: gast.Infix{Op: "<=", L: id(n), R: il(0)}, Then: []gast.Stmt{ret(id(m))}},
				asg("inner", call("rec", gast.Infix{Op: "-", L: id(n), R: il(1)}, plus(id(m), id(n)))), ret(arr(id(n), id(m), id("inner")))}},
				ret(arr(call("rec", il(3), il(0)), id(n)))}}
		},
		func(n, m string) gast.Program { // a user function named like a built-in never replaces it; one named like a variable does not disturb it
			return gast.Program{Stmts: []gast.Stmt{gast.FuncDef{Name: "len", Params: []string{"q"}, Body: []gast.Stmt{ret(il(99))}}, gast.FuncDef{Name: n + "_fn", Params: []string{m}, Body: []gast.Stmt{ret(call("len", id(m)))}}, asg(n, str("abc")), ret(arr(call("len", id(n)), call(n+"_fn", str("four")), id(n)))}}
		},
	}
	fields := map[string]model.Value{"Name": model.Str("field-name"), "Count": model.Int(3), "k": model.Str("field-k"), "len": model.Int(7)}
	total := 0
	for ti, tpl := range templates {
		for _, n := range names {
			for _, m := range names {
				if n == m {
					continue
				}
				total++
				cid := fmt.Sprintf("names/%d/%s/%s", ti, n, m)
				if !c.Want(cid) {
					continue
				}
				p := tpl(n, m)
				for _, noOpt := range []bool{false, true} {
					judged := checkProgramAgainstModel(c, cid, "one name in several roles", p, nil, []map[string]model.Value{fields, fields}, noOpt)
					c.Case(gast.Text(p)+fmt.Sprint(noOpt), judged > 0)
				}
				if total%97 == 0 {
					c.Sample(map[string]string{"script": gast.Text(p), "kind": "name clash"})
				}
			}
		}
	}
}

// fixed regression programs (each was a defect once, or states a clause of the
// property directly)
func c06Fixed(c *ev.Ctx) {
	cases := []struct{ name, script, want string }{
		{"recursion-keeps-parameters", `function fact(n){ if(n<=1){return 1;} return fact(n-1)*n; } return fact(5);`, "INTEGER:120"},
		{"param-shadows-global", `a = 1; function f(a){ a = a + 10; return a; } r = f(5); return [a, r];`, "ARRAY:[1, 15]"},
		{"local-shadows-global", `x = 1; function f(){ local x; x = 2; return x; } r = f(); return [x, r];`, "ARRAY:[1, 2]"},
		{"nonlocal-assignment-is-global", `function f(){ z = 9; } f(); return z;`, "INTEGER:9"},
		{"call-before-definition", `return g(2); function g(a){ return a * 2; }`, "INTEGER:4"},
		{"wrong-arity-is-error", `function f(a){ return a; } return f(1, 2);`, "error"},
		{"unknown-function-is-error", `return nosuch(1);`, "error"},
		{"builtin-wins", `function len(x){ return 99; } return len("ab");`, "INTEGER:2"},
		{"foreach-var-restored", `function f(x){ foreach x in [7,8] { y = x; } return x; } return f(1);`, "INTEGER:1"},
		{"return-inside-foreach-in-function", `function f(){ foreach e in [1,2,3] { if (e == 2) { return e; } } return 0; } a = f(); b = f(); return [a, b, e];`, "ARRAY:[2, 2, null]"},
		{"nested-same-name-loop-vars", `r = ""; foreach x in "ab" { foreach x in "cd" { r = r + x; } r = r + x; } return r;`, "STRING:cdacdb"},
		{"return-from-two-nested-loops-in-function", `function f(a){ foreach x in [1,2] { foreach y in [3,4] { if (y == 4) { return a + x; } } } return 0; } a = 100; x = "gx"; r = f(1); return [a, x, r, y];`, "ARRAY:[100, gx, 2, null]"},
		{"return-from-three-nested-loops-in-function", `function f(a){ foreach x in "ab" { foreach y in 1..2 { foreach z in {"k": 1} { return z + a; } } } return 0; } a = 5; r = f(10); s = f(20); return [a, r, s];`, "ARRAY:[5, 11, 21]"},
		{"error-inside-two-nested-loops-in-function", `function f(a){ foreach x in [1] { foreach y in [2] { if (Bad) { return 1 / Zero; } } } return a; } a = 7; r = f(8); return [a, r];`, "ARRAY:[7, 8]"},
		{"assignment-to-global-after-nested-return", `function f(a){ foreach x in [1,2] { foreach y in [3,4] { return 1; } } return 0; } a = 1; f(5); a = 2; return a;`, "INTEGER:2"},
		{"local-over-a-parameter-starts-as-null", `function f(a) { local a; return a; } return [f(5), f("x")];`, "ARRAY:[null, null]"},
		{"local-declared-twice-starts-afresh", `function f() { local x; x = 1; local x; return x; } return f();`, "NULL:null"},
		{"local-in-a-loop-body-starts-afresh-every-round", `function f() { r = 0; foreach i in [1, 2, 3] { local s; if (s) { r = r + 100; } s = i; r = r + 1; } return r; } return [f(), f()];`, "ARRAY:[3, 3]"},
		{"local-in-a-while-body-starts-afresh-every-round", `function f() { r = 0; w = 3; while (w > 0) { w--; local s; if (s) { r = r + 100; } s = 1; r = r + 1; } return r; } return f();`, "INTEGER:3"},
		{"local-over-the-loop-variable", `function f() { r = []; foreach v1 in [7, 8] { local v1; r = [v1]; } return r; } return f();`, "ARRAY:[null]"},
		{"function-named-like-a-built-in-but-for-case", `function Max(a, b) { calls = calls + 1; return a + b + 100; } function LOWER(s) { return "mine:" + s; } calls = 0; return [Max(3, 7), LOWER("Ab"), max(3, 7), lower("Ab"), calls];`, "ARRAY:[110, mine:Ab, 7, ab, 1]"},
		{"wrong-arity-for-a-function-named-like-a-built-in-but-for-case", `function Keys() { return 1; } return Keys({"a": 1});`, "error"},
		{"built-in-names-are-case-sensitive", `return LEN("abc");`, "error"},
		{"built-in-names-are-case-sensitive-2", `return Len("abc") + Upper("x");`, "error"},
		{"mutual-params", `function f(a){ return g(a+1) + a; } function g(a){ return a * 10; } return f(1);`, "INTEGER:21"},
	}
	for _, tc := range cases {
		id := "fixed:" + tc.name
		if !c.Want(id) {
			continue
		}
		for _, noOpt := range []bool{false, true} {
			evr, err := eng.New(tc.script, eng.Options{NoOptimize: noOpt})
			got := "prepare-error"
			if err == nil {
				got = evr.Exec(map[string]interface{}{}).Desc()
			}
			c.Case(id+fmt.Sprint(noOpt), true)
			if got != tc.want {
				c.Violation(id, id, map[string]interface{}{"summary": fmt.Sprintf("%s (noopt=%v) gives %s, expected %s", tc.script, noOpt, got, tc.want), "script": tc.script})
			}
			if err == nil && evr.ScopeDepth() != 0 {
				c.Violation(id, id+"/scopes", map[string]interface{}{"summary": fmt.Sprintf("%s leaves %d scope(s) open", tc.script, evr.ScopeDepth()), "script": tc.script})
			}
		}
	}
}

// c06PartialReturn: functions that return a value on some paths and nothing on the others
// (their last statement is a conditional / loop / switch with a return inside), called as
// a statement and as a value, from the top level, from loops and from other functions.
func c06PartialReturn(c *ev.Ctx) {
	tails := []string{
		`if (n > 10) { return n; }`,
		`if (n > 10) { return n; } else { m = m + 1; }`,
		`if (n <= 10) { m = m + 1; } else { return n; }`,
		`switch (n) { case 1, 2, 3 { m = m + 1; } default { return n; } }`,
		`switch (n) { case 50, 60 { return n; } case 1 { m = m + 1; } }`,
		`if (n > 100) { return 0; } else if (n > 10) { return n; }`,
		`while (n > 10) { return n; }`,
		`foreach q in [n] { if (q > 10) { return q; } }`,
		`if (n > 10) { if (n > 20) { return n; } }`,
	}
	callers := []struct{ body, want string }{
		{`foreach n in [1, 2, 3] { pr(n); } return cnt;`, "INTEGER:3"},
		{`foreach k, n in {"a": 1, "b": 2} { pr(n); pr(n + 1); } return cnt;`, "INTEGER:4"},
		{`pr(1); pr(50); pr(2); return cnt;`, "INTEGER:3"},
		{`x = pr(50); return [x, cnt];`, "ARRAY:[50, 1]"},
		{`x = pr(1); return [x, cnt];`, "error"},
		{`return pr(2);`, "error"},
		{`i = 0; while (i < 3) { i++; pr(i); } return cnt;`, "INTEGER:3"},
		{`function outer(a) { pr(a); return a + 1; } return [outer(1), outer(2), cnt];`, "ARRAY:[2, 3, 2]"},
		{`function outer(a) { foreach e in [a, a] { pr(e); } return a + 1; } return [outer(1), outer(3), cnt];`, "ARRAY:[2, 4, 4]"},
		{`return [pr(50), pr(60), cnt];`, "ARRAY:[50, 60, 2]"},
		{`if (true) { pr(3); } r = pr(60) + 1; return [r, cnt];`, "ARRAY:[61, 2]"},
	}
	for ti, tail := range tails {
		for ci, cl := range callers {
			id := fmt.Sprintf("partial-return/%d/%d", ti, ci)
			if !c.Want(id) {
				continue
			}
			script := "function pr(n) { cnt = cnt + 1; " + tail + " } cnt = 0; m = 0; " + cl.body
			for _, noOpt := range []bool{false, true} {
				evr, err := eng.New(script, eng.Options{NoOptimize: noOpt})
				got := "prepare-error"
				if err == nil {
					got = evr.Exec(map[string]interface{}{}).Desc()
					if got == cl.want {
						// and again on the same evaluator
						got = evr.Exec(map[string]interface{}{}).Desc()
					}
				}
				c.Case(script+fmt.Sprint(noOpt), true)
				if got != cl.want {
					c.Violation(id, "function returning on some paths only", map[string]interface{}{"summary": fmt.Sprintf("%s (noopt=%v) gives %s, expected %s", script, noOpt, got, cl.want), "script": script})
				}
			}
		}
	}
}

// c06ReadYourWrite: inside a function, a name that has just been assigned reads as the
// value assigned - whichever variable the name denotes there. The callee's names clash
// with a parameter, a local or a loop variable of its *caller* and with a global at the
// same time: which of the two an assignment in the callee reaches is not asserted (the
// reference model calls that don't-care), only that the read that follows the assignment
// in the same function sees it, and that the callee's own bindings win inside the callee.
func c06ReadYourWrite(c *ev.Ctx) {
	cases := []struct{ script, want string }{
		{`v = 1; function inner() { v = 5; return v; } function outer(v) { return inner(); } return outer(2);`, "INTEGER:5"},
		{`v = 1; function inner() { v = 5; v = v + 1; return v; } function outer(v) { x = inner(); return x; } return outer(2);`, "INTEGER:6"},
		{`total = 100; function step() { total = 7; total = total + 1; return total; } function count(total) { return step(); } return count(5);`, "INTEGER:8"},
		{`e = "g"; function inner() { e = 9; return e; } r = 0; foreach e in [1, 2] { r = inner(); } return r;`, "INTEGER:9"},
		{`i = "g"; function inner() { i = "w"; return i + i; } r = ""; foreach i, e in ["a"] { r = inner(); } return r;`, "STRING:ww"},
		{`n = 1; function inner() { n = 3; n++; n += 2; n *= 2; return n; } function outer() { local n; n = 50; return inner(); } return outer();`, "INTEGER:12"},
		{`n = 1; function inner() { n = 3; return n; } function mid(n) { return inner(); } function outer(n) { return mid(n + 1); } return outer(10);`, "INTEGER:3"},
		{`v = 1; function inner(v) { v = v + 1; return v; } function outer(v) { return inner(10) + v; } return outer(2);`, "INTEGER:13"},
		{`v = 1; function inner() { local v; v = 8; return v; } function outer(v) { return inner() + v; } return outer(2);`, "INTEGER:10"},
		{`Name = "var"; function inner() { Name = "set"; return Name; } function outer(Name) { return inner(); } return outer("param");`, "STRING:set"},
		{`k = 0; function inner() { k = "x"; h = {"k": k}; return h["k"] + k; } function outer(k) { return inner(); } return outer(1);`, "STRING:xx"},
		{`v = 1; function inner() { foreach v in [4] { v = v + 1; w = v; } return w; } function outer(v) { return inner(); } return outer(2);`, "INTEGER:5"},
	}
	for ci, tc := range cases {
		for _, noOpt := range []bool{false, true} {
			id := fmt.Sprintf("read-your-write/%d/%v", ci, noOpt)
			if !c.Want(id) {
				continue
			}
			evr, err := eng.New(tc.script, eng.Options{NoOptimize: noOpt})
			c.Case(id, true)
			if err != nil {
				c.Violation(id, "prepare", map[string]interface{}{"summary": "Prepare failed: " + err.Error(), "script": tc.script})
				continue
			}
			for run := 1; run <= 2; run++ {
				o := evr.Exec(map[string]interface{}{"Name": "field"})
				if o.Desc() != tc.want {
					c.Violation(id, "a name read right after its assignment", map[string]interface{}{
						"summary": fmt.Sprintf("%s (noopt=%v, run %d) gives %s %s, expected %s: inside one function a name reads as what was just assigned to it", tc.script, noOpt, run, o.Desc(), errText(o.Err), tc.want), "script": tc.script})
					break
				}
				if d := evr.ScopeDepth(); d != 0 {
					c.Violation(id, "scopes left open", map[string]interface{}{"summary": fmt.Sprintf("%s: %d scope(s) open after the run", tc.script, d), "script": tc.script})
					break
				}
			}
		}
	}
}

// c06RecursionThroughLoops: functions may be called recursively - also when every level
// makes its call from inside one or two foreach loops, a while loop or a switch. The depth
// a script can reach is the same as for a plain recursion (the engine allows 10000 calls).
func c06RecursionThroughLoops(c *ev.Ctx) {
	shapes := []struct{ name, body string }{
		{"plain", `if (n <= 0) { return 0; } return 1 + down(n - 1);`},
		{"inside one foreach", `if (n <= 0) { return 0; } local r; foreach i in [1] { r = 1 + down(n - 1); } return r;`},
		{"inside two foreach loops", `if (n <= 0) { return 0; } local r; foreach i in [1] { foreach j, e in "x" { r = 1 + down(n - 1); } } return r;`},
		{"returning from inside a foreach", `if (n <= 0) { return 0; } foreach i in 1..3 { return 1 + down(n - 1); } return -1;`},
		{"inside a while and a switch", `if (n <= 0) { return 0; } local r; local k; k = 1; while (k > 0) { k--; switch (n % 2) { case 0, 1 { r = 1 + down(n - 1); } } } return r;`},
	}
	for si, sh := range shapes {
		for _, depth := range []int{3000, 6000, 9000} {
			id := fmt.Sprintf("recursion-through-loops/%d/%d", si, depth)
			if !c.Want(id) {
				continue
			}
			script := "function down(n) { " + sh.body + " } return down(Depth);"
			evr, err := eng.New(script, eng.Options{NoOptimize: (si+depth/3000)%2 == 0, Budget: 50000000})
			c.Case(id, true)
			if err != nil {
				c.Violation(id, "prepare", map[string]interface{}{"summary": "Prepare failed: " + err.Error(), "script": script})
				continue
			}
			for run := 1; run <= 2; run++ {
				o := evr.Exec(map[string]interface{}{"Depth": depth})
				if want := fmt.Sprintf("INTEGER:%d", depth); o.Desc() != want || evr.ScopeDepth() != 0 {
					c.Violation(id, "recursion "+sh.name, map[string]interface{}{
						"summary": fmt.Sprintf("%s with Depth=%d (run %d) gives %s %s, open scopes %d; expected %s: a recursion of that depth is allowed, wherever the call is made from", script, depth, run, o.Desc(), errText(o.Err), evr.ScopeDepth(), want), "script": script})
					break
				}
			}
		}
	}
}
