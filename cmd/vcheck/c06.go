package main

import (
	"fmt"

	"verif/internal/eng"
	"verif/internal/ev"
	"verif/internal/gast"
	"verif/internal/gen"
	"verif/internal/model"
)

func init() { register("C06", "exploration", c06) }

func c06(c *ev.Ctx) {
	c.SetRule("random programs with 1-4 user-defined functions: parameters / locals / loop variables drawn from a tiny pool {a,b,x,n} that clashes with global names, nested and (argument-decreasing) recursive calls, returns at every depth inside foreach/while/switch, values read after the inner call returns, calls before definition; each program run under all truth assignments of its condition fields; compared with a lexical-frame reference model on result, host-call trace and variables left; after every run the number of open scopes (hook) must be what it was before the run. Distinct = distinct (program, assignment); non-trivial = at least one user-function call executed in the model and outcome defined.")
	c.Assume("reference model: a call binds parameters/locals/loop variables in its own frame, everything else is global; programs that touch a live caller's local (dynamic scoping) are don't-care")
	n := c.Pick(1200, 100000)
	c.ParFor(n, func(i int) {
		id := fmt.Sprintf("prog/%d", i)
		if !c.Want(id) {
			return
		}
		r := c.Rng("prog", i)
		env := gen.NewEnv(r)
		k := 1 + r.Intn(3)
		pg := &gen.ProgGen{R: r, E: &gen.ExprGen{R: r, Env: env}, CondFields: k, MaxDepth: 2 + r.Intn(2), MaxStmts: 4, Funcs: 1 + r.Intn(4), Mutators: r.Intn(2) == 0}
		p := pg.Program()
		script := gast.Text(p)
		noOpt := r.Intn(2) == 0
		if gast.ProgramHasSqrtOfIntConst(p) {
			noOpt = true
		}
		for mask := 0; mask < 1<<k; mask++ {
			obj := condObject(env.Fields, k, mask, r)
			objs := []map[string]model.Value{obj}
			judged := checkProgramAgainstModel(c, id, "program with functions", p, env.Vars, objs, noOpt)
			mv := modelRuns(p, env.Vars, objs)
			calls := 0
			for _, t := range mv[0].Trace {
				_ = t
				calls++
			}
			c.Case(fmt.Sprintf("%s|%d|%v", script, mask, noOpt), judged > 0 && calls > 0)
		}
		// scope balance (hook): one evaluator, all assignments in sequence
		evr, err := eng.New(script, eng.Options{NoOptimize: noOpt, Vars: env.Vars})
		if err == nil {
			for mask := 0; mask < 1<<k; mask++ {
				obj, _ := eng.FieldsToMap(condObject(env.Fields, k, mask, r))
				before := evr.ScopeDepth()
				o := evr.Exec(obj)
				if o.Budget {
					break
				}
				if after := evr.ScopeDepth(); after != before {
					c.Violation(id, "open scopes after a run", map[string]interface{}{
						"summary": fmt.Sprintf("open scopes before run %d: %d, after: %d (result %s)\n  script: %s\n  object: %v", mask, before, after, o.Desc(), script, obj),
						"script":  script, "object": fmt.Sprint(obj)})
					break
				}
				c.Count("scope_balance_checks", 1)
			}
		}
		c.SampleEvery(i, func() interface{} { return map[string]interface{}{"script": script} })
	})
	c06Fixed(c)
}

// fixed regression programs (each was a defect once, or states a clause of the
// property directly)
func c06Fixed(c *ev.Ctx) {
	cases := []struct{ name, script, want string }{
		{"recursion-keeps-parameters", `function fact(n){ if(n<=1){return 1;} return fact(n-1)*n; } return fact(5);`, "INTEGER:120"},
		{"param-shadows-global", `a = 1; function f(a){ a = a + 10; return a; } r = f(5); return [a, r];`, "ARRAY:[1, 15]"},
		{"local-shadows-global", `x = 1; function f(){ local x; x = 2; return x; } r = f(); return [x, r];`, "ARRAY:[1, 2]"},
		{"nonlocal-assignment-is-global", `function f(){ z = 9; } f(); return z;`, "INTEGER:9"},
		{"call-before-definition", `return g(2); function g(a){ return a * 2; }`, "INTEGER:4"},
		{"wrong-arity-is-error", `function f(a){ return a; } return f(1, 2);`, "error"},
		{"unknown-function-is-error", `return nosuch(1);`, "error"},
		{"builtin-wins", `function len(x){ return 99; } return len("ab");`, "INTEGER:2"},
		{"foreach-var-restored", `function f(x){ foreach x in [7,8] { y = x; } return x; } return f(1);`, "INTEGER:1"},
		{"return-inside-foreach-in-function", `function f(){ foreach e in [1,2,3] { if (e == 2) { return e; } } return 0; } a = f(); b = f(); return [a, b, e];`, "ARRAY:[2, 2, null]"},
		{"nested-same-name-loop-vars", `r = ""; foreach x in "ab" { foreach x in "cd" { r = r + x; } r = r + x; } return r;`, "STRING:cdacdb"},
		{"return-from-two-nested-loops-in-function", `function f(a){ foreach x in [1,2] { foreach y in [3,4] { if (y == 4) { return a + x; } } } return 0; } a = 100; x = "gx"; r = f(1); return [a, x, r, y];`, "ARRAY:[100, gx, 2, null]"},
		{"return-from-three-nested-loops-in-function", `function f(a){ foreach x in "ab" { foreach y in 1..2 { foreach z in {"k": 1} { return z + a; } } } return 0; } a = 5; r = f(10); s = f(20); return [a, r, s];`, "ARRAY:[5, 11, 21]"},
		{"error-inside-two-nested-loops-in-function", `function f(a){ foreach x in [1] { foreach y in [2] { if (Bad) { return 1 / Zero; } } } return a; } a = 7; r = f(8); return [a, r];`, "ARRAY:[7, 8]"},
		{"assignment-to-global-after-nested-return", `function f(a){ foreach x in [1,2] { foreach y in [3,4] { return 1; } } return 0; } a = 1; f(5); a = 2; return a;`, "INTEGER:2"},
		{"mutual-params", `function f(a){ return g(a+1) + a; } function g(a){ return a * 10; } return f(1);`, "INTEGER:21"},
	}
	for _, tc := range cases {
		id := "fixed:" + tc.name
		if !c.Want(id) {
			continue
		}
		for _, noOpt := range []bool{false, true} {
			evr, err := eng.New(tc.script, eng.Options{NoOptimize: noOpt})
			got := "prepare-error"
			if err == nil {
				got = evr.Exec(map[string]interface{}{}).Desc()
			}
			c.Case(id+fmt.Sprint(noOpt), true)
			if got != tc.want {
				c.Violation(id, id, map[string]interface{}{"summary": fmt.Sprintf("%s (noopt=%v) gives %s, expected %s", tc.script, noOpt, got, tc.want), "script": tc.script})
			}
			if err == nil && evr.ScopeDepth() != 0 {
				c.Violation(id, id+"/scopes", map[string]interface{}{"summary": fmt.Sprintf("%s leaves %d scope(s) open", tc.script, evr.ScopeDepth()), "script": tc.script})
			}
		}
	}
}
