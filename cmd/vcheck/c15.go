package main

import (
	"fmt"
	"github.com/skx/evalfilter/v2/object"
	"math/rand"
	"reflect"

	"verif/internal/eng"
	"verif/internal/ev"
	"verif/internal/gast"
	"verif/internal/gen"
	"verif/internal/model"
)

func init() { register("C15", "exploration", c15) }

func c15Lit(r *rand.Rand) gast.Expr {
	switch r.Intn(10) {
	case 0, 1, 2:
		return gast.IntLit{V: []int64{0, 1, 7, 65533, 65534}[r.Intn(5)]}
	case 3, 4, 5:
		return gast.IntLit{V: []int64{65535, 65536, 70000, 1 << 40}[r.Intn(4)]}
	case 6, 7:
		// some floats print like one of the large integers above
		return []gast.Expr{gast.FloatLit{V: 0.5}, gast.FloatLit{V: 1.5}, gast.FloatLit{V: 2}, gast.FloatLit{V: 100.25}, gast.FloatLit{V: 70000, Spelling: "70000.0"}, gast.FloatLit{V: 65536, Spelling: "65536.0"}}[r.Intn(6)]
	case 8:
		return gast.StrLit{V: []string{"s", "", "héllo", "70000", "65536", "1.5"}[r.Intn(6)]}
	}
	return gast.BoolLit{V: r.Intn(2) == 0}
}

// c15Num draws a numeric literal on either side of the inline limit, or a float.
func c15Num(r *rand.Rand) gast.Expr {
	switch r.Intn(3) {
	case 0:
		return gast.IntLit{V: []int64{1, 2, 7, 65534}[r.Intn(4)]}
	case 1:
		return gast.IntLit{V: []int64{65535, 70000, 1 << 40}[r.Intn(3)]}
	}
	return gast.FloatLit{V: []float64{0.5, 2.5, 100.25}[r.Intn(3)]}
}

// c15Program builds a data-flow program: copies between variables,
// parameters, array elements and fields, then a mutator on one copy.
func c15Program(r *rand.Rand) gast.Program {
	vars := []string{"v0", "v1", "v2", "v3"}
	id := func(n string) gast.Expr { return gast.Ident{Name: n} }
	pickV := func() string { return vars[r.Intn(len(vars))] }
	var body []gast.Stmt
	// initialise
	for _, v := range vars {
		body = append(body, gast.Assign{Name: v, X: c15Lit(r)})
	}
	body = append(body, gast.Assign{Name: "g0", X: gast.IntLit{V: []int64{0, 2, 7, 65534}[r.Intn(4)]}}, gast.Assign{Name: "g1", X: []gast.Expr{gast.IntLit{V: 5}, gast.IntLit{V: 70000}, gast.FloatLit{V: 1.5}, gast.StrLit{V: "s"}}[r.Intn(4)]})
	body = append(body, gast.Assign{Name: "arr", X: gast.ArrayLit{Els: []gast.Expr{id("v0"), c15Lit(r)}}})
	body = append(body, gast.Assign{Name: "hsh", X: gast.HashLit{Keys: []gast.Expr{gast.StrLit{V: "p"}}, Vals: []gast.Expr{id("v1")}}})
	mut := func(name string) gast.Stmt {
		switch r.Intn(6) {
		case 0:
			return gast.IncDec{Name: name, Op: "++"}
		case 1:
			return gast.IncDec{Name: name, Op: "--"}
		default:
			big := gast.IntLit{V: []int64{70000, 65535, 65536, 100000}[r.Intn(4)]}
			return gast.OpAssign{Name: name, Op: []string{"+", "-", "*", "/"}[r.Intn(4)], X: []gast.Expr{gast.IntLit{V: 1}, gast.IntLit{V: 2}, gast.FloatLit{V: 0.5}, id(pickV()),
				gast.Infix{Op: "+", L: big, R: big}, gast.Infix{Op: "*", L: big, R: gast.IntLit{V: 2}}, gast.Infix{Op: "-", L: gast.Infix{Op: "+", L: big, R: big}, R: gast.IntLit{V: 1}}, gast.Infix{Op: "+", L: gast.IntLit{V: 1}, R: big}}[r.Intn(8)]}
		}
	}
	steps := 3 + r.Intn(8)
	var gen func(depth int) []gast.Stmt
	gen = func(depth int) []gast.Stmt {
		var out []gast.Stmt
		switch r.Intn(17) {
		case 15:
			// a global the main program only initialises and reads: every change to it happens
			// inside a function
			out = append(out, gast.Assign{Name: pickV(), X: gast.Call{Fn: "touchG", Args: []gast.Expr{gast.IntLit{V: int64(r.Intn(3))}}}}, gast.Assign{Name: "arr", X: gast.ArrayLit{Els: []gast.Expr{id("g0"), id("g1")}}})
		case 14:
			// negative literals (and positive ones) in places the compiler emits more than once:
			// the block of a case that lists several values, the subject of a switch with
			// several cases - each copy denotes the value that is written
			neg := func() gast.Expr { return gast.Prefix{Op: "-", X: c15Num(r)} }
			a, b := pickV(), pickV()
			arm := []gast.Stmt{gast.Assign{Name: a, X: neg()}, mut(a), gast.OpAssign{Name: b, Op: []string{"+", "-", "*"}[r.Intn(3)], X: neg()}, gast.Assign{Name: "arr", X: gast.ArrayLit{Els: []gast.Expr{neg(), c15Lit(r), id(a)}}}}
			hit := int64(1 + r.Intn(4))
			out = append(out, gast.Assign{Name: "sel", X: gast.IntLit{V: hit}}, gast.Switch{X: []gast.Expr{id("sel"), gast.Infix{Op: "-", L: gast.Infix{Op: "+", L: id("sel"), R: neg()}, R: neg()}}[r.Intn(2)], Cases: []gast.Case{
				{Exprs: []gast.Expr{gast.IntLit{V: 1}, gast.IntLit{V: 2}, gast.IntLit{V: 3}}, Body: arm},
				{Exprs: []gast.Expr{gast.IntLit{V: 4}, gast.IntLit{V: 5}}, Body: []gast.Stmt{gast.Assign{Name: b, X: neg()}, mut(b)}},
				{Default: true, Body: []gast.Stmt{gast.Assign{Name: a, X: neg()}}}}})
		case 0, 1:
			out = append(out, gast.Assign{Name: pickV(), X: id(pickV())})
		case 2:
			out = append(out, gast.Assign{Name: pickV(), X: c15Lit(r)})
		case 3:
			out = append(out, gast.Assign{Name: pickV(), X: gast.Index{X: id("arr"), I: gast.IntLit{V: int64(r.Intn(2))}}})
		case 4:
			out = append(out, gast.Assign{Name: "arr", X: gast.ArrayLit{Els: []gast.Expr{id(pickV()), id(pickV())}}})
		case 5:
			out = append(out, gast.Assign{Name: pickV(), X: id([]string{"FI", "FF", "FS", "FB", "FBig"}[r.Intn(5)])})
		case 6:
			out = append(out, gast.Assign{Name: pickV(), X: gast.Call{Fn: "bump", Args: []gast.Expr{id(pickV())}}})
		case 7:
			out = append(out, gast.ExprStmt{X: gast.Call{Fn: "quiet", Args: []gast.Expr{id(pickV())}}})
		case 8:
			if depth > 0 {
				out = append(out, gast.Foreach{Var: "e", It: gast.Infix{Op: "..", L: gast.IntLit{V: 1}, R: gast.IntLit{V: int64(1 + r.Intn(3))}}, Body: gen(depth - 1)})
			} else {
				out = append(out, mut(pickV()))
			}
		case 10:
			// keep the index / element of an early iteration and look at it after the loop
			keep := pickV()
			out = append(out, gast.Foreach{Idx: "ix", Var: "e", It: gast.ArrayLit{Els: []gast.Expr{c15Lit(r), c15Lit(r), c15Lit(r)}}, Body: []gast.Stmt{
				gast.If{C: gast.Infix{Op: "==", L: id("ix"), R: gast.IntLit{V: int64(r.Intn(2))}}, Then: []gast.Stmt{gast.Assign{Name: keep, X: id([]string{"ix", "e"}[r.Intn(2)])}, gast.Assign{Name: "arr", X: gast.ArrayLit{Els: []gast.Expr{id("ix"), id("e")}}}}},
			}})
			out = append(out, mut(keep))
		case 13:
			// a callee's parameter is called like a global: after the call the name means
			// the global again - in the next loop, in the next call
			out = append(out, gast.Assign{Name: "got", X: gast.Call{Fn: "shadow", Args: []gast.Expr{id("v0")}}},
				gast.Foreach{Var: "e", It: gast.ArrayLit{Els: []gast.Expr{gast.IntLit{V: 1}}}, Body: []gast.Stmt{gast.Assign{Name: "v3", X: id("v0")}, mut("v0")}},
				gast.Assign{Name: "arr", X: gast.ArrayLit{Els: []gast.Expr{id("got"), id("v0"), gast.Call{Fn: "peek", Args: nil}}}})
		case 11:
			// the same name bound in two open scopes (a parameter of the caller, a loop
			// variable around the call) while the callee mutates its own parameter
			if r.Intn(2) == 0 {
				out = append(out, gast.Assign{Name: pickV(), X: gast.Call{Fn: "relay", Args: []gast.Expr{id(pickV())}}})
			} else {
				out = append(out, gast.Foreach{Var: "p", It: gast.ArrayLit{Els: []gast.Expr{id(pickV()), c15Lit(r)}}, Body: []gast.Stmt{
					gast.Assign{Name: "got", X: gast.Call{Fn: "bump", Args: []gast.Expr{id("p")}}}, gast.ExprStmt{X: gast.Call{Fn: "quiet", Args: []gast.Expr{id("p")}}},
					gast.Assign{Name: "arr", X: gast.ArrayLit{Els: []gast.Expr{id("p"), id("got")}}}}})
			}
		case 12:
			// a hash built from variables (as values, and read back through its keys) is a
			// snapshot too; so is an operand that is already on the stack when a function
			// called further right in the same expression changes the variable
			switch r.Intn(3) {
			case 0:
				a, b := pickV(), pickV()
				out = append(out, gast.Assign{Name: "hsh", X: gast.HashLit{Keys: []gast.Expr{gast.StrLit{V: "p"}, gast.StrLit{V: "q"}}, Vals: []gast.Expr{id(a), id(b)}}}, mut(a), mut(b))
			case 1:
				a := pickV()
				out = append(out, gast.Assign{Name: "hsh", X: gast.HashLit{Keys: []gast.Expr{gast.StrLit{V: "p"}}, Vals: []gast.Expr{gast.ArrayLit{Els: []gast.Expr{id(a), c15Lit(r)}}}}}, mut(a))
			default:
				out = append(out, gast.Assign{Name: "v3", X: gast.IntLit{V: int64(10 + r.Intn(70000))}}, gast.Assign{Name: "arr", X: gast.ArrayLit{Els: []gast.Expr{id("v3"), gast.Infix{Op: "+", L: id("v3"), R: gast.Call{Fn: "bumpV3", Args: nil}}, id("v3")}}})
			}
		case 9:
			// the field itself as target of a mutator (creates a variable of that name)
			out = append(out, mut([]string{"FI", "FF"}[r.Intn(2)]))
		default:
			out = append(out, mut(pickV()))
		}
		return out
	}
	for i := 0; i < steps; i++ {
		body = append(body, gen(1)...)
	}
	// literal evaluated again
	lit := c15Lit(r)
	body = append(body, gast.Assign{Name: "again1", X: lit}, gast.IncDec{Name: "again1", Op: "++"}, gast.Assign{Name: "again2", X: lit})
	body = append(body, gast.Return{X: gast.ArrayLit{Els: []gast.Expr{id("v0"), id("v1"), id("v2"), id("v3"), id("arr"), id("hsh"), id("again1"), id("again2"), id("g0"), id("g1"), gast.Call{Fn: "touchG", Args: []gast.Expr{gast.IntLit{V: 1}}}, id("g0"), id("FI"), id("FF"), id("FS"), id("FB"), id("FBig")}}})
	// functions working on local copies of a parameter, a global, a literal and an array element
	viaLocal := gast.FuncDef{Name: "viaLocal", Params: []string{"p"}, Body: []gast.Stmt{
		gast.Local{Name: "c"}, gast.Assign{Name: "c", X: id("p")}, mut("c"),
		gast.Local{Name: "l"}, gast.Assign{Name: "l", X: c15Lit(r)}, mut("l"),
		gast.Local{Name: "g"}, gast.Assign{Name: "g", X: id(pickV())}, mut("g"),
		gast.Local{Name: "e"}, gast.Assign{Name: "e", X: gast.Index{X: id("arr"), I: gast.IntLit{V: 0}}}, mut("e"),
		gast.Return{X: gast.ArrayLit{Els: []gast.Expr{id("c"), id("p"), id("l"), id("g"), id("e")}}}}}
	for k := 0; k < 1+r.Intn(3); k++ {
		body = append(body[:len(body)-1], gast.Assign{Name: fmt.Sprintf("vl%d", k), X: gast.Call{Fn: "viaLocal", Args: []gast.Expr{id(pickV())}}}, body[len(body)-1])
	}
	bump := gast.FuncDef{Name: "bump", Params: []string{"p"}, Body: []gast.Stmt{mut("p"), gast.Return{X: id("p")}}}
	quiet := gast.FuncDef{Name: "quiet", Params: []string{"p"}, Body: []gast.Stmt{mut("p"), mut("p")}}
	// relay has a parameter of the same name as the functions it calls
	relay := gast.FuncDef{Name: "relay", Params: []string{"p"}, Body: []gast.Stmt{
		gast.Local{Name: "m"}, gast.Assign{Name: "m", X: gast.Call{Fn: "bump", Args: []gast.Expr{id("p")}}},
		gast.ExprStmt{X: gast.Call{Fn: "quiet", Args: []gast.Expr{id("p")}}},
		gast.Return{X: gast.ArrayLit{Els: []gast.Expr{id("p"), id("m")}}}}}
	bumpV3 := gast.FuncDef{Name: "bumpV3", Body: []gast.Stmt{gast.IncDec{Name: "v3", Op: "++"}, gast.OpAssign{Name: "v3", Op: "+", X: gast.IntLit{V: 2}}, gast.Return{X: gast.IntLit{V: 1}}}}
	shadow := gast.FuncDef{Name: "shadow", Params: []string{"v0"}, Body: []gast.Stmt{mut("v0"), gast.Return{X: id("v0")}}}
	peek := gast.FuncDef{Name: "peek", Body: []gast.Stmt{gast.Return{X: gast.ArrayLit{Els: []gast.Expr{id("v0"), id("v1")}}}}}
	touchG := gast.FuncDef{Name: "touchG", Params: []string{"p"}, Body: []gast.Stmt{gast.IncDec{Name: "g0", Op: "++"}, gast.OpAssign{Name: "g0", Op: "+", X: id("p")}, gast.If{C: gast.Infix{Op: ">", L: id("p"), R: gast.IntLit{V: 1}}, Then: []gast.Stmt{gast.Assign{Name: "g1", X: id("p")}}}, gast.Return{X: id("g0")}}}
	return gast.Program{Stmts: append([]gast.Stmt{bump, quiet, viaLocal, relay, bumpV3, shadow, peek, touchG}, body...)}
}

func c15(c *ev.Ctx) {
	c.SetRule("data-flow programs: copy chains between variables, parameters, array elements and object fields, then ++ -- += -= *= /= on one copy, integer literals on both sides of the inline limit and float/string/bool literals, inside loops, run 3 times on one evaluator; every variable, the array, the literal evaluated again and the fields are returned and compared with a value-semantics reference model; the host object (Go map) is deep-compared with a pre-run copy. Distinct = distinct program; non-trivial = at least one mutator executed without error in the model.")
	n := c.Pick(2500, 100000)
	c.ParFor(n, func(i int) {
		id := fmt.Sprintf("flow/%d", i)
		if !c.Want(id) {
			return
		}
		r := c.Rng("flow", i)
		p := c15Program(r)
		script := gast.Text(p)
		fields := map[string]model.Value{"FI": model.Int(int64(r.Intn(5))), "FF": model.Float(2.5), "FS": model.Str("f"), "FB": model.Bool(true), "FBig": model.Int(70000)}
		objs := []map[string]model.Value{fields, fields, fields}
		judged := checkProgramAgainstModel(c, id, "value semantics", p, nil, objs, r.Intn(2) == 0)
		c.Case(script, judged > 0)
		// host object untouched
		obj, _ := eng.FieldsToMap(fields)
		cp, _ := eng.FieldsToMap(fields)
		if evr, err := eng.New(script, eng.Options{}); err == nil {
			evr.Exec(obj)
			evr.Exec(obj)
			if !reflect.DeepEqual(obj, cp) {
				c.Violation(id, "host object modified", map[string]interface{}{"summary": fmt.Sprintf("host object changed by the script: %v -> %v\n  %s", cp, obj, script), "script": script})
			}
			c.Count("host_object_deep_compares", 1)
		}
		c.SampleEvery(i, func() interface{} { return map[string]string{"script": script} })
	})
	// the literals of a prepared script denote the same values after a second Prepare that
	// was refused (by the compiler or by the size limits) as before it (stream shared with C20)
	c20RePrepare(c)
	// objects the host handed over with SetVariable stay as the host made them, whatever the
	// script does to the variables
	for vi, script := range []string{
		`hostI++; hostI += 2; hostF--; hostF *= 3; c1 = hostI; c1++; return [hostI, hostF, c1];`,
		`foreach e in hostA { e++; e += 1; } x = hostA[0]; x++; h = {"k": hostI}; hostI++; return [hostA, x, h];`,
		`function f(p) { p++; p *= 2; return p; } r = f(hostI) + f(hostF); hostI--; return [r, hostI, hostA];`,
	} {
		id := fmt.Sprintf("host-variable-objects/%d", vi)
		if !c.Want(id) {
			continue
		}
		for _, noOpt := range []bool{false, true} {
			hi, hf := &object.Integer{Value: 5}, &object.Float{Value: 2.5}
			ha := &object.Array{Elements: []object.Object{&object.Integer{Value: 70000}, &object.Float{Value: 1.5}, &object.Integer{Value: 3}}}
			evr, err := eng.New(script, eng.Options{NoOptimize: noOpt, ObjVars: map[string]object.Object{"hostI": hi, "hostF": hf, "hostA": ha}})
			c.Case(id+fmt.Sprint(noOpt), true)
			if err != nil {
				continue
			}
			for run := 0; run < 3; run++ {
				evr.Exec(nil)
			}
			if got := fmt.Sprintf("%v %v %s", hi.Value, hf.Value, eng.Describe(ha)); got != "5 2.5 ARRAY:[70000, 1.5, 3]" {
				c.Violation(id, "the host's own objects changed", map[string]interface{}{"summary": fmt.Sprintf("%s (noopt=%v): the objects the host passed to SetVariable (5, 2.5, [70000, 1.5, 3]) now read %s", script, noOpt, got), "script": script})
			}
		}
	}
	// the host gives a variable a new value between runs (SetVariable): only that variable
	// changes - not a variable that was assigned from it, not the literal it was assigned from
	for vi, tc := range []struct {
		script string
		sets   []object.Object
		wants  []string
	}{
		{`if (n > 70000) { n = 70000; } seen = n; return [n, seen, 70000];`,
			[]object.Object{&object.Integer{Value: 80000}, &object.Integer{Value: 5}, &object.Integer{Value: 90000}, &object.Integer{Value: 70000}},
			[]string{"ARRAY:[70000, 70000, 70000]", "ARRAY:[5, 5, 70000]", "ARRAY:[70000, 70000, 70000]", "ARRAY:[70000, 70000, 70000]"}},
		{`if (first) { first = false; keep = n; lit = 1.5; n = lit; } return [n, keep, lit, 1.5];`,
			[]object.Object{&object.Float{Value: 9.5}, &object.Float{Value: 2.5}, &object.Float{Value: 3.5}},
			[]string{"ARRAY:[1.5, 9.5, 1.5, 1.5]", "ARRAY:[2.5, 9.5, 1.5, 1.5]", "ARRAY:[3.5, 9.5, 1.5, 1.5]"}},
		{`arr = [n, n]; h = {"k": n}; copy = n; return [arr, h, copy];`,
			[]object.Object{&object.Integer{Value: 100000}, &object.Integer{Value: 7}},
			[]string{"ARRAY:[[100000, 100000], {k: 100000}, 100000]", "ARRAY:[[7, 7], {k: 7}, 7]"}},
	} {
		id := fmt.Sprintf("host-updates-between-runs/%d", vi)
		if !c.Want(id) {
			continue
		}
		for _, noOpt := range []bool{false, true} {
			evr, err := eng.New(tc.script, eng.Options{NoOptimize: noOpt, ObjVars: map[string]object.Object{"first": &object.Boolean{Value: true}}})
			c.Case(id+fmt.Sprint(noOpt), true)
			if err != nil {
				continue
			}
			var keptArr, keptCopy string
			for step, v := range tc.sets {
				evr.E.SetVariable("n", v)
				got := evr.Exec(nil).Desc()
				if got != tc.wants[step] {
					c.Violation(id, "a value set by the host changes other variables or a literal", map[string]interface{}{"summary": fmt.Sprintf("%s (noopt=%v): after SetVariable(n, %s) at step %d the script returns %s, expected %s", tc.script, noOpt, v.Inspect(), step+1, got, tc.wants[step]), "script": tc.script})
					break
				}
				if vi == 2 {
					// what the previous run left in arr / copy must not follow the new n
					if step > 0 && (keptArr != "ARRAY:[100000, 100000]" || keptCopy != "INTEGER:100000") {
						c.Violation(id, "variables left by an earlier run follow a later SetVariable", map[string]interface{}{"summary": fmt.Sprintf("%s: arr / copy of the first run read %s / %s after SetVariable(n, 7)", tc.script, keptArr, keptCopy), "script": tc.script})
					}
					evr.E.SetVariable("n", &object.Integer{Value: 7})
					keptArr, keptCopy = evr.Var("arr"), evr.Var("copy")
				}
			}
		}
	}
	// fixed clause-by-clause regressions
	fixed := []struct{ name, script, want string }{
		{"alias-after-increment", `a = 1; b = a; a++; return [a, b];`, "ARRAY:[2, 1]"},
		{"alias-after-decrement-float", `a = 1.5; b = a; a--; return [a, b];`, "ARRAY:[0.5, 1.5]"},
		{"literal-above-inline-limit", `x = 70000; x++; y = 70000; return [x, y];`, "ARRAY:[70001, 70000]"},
		{"literal-in-loop", `s = 0; foreach i in 1..3 { x = 65536; x++; s = s + x; } return s;`, "INTEGER:196611"},
		{"array-element-source", `a = 5; arr = [a]; a++; b = arr[0]; b++; return [a, arr, b];`, "ARRAY:[6, [5], 6]"},
		{"argument-source", `function f(p){ p++; return p; } a = 1; r = f(a); return [a, r];`, "ARRAY:[1, 2]"},
		{"compound-assign-alias", `a = 2; b = a; a *= 5; return [a, b];`, "ARRAY:[10, 2]"},
		{"field-not-modified", `c = Count; c++; d = Count; d *= 3; return [c, d, Count];`, "ARRAY:[8, 21, 7]"},
		{"element-of-array-field", `x = Nums[0]; x++; return [x, Nums];`, "ARRAY:[2, [1, 2]]"},
	}
	for _, tc := range fixed {
		id := "fixed:" + tc.name
		if !c.Want(id) {
			continue
		}
		for _, noOpt := range []bool{false, true} {
			evr, err := eng.New(tc.script, eng.Options{NoOptimize: noOpt})
			if err != nil {
				c.Violation(id, id, map[string]interface{}{"summary": "prepare failed: " + err.Error(), "script": tc.script})
				continue
			}
			for run := 0; run < 3; run++ {
				obj := map[string]interface{}{"Count": 7, "Nums": []interface{}{1, 2}}
				got := evr.Exec(obj).Desc()
				c.Case(fmt.Sprint(id, noOpt, run), true)
				if got != tc.want || !reflect.DeepEqual(obj, map[string]interface{}{"Count": 7, "Nums": []interface{}{1, 2}}) {
					c.Violation(id, id, map[string]interface{}{"summary": fmt.Sprintf("%s (noopt=%v, run %d) gives %s, expected %s; object now %v", tc.script, noOpt, run+1, got, tc.want, obj), "script": tc.script})
					break
				}
			}
		}
	}
	_ = gen.IntPool
}
