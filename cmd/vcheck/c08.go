package main

import (
	"bufio"
	"encoding/json"
	"fmt"
	"math/rand"
	"os"
	"os/exec"
	"path/filepath"
	"runtime"
	"strings"
	"sync"
	"time"

	evalfilter "github.com/skx/evalfilter/v2"
	"github.com/skx/evalfilter/v2/object"

	"verif/internal/eng"
	"verif/internal/ev"
	"verif/internal/gast"
	"verif/internal/gen"
)

func init() {
	register("C08", "exploration", c08)
	workers["c08"] = c08Worker
	workers["c08par"] = c08ParWorker
}

type c08Case struct {
	ID      string `json:"id"`
	Kind    string `json:"kind"` // text | struct | hostile
	Script  string `json:"script"`
	ObjSeed int64  `json:"obj_seed,omitempty"`
	ObjIdx  int    `json:"obj_idx,omitempty"`
	NoOpt   bool   `json:"no_opt,omitempty"`
}

func repoDir() string {
	if r := os.Getenv("VERIF_REPO"); r != "" {
		return r
	}
	return "/repo"
}

func loadCorpus() []string {
	var out []string
	files, _ := filepath.Glob(filepath.Join(repoDir(), "_examples", "scripts", "*"))
	for _, f := range files {
		if strings.HasSuffix(f, ".json") {
			continue
		}
		if b, err := os.ReadFile(f); err == nil {
			out = append(out, string(b))
		}
	}
	out = append(out,
		`a = { "Name": "Steve", "Age": 2020 - 1976, "Location": "Helsinki", }`,
		`foreach index,entry in ["foo", "bar","baz"] { printf("\t%d:%s\n", index, entry ); }`,
		`function test( name ) { switch( name ) { case "Ste" + "ve" { return 1; } case /^steve$/i { return 2; } default { return 3; } } } return test("x");`,
		"`/bin/ls`", `\n\r\t`,
		`if ( Count >= 10 && Name ~= /x/i ) { return len(Name) > 2 ? true : false; } return !false;`,
		`x = 1; x++; x += 2; x *= 3; x /= 2; x -= 1; x--; return x % 3 ** 2;`,
	)
	return out
}

// scripts run against hostile objects: they touch every field in every way
func c08ObjectScripts(fields []string) []string {
	var out []string
	for _, f := range fields {
		out = append(out, "return "+f+";", "return len("+f+") + 1;", "return type("+f+");", "foreach x in "+f+" { y = x; } return 1;",
			"return "+f+"[0];", "return "+f+".a;", "if ("+f+") { return 1; } return !"+f+";", "return string("+f+") + \"\";",
			"return "+f+" == "+f+";", f+"++; return "+f+";", "return "+f+" in ["+f+"];", "return sort("+f+");", "return keys("+f+");", "return hour("+f+");")
	}
	out = append(out, "return 1;", "return Absent;", "x = F0; y = F1; return [x, y, F2];")
	return out
}

var c08FaultScripts = []string{
	`return 1 / 0;`, `return 1 % 0;`, `return 1.5 % 0.2;`, `return 5 / Z;`, `return [1][9];`, `return [1]["x"];`, `return "abc"[3];`, `return "abc"[-1];`, `return {}[[1]];`, `return {[1]: 2};`,
	`return null[0];`, `return 1[0];`, `return -"x";`, `return √"x";`, `return 1 + "x";`, `return [] + [];`, `return 1 .. "x";`, `return 5 .. 1;`,
	`panic();`, `panic("boom");`, `panic(1, 2);`, `function f(a) { panic("in f"); } return f(1);`, `foreach x in [1,2] { panic("loop"); }`,
	`return nosuch(1);`, `function f(a) { return a; } return f();`, `function f(a) { return a; } return f(1,2,3);`,
	`x = print();`, `x = panic;`, `return f;`, `if (x = 1) { return 1; }`, `a = b = 1;`, `a = b++;`, `return t(1) + 1;`, `x = t(1); return x;`, `return [t(1)];`, `return {"a": t(1)};`, `return len(t(1));`,
	`foreach x in 5 { } return 1;`, `foreach x in null { } return 1;`, `foreach x in /re/ { } return 1;`, `foreach x, y in true { }`, `foreach x in [1,2] { len(x); } return 1;`,
	`return sprintf("%d %s %v %q %x %f %t %c %U %e %08.3f %-5d %+d %#v %T %%", 1);`, `return sprintf("%!", 1);`, `return sprintf("%*d", 1, 2);`, `return sprintf("%[3]d", 1);`, `return sprintf("%d", "x", [1], {}, null);`, `printf("%s");`, `printf();`, `print();`,
	`return match("a", "(");`, `return replace("a", "(", "b");`, `return "a" ~= /(/;`, `return replace("abc", /b/, "$9${x}$");`, `return split("", "");`, `return join([[1],[2]], ",");`, `return join([1], 2);`,
	`return sort([3, "a", 1.5, true, null, [1], {}]);`, `return reverse([null, null]);`, `return sort([], 1);`, `return min([1], {});`, `return max(null, null);`, `return between("a", 1, 2);`, `return between(1, 2);`,
	`return hour("x");`, `return weekday(99999999999999999);`, `return year(-99999999999999999);`, `return day(1.5);`, `return int("99999999999999999999");`, `return float("1e999");`, `return float("nan") + 1;`, `return string();`, `return len();`, `return len(1,2);`, `return type();`, `return keys(1);`, `return lower();`, `return getenv();`, `return getenv("HOME");`, `return now(1,2,3);`,
	`return 9223372036854775807 + 1;`, `return -9223372036854775807 - 2;`, `return 9223372036854775807 * 9223372036854775807;`, `return (-9223372036854775807 - 1) / -1;`, `return (-9223372036854775807 - 1) % -1;`, `return 2 ** 64;`, `return 2 ** -1;`, `return 0 ** -1;`, `return 10.0 ** 400;`, `return √-1;`,
	`x = 1.5; x++; x--; return x;`, `x = "s"; x++;`, `x = null; x--;`, `y++;`, `x += 1;`, `x = [1]; x += [2];`, `x = 1; x /= 0;`,
	`switch (1) { }`, `switch (1) { default { } }`, `switch ([1]) { case [1] { return 1; } }`, `switch (null) { case /x/ { return 1; } }`, `switch (1) { case 1/0 { } }`,
	`function f() { return f; } return f();`, `function f() { } return f();`, `function f() { } x = f(); return x;`, `function len() { return 1; } return len();`,
	`local x;`, `function f() { local x; local x; x = 1; return x; } return f();`, `function f(a, a) { return a; } return f(1, 2);`, `function f(f) { return f; } return f(1);`,
	`return $x;`, `$x = 1; return $x;`, `return $;`, `x = 1; return x.y.z;`, `return {"a": {"b": 1}}.a.b;`, `return [1,2,3].1;`, `return "s".len;`,
	`return 1 ? 2 : 3 ? 4 : 5;`, `return (1 ? 2 : 3) ? 4 : 5;`, `while (false) { } for (false) { } return 1;`, `if (1) { } else if (2) { } else { }`,
	`return 1..3..5;`, `return [1..3];`, `return 1 in 1..3;`, `return -1..1;`, `x = 1..0;`,
	`t();`, `v();`, `return v();`, `return v(t(1));`,
}

// c08RunCase executes one case in-process; it returns "ok ..." or "panic ...".
func c08RunCase(cs c08Case) string {
	var obj interface{} = map[string]interface{}{"Z": 0, "Name": "steve", "Count": 3}
	switch cs.Kind {
	case "struct":
		r := rand.New(rand.NewSource(cs.ObjSeed))
		obj = gen.RandStruct(r, 1+r.Intn(8), 45, 20).Obj
	case "hostile":
		obj = gen.HostileValues()[cs.ObjIdx]
	}
	budget := int64(200000)
	if os.Getenv("VERIF_C08_NOBUDGET") != "" {
		budget = 1 << 60
	}
	evr, err := eng.New(cs.Script, eng.Options{NoOptimize: cs.NoOpt, Budget: budget, TraceCap: 1 << 20})
	if err != nil {
		if strings.Contains(err.Error(), eng.ErrPanic.Error()) {
			return "panic in Prepare: " + err.Error()
		}
		// a second Prepare on the same evaluator must not panic either
		var msg string
		func() {
			defer func() {
				if r := recover(); r != nil {
					msg = fmt.Sprint("panic in second Prepare: ", r)
				}
			}()
			evr.E.Prepare()
		}()
		if msg != "" {
			return msg
		}
		// ... nor may Execute, Run or Dump on an evaluator whose script was refused: they
		// report the situation
		for _, st := range []string{"Execute", "Run", "Dump"} {
			func() {
				defer func() {
					if r := recover(); r != nil {
						msg = fmt.Sprintf("panic in %s after a refused Prepare: %v", st, r)
					}
				}()
				switch st {
				case "Execute":
					if res, xerr := evr.E.Execute(obj); xerr == nil && res == nil {
						msg = "panic-equivalent: Execute after a refused Prepare returned a nil object and a nil error"
					}
				case "Run":
					evr.E.Run(obj)
				case "Dump":
					evr.E.Dump()
				}
			}()
			if msg != "" {
				return msg
			}
		}
		return "ok rejected"
	}
	steps := []string{"Execute", "Run", "Dump", "Execute", "Run-nil", "Run"}
	for _, st := range steps {
		var msg string
		func() {
			defer func() {
				if r := recover(); r != nil {
					msg = fmt.Sprintf("panic in %s: %v", st, r)
				}
			}()
			switch st {
			case "Execute":
				o := evr.Exec(obj)
				if o.Panicked {
					msg = "panic in Execute: " + o.PanicMsg
				} else if o.Nil {
					msg = "panic-equivalent: Execute returned a nil object and a nil error"
				}
			case "Run":
				_, _, p, m := evr.RunBool(obj)
				if p {
					msg = "panic in Run: " + m
				}
			case "Run-nil":
				_, _, p, m := evr.RunBool(nil)
				if p {
					msg = "panic in Run(nil): " + m
				}
			case "Dump":
				if err := evr.E.Dump(); err != nil {
					_ = err
				}
			}
		}()
		if msg != "" {
			return msg
		}
	}
	return "ok ran"
}

// c08ParWorker: vcheck worker c08par <seed> <iterations>. Sixteen goroutines, each with
// its own evaluators, run faulting and pattern-heavy scripts at the same time; the
// process must survive (a fatal runtime error cannot be recovered by the caller).
func c08ParWorker(args []string) {
	var seed int64
	var iters int
	fmt.Sscan(args[0], &seed)
	fmt.Sscan(args[1], &iters)
	dn, _ := os.OpenFile(os.DevNull, os.O_WRONLY, 0)
	real := os.Stdout
	os.Stdout = dn
	var wg sync.WaitGroup
	var mu sync.Mutex
	var problems []string
	total := 0
	for g := 0; g < 16; g++ {
		wg.Add(1)
		go func(g int) {
			defer wg.Done()
			r := rand.New(rand.NewSource(seed*31 + int64(g)))
			n := 0
			for k := 0; k < iters; k++ {
				pat := fmt.Sprintf("^g%d_%d[a-z]*%d$", g, k, r.Intn(1000))
				if k%4 == 3 {
					pat = fmt.Sprintf("(g%d_%d[", g, k)
				}
				var script string
				switch k % 6 {
				case 0:
					script = fmt.Sprintf("return match(Name, %q) || Name ~= /%s/ || replace(Name, %q, \"x\") == Name;", pat, strings.ReplaceAll(strings.ReplaceAll(pat, "[", "\\["), "(", "\\("), pat)
				case 1:
					script = c08FaultScripts[r.Intn(len(c08FaultScripts))]
				case 2:
					script = fmt.Sprintf("foreach w in split(Name, %q) { x = replace(w, %q, \"-\"); } return hour(Count) + len(Labels) + len(sort(keys(Labels)));", fmt.Sprint(k%10), pat)
				case 3:
					script = "switch (Name) { case /" + fmt.Sprintf("g%d_%dq", g, k) + "/ { return 1; } case \"steve\" { return Labels; } default { return 1 % Z; } }"
				case 4:
					script = fmt.Sprintf("function f(n) { if (n <= 0) { return [1][n - 1] + \"%s\"; } return f(n - 1); } return f(40);", pat)
				default:
					script = fmt.Sprintf("return sprintf(\"%%s %%d\", Name ~= /%d/i, %d) + string(Labels) + weekday(Count);", k, k)
				}
				res := func() (res string) {
					defer func() {
						if rec := recover(); rec != nil {
							res = fmt.Sprintf("panic: %v in %s", rec, script)
						}
					}()
					e := evalfilter.New(script)
					if err := e.Prepare(); err != nil {
						return ""
					}
					obj := map[string]interface{}{"Z": 0, "Name": "steve", "Count": int64(1700000000 + k), "Labels": sharedC08Labels}
					e.Execute(obj)
					e.Run(obj)
					return ""
				}()
				n++
				if res != "" {
					mu.Lock()
					problems = append(problems, res)
					mu.Unlock()
				}
			}
			mu.Lock()
			total += n
			mu.Unlock()
		}(g)
	}
	wg.Wait()
	for _, p := range problems {
		fmt.Fprintln(real, "PROBLEM", strings.ReplaceAll(p, "\n", " "))
	}
	fmt.Fprintln(real, "DONE", total)
}

var sharedC08Labels = map[string]interface{}{"a": 1, "b": []interface{}{1, "x"}, "c": map[string]interface{}{"d": 2.5}}

// c08Worker: vcheck worker c08 <batch.json> <log>
func c08Worker(args []string) {
	dn, _ := os.OpenFile(os.DevNull, os.O_WRONLY, 0)
	os.Stdout = dn
	data, err := os.ReadFile(args[0])
	if err != nil {
		fmt.Fprintln(os.Stderr, err)
		os.Exit(2)
	}
	var cases []c08Case
	if err := json.Unmarshal(data, &cases); err != nil {
		fmt.Fprintln(os.Stderr, err)
		os.Exit(2)
	}
	logf, err := os.OpenFile(args[1], os.O_CREATE|os.O_WRONLY|os.O_APPEND, 0o644)
	if err != nil {
		fmt.Fprintln(os.Stderr, err)
		os.Exit(2)
	}
	start := 0
	if len(args) > 2 {
		fmt.Sscan(args[2], &start)
	}
	for i := start; i < len(cases); i++ {
		fmt.Fprintf(logf, "BEGIN %d\n", i)
		t0 := time.Now()
		res := c08RunCase(cases[i])
		if d := time.Since(t0); d > 2*time.Second {
			fmt.Fprintf(logf, "SLOW %d %d\n", i, d.Milliseconds())
		}
		fmt.Fprintf(logf, "END %d %s\n", i, strings.ReplaceAll(res, "\n", " "))
	}
	fmt.Fprintf(logf, "DONE\n")
	logf.Close()
}

func c08(c *ev.Ctx) {
	c.SetRule("crash oracle in isolated worker processes (ulimit -v, step budget and allocation guard through the hook, case written to disk before it runs): (a) text - random bytes, token soup, mutations (flip, splice, truncate, duplicate, nest) of a corpus (shipped example scripts, fuzz seeds, generator output), long and deeply nested inputs (depth <= 2000); (b) valid scripts touching every field of hostile objects - run-time-built structs with unsupported / unexported field kinds, nil and typed-nil pointers, non-struct values, maps with non-string keys or non-interface values; (c) ~200 run-time fault scripts. For each: Prepare, then Execute, Run, Dump, Execute, Run(nil), Run on the same evaluator. A panic escaping any call, a nil object with nil error, or the death of the worker is a violation. Distinct = distinct (script, object); non-trivial = Prepare accepted the script (the run-time path was exercised) or the input is longer than 20 bytes.")
	corpus := loadCorpus()
	if len(corpus) < 8 {
		c.Inconclusive("corpus of example scripts not found under " + repoDir())
	}
	var cases []c08Case
	add := func(cs c08Case) {
		cs.ID = fmt.Sprintf("case/%d", len(cases))
		cases = append(cases, cs)
	}
	// generator output joins the corpus
	for i := 0; i < 200; i++ {
		r := c.Rng("corpus", i)
		env := gen.NewEnv(r)
		pg := &gen.ProgGen{R: r, E: &gen.ExprGen{R: r, Env: env, Calls: true, IllTyped: 10}, CondFields: 2, MaxDepth: 3, MaxStmts: 4, Funcs: r.Intn(3), Mutators: true, Faults: true}
		corpus = append(corpus, gast.Text(pg.Program()))
	}
	// the text after a dot is printed back while the script is still being parsed: every
	// construct that can stand there, complete and broken, empty and half-written
	{
		bodies := []string{"return );", "return ;;", "return ];", "return }", "return", "return (;", "local ;", "local", "a = ;", "a += ;", "foreach in x { }", "foreach e in { }", "if () { }", "if (1) { ", "x = [1, ;", "f(;", "f(1, );", "switch (1) { case { } }", "switch () { default { } }",
			"function () { }", "function g( { }", "while () { }", "a ? : 2;", "a ? 1 : ;", "{ : }", "{\"k\": }", "[ , ]", "a[ ];", "a . ;", "- ;", "! ;", "1 .. ;", "a++ ++;", "\"open", "/open", "x = 1; return );", ""}
		frames := []string{"x.if (1) { %s }", "x.while (c) { %s }", "x.foreach e in [1] { %s }", "x.function f() { %s }", "x.switch (1) { case 1 { %s } }", "x.switch (1) { default { %s } }", "y = x.(if (1) { %s });", "return x.if (1) { } else { %s };",
			"x.y.if (1) { %s }", "x.[%s]", "x.{\"k\": %s}", "x.(%s)", "x.f(%s)", "x.-%s", "x.!%s", "h = {\"a\": 1}; return h.if (1) { %s };"}
		for _, f := range frames {
			for _, b := range bodies {
				add(c08Case{Kind: "text", Script: fmt.Sprintf(f, b)})
			}
		}
	}
	nText := c.Pick(30000, 2000000)
	for i := 0; i < nText; i++ {
		r := c.Rng("text", i)
		var s string
		switch r.Intn(10) {
		case 0:
			s = gen.RandBytes(r, r.Intn(80))
		case 1, 2:
			s = gen.TokenSoup(r, 1+r.Intn(30))
		case 3:
			if r.Intn(40) == 0 {
				s = gen.Nested(r, 200+r.Intn(1800))
			} else {
				s = gen.Nested(r, 1+r.Intn(40))
			}
		case 4:
			if r.Intn(200) == 0 {
				s = strings.Repeat(gen.Mutate(r, corpus)+"\n", 1+100000/(1+len(corpus[0])))
				if len(s) > 150000 {
					s = s[:150000]
				}
			} else {
				s = gen.Mutate(r, corpus)
			}
		default:
			s = gen.Mutate(r, corpus)
		}
		add(c08Case{Kind: "text", Script: s, NoOpt: r.Intn(2) == 0})
	}
	for _, s := range c08FaultScripts {
		add(c08Case{Kind: "text", Script: s})
		add(c08Case{Kind: "text", Script: s, NoOpt: true})
	}
	// every byte prefix of scripts written with every kind of escape, line ending (LF, CR LF,
	// lone CR), continuation line, quote style, regexp escape and comment
	for _, full := range []string{
		"return \"abc\\\r\ndef\" + 'x\\\ny' + \"q\\\"uote\\\\\";\r\n",
		"a = \"t\\tab\\r\\n\";\r\nb = a ~= /\\/x\\\\/i; // c\r\nreturn [a, b];\r",
		"if (a ~= /^[a-z]+\\/$/m) {\r\n  return 'it\\'s';\r\n} else { return \"\\\r\"; }",
		"x = {\"k\\\n\": 1, 'j': [1.5, 07, 70000]}; // tail\\\r\nreturn x[\"k\"] ? \"y\\\r\nz\" : /r\\e/;",
		"function f(a, b) { local c; c = a .. b; foreach i, e in c { c = \"\\\\\"; } return √a ** -b % 3; } return f(1, 2) >= 3 && !true || 1 != 2;",
	} {
		for cut := 0; cut <= len(full); cut++ {
			add(c08Case{Kind: "text", Script: full[:cut], NoOpt: cut%2 == 0})
		}
	}
	// every kind of syntax node in the positions where the compiler and the parser ask for
	// a node's text: called like a function, as a key of a hash with several keys, as the
	// value of a repeated key, after a dot, as a call argument of such a call
	nodes := []string{"a", "1", "1.5", `"s"`, "/re/i", "true", "null", "-x", "!x", "√x", "a + b", "a ? b : c", "a[0]", "a.b", "f(1)", "[1, 2]", "[]", `{"k": 1}`, "{}", "(a)", "1..3", "a = 1", "a += 1", "a++",
		"if (a) { 1 }", "if (a) { }", "if (a) { 1 } else { 2 }", "if (a) { 1 } else { }", "if (a) { } else { }", "if (a) { } else if (b) { }", "while (a) { }", "while (a) { 1 }", "for (a) { }", "foreach x in [1] { }", "foreach i, x in a { 1 }",
		"switch (a) { }", "switch (a) { case 1 { } }", "switch (a) { default { } }", "switch (a) { case 1, 2 { 3 } default { } }", "function g() { }", "function g(a, b) { return a; }", "return 1", "local z"}
	for _, n := range nodes {
		for _, form := range []string{"%s (1);", "%s (1, 2) (3);", "x = {%s: 1, 2: 3};", "x = {1: %s, 1: %s};", "x = {%s: 1, %s: 2, 3: 4};", "x = h.%s;", "x = g(%s (1));", "x = [%s (1)];", "return %s (1);", "%s; (1);", "y = 1; %s (y)"} {
			sc := strings.ReplaceAll(form, "%s", n)
			add(c08Case{Kind: "text", Script: sc})
			add(c08Case{Kind: "text", Script: "function outer(a) { " + sc + " } outer(1);", NoOpt: true})
		}
	}
	// hostile objects
	fields := []string{"F0", "F1", "F2", "F3", "f1", "A", "M", "T"}
	oscripts := c08ObjectScripts(fields)
	nObj := c.Pick(1500, 60000)
	for i := 0; i < nObj; i++ {
		r := c.Rng("obj", i)
		seed := r.Int63()
		for k := 0; k < 6; k++ {
			add(c08Case{Kind: "struct", ObjSeed: seed, Script: oscripts[r.Intn(len(oscripts))], NoOpt: r.Intn(2) == 0})
		}
	}
	for idx := range gen.HostileValues() {
		for _, s := range oscripts {
			if strings.Contains(s, "F3") || strings.Contains(s, "F2") {
				continue
			}
			add(c08Case{Kind: "hostile", ObjIdx: idx, Script: s})
		}
	}
	c.Extra("cases_text", nText+2*len(c08FaultScripts))
	c.Extra("cases_objects", len(cases)-nText-2*len(c08FaultScripts))

	if c.Only != "" {
		for _, cs := range cases {
			if cs.ID == c.Only {
				res := c08RunCase(cs)
				fmt.Fprintf(ev.Out, "replay %s: %s\n", cs.ID, res)
				if !strings.HasPrefix(res, "ok") {
					c.Violation(cs.ID, "replay", map[string]interface{}{"summary": res, "script": cs.Script})
				}
			}
		}
		return
	}

	work := filepath.Join(ev.Root, "work", fmt.Sprintf("c08-%d", os.Getpid()))
	os.MkdirAll(work, 0o755)
	defer os.RemoveAll(work)
	self, _ := os.Executable()
	batchSize := 2500
	nb := (len(cases) + batchSize - 1) / batchSize
	var mu sync.Mutex
	accepted := 0
	c.ParFor(nb, func(b int) {
		lo, hi := b*batchSize, (b+1)*batchSize
		if hi > len(cases) {
			hi = len(cases)
		}
		batch := cases[lo:hi]
		bf := filepath.Join(work, fmt.Sprintf("batch-%d.json", b))
		data, _ := json.Marshal(batch)
		os.WriteFile(bf, data, 0o644)
		start := 0
		for attempt := 0; start < len(batch) && attempt < 50; attempt++ {
			lf := filepath.Join(work, fmt.Sprintf("log-%d-%d.txt", b, attempt))
			ef := filepath.Join(work, fmt.Sprintf("err-%d-%d.txt", b, attempt))
			cmd := exec.Command("timeout", "-s", "QUIT", "600", "bash", "-c",
				fmt.Sprintf("ulimit -v 8000000; exec %q worker c08 %q %q %d >/dev/null 2>%q", self, bf, lf, start, ef))
			t0 := time.Now()
			cmd.Run()
			done, last, results := c08ParseLog(lf)
			for idx, res := range results {
				cs := batch[idx]
				nontrivial := strings.HasPrefix(res, "ok ran") || len(cs.Script) > 20
				c.Case(cs.Kind+cs.Script+fmt.Sprint(cs.ObjSeed, cs.ObjIdx), nontrivial)
				if strings.HasPrefix(res, "ok ran") {
					mu.Lock()
					accepted++
					mu.Unlock()
				}
				if !strings.HasPrefix(res, "ok") {
					c.Violation(cs.ID, c08Class(res), map[string]interface{}{
						"summary": fmt.Sprintf("%s\n  kind: %s  script: %s", res, cs.Kind, clip(cs.Script, 400)), "case": cs})
				}
			}
			if done {
				break
			}
			// the worker died (or was killed by the watchdog) while running case `last`
			if last < 0 {
				eb, _ := os.ReadFile(ef)
				c.Inconclusive(fmt.Sprintf("worker for batch %d produced no log: %s", b, clip(string(eb), 300)))
				break
			}
			cs := batch[last]
			eb, _ := os.ReadFile(ef)
			etxt := string(eb)
			if time.Since(t0) > 590*time.Second {
				c.Inconclusive(fmt.Sprintf("worker watchdog fired on %s (script %s)", cs.ID, clip(cs.Script, 200)))
			} else {
				first := etxt
				if i := strings.Index(first, "\n\n"); i > 0 {
					first = first[:i]
				}
				c.Violation(cs.ID, "process died: "+clip(strings.SplitN(first, "\n", 2)[0], 60), map[string]interface{}{
					"summary": fmt.Sprintf("the worker process died while running this case: %s\n  kind: %s  script: %s", clip(first, 400), cs.Kind, clip(cs.Script, 400)), "case": cs, "stderr_head": clip(etxt, 3000)})
			}
			start = last + 1
		}
	})
	c.Extra("accepted_and_run", accepted)
	c.Extra("cases_slower_than_2s", len(c08Slow))
	if len(c08Slow) > 20 {
		c08Slow = c08Slow[:20]
	}
	c.Extra("slow_cases_sample", c08Slow)
	if accepted < len(cases)/20 {
		c.Inconclusive(fmt.Sprintf("only %d of %d cases reached the run-time path", accepted, len(cases)))
	}
	c.Sample(map[string]interface{}{"kind": "text", "script": clip(cases[0].Script, 200)})
	for _, cs := range cases {
		if cs.Kind == "struct" {
			c.Sample(map[string]interface{}{"kind": "struct", "script": cs.Script, "object": gen.RandStruct(rand.New(rand.NewSource(cs.ObjSeed)), 4, 45, 20).Desc})
			break
		}
	}
	c08UsableAfterwards(c)
	c08CompileGrowth(c)
	// blocks behind constant conditions whose tail bytes look like opcodes (family shared with
	// C03): Prepare comes back, with or without the optimizer
	for i, script := range constIfTailScripts() {
		id := fmt.Sprintf("const-if-tail/%d", i)
		if !c.Want(id) {
			continue
		}
		for _, noOpt := range []bool{false, true} {
			evr, err := eng.New(script, eng.Options{NoOptimize: noOpt, Budget: 100000})
			c.Case(id+fmt.Sprint(noOpt), true)
			if err != nil {
				c.Violation(id, "Prepare fails on a valid script", map[string]interface{}{"summary": fmt.Sprintf("%s (noopt=%v): Prepare returned %v", script, noOpt, err), "script": script})
				break
			}
			if o := evr.Exec(map[string]interface{}{"Flag": 3}); o.Panicked {
				c.Violation(id, "panic running a valid script", map[string]interface{}{"summary": script + ": " + o.PanicMsg, "script": script})
				break
			}
		}
	}
	// Prepare / Dump / Execute do not panic after a second Prepare that was accepted, refused
	// by the compiler, or refused by the size limits (the stream is shared with C20)
	c20RePrepare(c)
	c08Concurrent(c, self, work)
	c08Probes(c, self, work)
}

func clip(s string, n int) string {
	if len(s) > n {
		return s[:n] + fmt.Sprintf("...(%d bytes)", len(s))
	}
	return s
}

func c08Class(res string) string {
	if i := strings.Index(res, ":"); i > 0 {
		rest := res[i+1:]
		if len(rest) > 50 {
			rest = rest[:50]
		}
		return res[:i] + ":" + rest
	}
	return res
}

var (
	c08SlowMu sync.Mutex
	c08Slow   []string
)

func c08ParseLog(path string) (done bool, last int, results map[int]string) {
	results = map[int]string{}
	last = -1
	f, err := os.Open(path)
	if err != nil {
		return false, -1, results
	}
	defer f.Close()
	sc := bufio.NewScanner(f)
	sc.Buffer(make([]byte, 1<<20), 1<<24)
	open := -1
	for sc.Scan() {
		line := sc.Text()
		switch {
		case strings.HasPrefix(line, "BEGIN "):
			fmt.Sscan(line[6:], &open)
		case strings.HasPrefix(line, "END "):
			var idx int
			rest := line[4:]
			fmt.Sscan(rest, &idx)
			if sp := strings.Index(rest, " "); sp >= 0 {
				results[idx] = rest[sp+1:]
			}
			open = -1
		case strings.HasPrefix(line, "SLOW "):
			var idx, ms int
			fmt.Sscan(line[5:], &idx, &ms)
			c08SlowMu.Lock()
			c08Slow = append(c08Slow, fmt.Sprintf("%s#%d: %d ms", filepath.Base(path), idx, ms))
			c08SlowMu.Unlock()
		case line == "DONE":
			done = true
		}
	}
	if open >= 0 {
		last = open
	} else if !done {
		// died between cases: resume after the highest finished one
		for k := range results {
			if k > last {
				last = k
			}
		}
	}
	return done, last, results
}

// c08Concurrent: the same crash oracle with many evaluators at work at once.
func c08Concurrent(c *ev.Ctx, self, work string) {
	if !c.Want("concurrent") {
		return
	}
	for p := 0; p < c.Pick(2, 6); p++ {
		ef := filepath.Join(work, fmt.Sprintf("par-err-%d.txt", p))
		cmd := exec.Command("timeout", "-s", "QUIT", "900", "bash", "-c", fmt.Sprintf("ulimit -v 8000000; exec %q worker c08par %d %d 2>%q", self, c.Seed*10+int64(p), c.Pick(400, 4000), ef))
		out, _ := cmd.Output()
		text := string(out)
		c.Case(fmt.Sprintf("concurrent/%d", p), true)
		var n int
		if i := strings.LastIndex(text, "DONE "); i >= 0 {
			fmt.Sscan(text[i+5:], &n)
			c.Evals(n)
			c.Count("concurrent_script_runs", n)
			for _, line := range strings.Split(text, "\n") {
				if strings.HasPrefix(line, "PROBLEM ") {
					c.Violation(fmt.Sprintf("concurrent/%d", p), "panic under concurrent use", map[string]interface{}{"summary": clip(line, 600)})
				}
			}
			continue
		}
		eb, _ := os.ReadFile(ef)
		head := string(eb)
		if i := strings.Index(head, "\n\n"); i > 0 {
			head = head[:i]
		}
		if strings.Contains(string(eb), "fatal error") || strings.Contains(string(eb), "panic:") {
			c.Violation(fmt.Sprintf("concurrent/%d", p), "process died: "+clip(strings.SplitN(head, "\n", 2)[0], 60), map[string]interface{}{"summary": "sixteen goroutines, each with evaluators of its own, ran faulting and pattern-heavy scripts at the same time and the process died: " + clip(head, 600), "stderr_head": clip(string(eb), 3000)})
		} else {
			c.Inconclusive(fmt.Sprintf("concurrent crash workload %d gave no result: %s", p, clip(head, 300)))
		}
	}
}

// c08UsableAfterwards: after runs that failed in every way, the same evaluator still
// gives the right answer for a harmless object.
func c08UsableAfterwards(c *ev.Ctx) {
	script := `function walk(n) { if (n <= 0) { if (Mode == 1) { panic("deep"); } if (Mode == 2) { return 1 % Zero; } if (Mode == 3) { return walk(); } if (Mode == 4) { return [1]["k"]; } if (Mode == 5) { return hostpanic(); } return 0; } return 1 + walk(n - 1); } foreach e in [1, 2] { foreach f in [3] { if (Mode > 0) { return walk(Depth); } } } return walk(Depth);`
	for _, noOpt := range []bool{false, true} {
		id := fmt.Sprintf("usable-afterwards/%v", noOpt)
		if !c.Want(id) {
			continue
		}
		evr, err := eng.New(script, eng.Options{NoOptimize: noOpt, Budget: 50000000, Funcs: map[string]func([]object.Object) object.Object{
			"hostpanic": func(a []object.Object) object.Object { panic("host function panicked") }}})
		if err != nil {
			c.Violation(id, "prepare", map[string]interface{}{"summary": err.Error()})
			continue
		}
		for round := 0; round < c.Pick(12, 60); round++ {
			mode := 1 + round%5
			o := evr.Exec(map[string]interface{}{"Mode": mode, "Depth": 1800, "Zero": 0})
			c.Case(fmt.Sprint(id, round), true)
			if o.Panicked || o.Err == nil {
				c.Violation(id, "fault did not come back as an error", map[string]interface{}{"summary": fmt.Sprintf("mode %d: %s", mode, o.Desc()), "script": script})
				break
			}
			ok := evr.Exec(map[string]interface{}{"Mode": 0, "Depth": 9000, "Zero": 0})
			b, rerr, pan, _ := evr.RunBool(map[string]interface{}{"Mode": 0, "Depth": 50, "Zero": 0})
			if ok.Desc() != "INTEGER:9000" || pan || rerr != nil || !b {
				c.Violation(id, "evaluator not usable after faults", map[string]interface{}{"summary": fmt.Sprintf("after %d faulting runs (last mode %d) a harmless run gives %s %s (expected INTEGER:9000), Run gives %v err=%v", round+1, mode, ok.Desc(), errText(ok.Err), b, rerr), "script": script})
				break
			}
		}
	}
}

// known findings: inputs that overflow the Go stack (fatal, unrecoverable)
func c08Probes(c *ev.Ctx, self, work string) {
	probes := []struct{ name, script, what string }{
		{"deep-paren-nesting", "return " + strings.Repeat("(", 3000000) + "1" + strings.Repeat(")", 3000000) + ";", "parentheses nested 3,000,000 deep overflow the Go stack in the recursive-descent parser: the process dies (fatal error: stack overflow)"},
		{"deep-value-nesting", `a = []; i = 0; while (i < 1000000) { a = [a]; i++; } return len(sprintf("%v", a));`, "an array nested 1,000,000 deep, built by a 90-byte script, overflows the Go stack when it is printed (Inspect recurses once per level): the process dies (fatal error: stack overflow)"},
		{"unbounded-recursion", "function f(n) { return f(n + 1); } return f(1);", "unbounded script recursion without a deadline overflows the Go stack (the VM recurses in Go for each call): the process dies"},
	}
	for i, p := range probes {
		if !c.Want("probe:" + p.name) {
			continue
		}
		bf := filepath.Join(work, fmt.Sprintf("probe-%d.json", i))
		lf := filepath.Join(work, fmt.Sprintf("probe-%d.log", i))
		data, _ := json.Marshal([]c08Case{{ID: "probe", Kind: "text", Script: p.script}})
		os.WriteFile(bf, data, 0o644)
		// no step budget for this probe: the point is what happens without a deadline
		cmd := exec.Command("timeout", "-s", "KILL", "300", "bash", "-c",
			fmt.Sprintf("ulimit -v 16000000; VERIF_C08_NOBUDGET=1 exec %q worker c08 %q %q 0 >/dev/null 2>/dev/null", self, bf, lf))
		cmd.Run()
		done, _, res := c08ParseLog(lf)
		fails := !done || !strings.HasPrefix(res[0], "ok")
		c.Probe(p.name, fails, p.what, map[string]interface{}{"script": clip(p.script, 200)})
	}
}

// c08CompileGrowth: constructs nested in themselves, level after level, in scripts whose
// text grows by a few dozen bytes per level. What Prepare does with them must stay in
// proportion: the bytes it allocates (a logical measure, not a time) are bounded, whether it
// accepts the script or refuses it as too large. A construct that is compiled once per
// alternative doubles the program with every level, and a script of a kilobyte takes the
// host's memory.
func c08CompileGrowth(c *ev.Ctx) {
	const bound = 64 << 20
	shapes := []struct{ name, pre, post string }{
		{"switch-two-values", "switch (x) { case 1, 2 { ", " } }"},
		{"switch-three-values-default", "switch (x) { case 1, 2, 3 { ", " } default { y = 1; } }"},
		{"switch-later-arm", "switch (x) { case 7 { y = 1; } case 1, \"a\", /b/ { ", " } }"},
		{"switch-default-arm", "switch (x) { case 1, 2 { y = 1; } default { ", " } }"},
		{"switch-in-foreach", "foreach i in [1] { switch (i) { case 1, 2 { ", " } } }"},
		{"if-else", "if (x) { ", " } else { y = 1; }"},
		{"else-branch", "if (x) { y = 1; } else { ", " }"},
		{"while", "while (x) { ", " x = 0; }"},
		{"foreach-range", "foreach a in 1..2 { ", " }"},
		{"function-definition", "function inner() { ", " }"},
		{"function-definition-in-a-two-value-case", "switch (x) { case 1, 2 { function inner() { ", " } } }"},
		{"dot-with-a-parenthesised-name", "x.(", ")"},
		{"dot-inside-index-inside-dot", "x.(x[x.(", ")])"},
		{"function-definition-in-a-case-of-a-function", "function outer2() { switch (x) { case 1, 2, 3 { function inner() { ", " } } default { y = 1; } } }"},
	}
	var maxSeen uint64
	for _, sh := range shapes {
		for _, inFn := range []bool{false, true} {
			for _, levels := range []int{6, 12, 18, 24, 40, 80} {
				id := fmt.Sprintf("compile-growth/%s/%v/%d", sh.name, inFn, levels)
				if !c.Want(id) {
					continue
				}
				inner := "y = 2;"
				if strings.HasPrefix(sh.name, "dot-") {
					inner = "b" // (these shapes nest an expression, not a statement)
				}
				script := strings.Repeat(sh.pre, levels) + inner + strings.Repeat(sh.post, levels)
				if inner == "b" {
					script = "y = " + script + ";"
				}
				if inFn {
					script = "function outer(x) { " + script + " return 1; } return outer(1);"
				} else {
					script = "x = 1; " + script + " return 1;"
				}
				var before, after runtime.MemStats
				runtime.ReadMemStats(&before)
				evr, err := eng.New(script, eng.Options{NoHook: true, NoOptimize: levels%12 == 0})
				runtime.ReadMemStats(&after)
				delta := after.TotalAlloc - before.TotalAlloc
				if delta > maxSeen {
					maxSeen = delta
				}
				c.Case(id, true)
				if delta > bound {
					c.Violation(id, "Prepare out of proportion: "+sh.name, map[string]interface{}{
						"summary": fmt.Sprintf("%s nested %d levels (a script of %d bytes): Prepare allocated %d bytes (bound %d) and returned err=%v: the work grows exponentially with the nesting depth, a few more levels take the memory of the host", sh.name, levels, len(script), delta, bound, err),
						"script":  clip(script, 400)})
					break
				}
				if err == nil && levels <= 12 {
					// (nested loops of depth 12 run 4096 times; deeper ones are only prepared)
					if o := evr.Exec(nil); o.Panicked {
						c.Violation(id, "panic running a nested construct", map[string]interface{}{"summary": sh.name + ": " + o.PanicMsg, "script": clip(script, 400)})
					}
				}
			}
		}
	}
	c.Extra("max_bytes_allocated_by_one_prepare_of_nested_constructs", maxSeen)
}
