package main

import (
	"encoding/json"
	"fmt"
	"math/rand"
	"os"
	"os/exec"
	"path/filepath"
	"sort"
	"strings"
	"sync/atomic"
	"time"

	"verif/internal/eng"
	"verif/internal/ev"
	"verif/internal/gen"
	"verif/internal/model"
)

func init() { register("C04", "exploration", c04) }

// wantOfGo is our own conversion table from Go values (as a host would put
// them in a document) to script values. ok=false: outside what is promised.
func wantOfGo(v interface{}) (model.Value, bool) {
	switch x := v.(type) {
	case nil:
		return model.Null(), true
	case int:
		return model.Int(int64(x)), true
	case int64:
		return model.Int(x), true
	case float64:
		return model.Float(x), true
	case float32:
		return model.Float(float64(x)), true
	case string:
		return model.Str(x), true
	case bool:
		return model.Bool(x), true
	case time.Time:
		return model.Int(x.Unix()), true
	case []interface{}:
		out := make([]model.Value, 0, len(x))
		for _, e := range x {
			switch e.(type) {
			case nil, []interface{}, map[string]interface{}:
				return model.Null(), false // README promises slices of scalars only
			}
			w, ok := wantOfGo(e)
			if !ok {
				return model.Null(), false
			}
			out = append(out, w)
		}
		return model.Value{K: model.KArr, A: out}, true
	case []string:
		out := make([]model.Value, len(x))
		for i, e := range x {
			out[i] = model.Str(e)
		}
		return model.Value{K: model.KArr, A: out}, true
	case []int:
		out := make([]model.Value, len(x))
		for i, e := range x {
			out[i] = model.Int(int64(e))
		}
		return model.Value{K: model.KArr, A: out}, true
	case []float64:
		out := make([]model.Value, len(x))
		for i, e := range x {
			out[i] = model.Float(e)
		}
		return model.Value{K: model.KArr, A: out}, true
	case []bool:
		out := make([]model.Value, len(x))
		for i, e := range x {
			out[i] = model.Bool(e)
		}
		return model.Value{K: model.KArr, A: out}, true
	case map[string]interface{}:
		keys := make([]string, 0, len(x))
		for k := range x {
			keys = append(keys, k)
		}
		sort.Strings(keys)
		var ents []model.HashEnt
		for _, k := range keys {
			w, ok := wantOfGo(x[k])
			if !ok {
				return model.Null(), false
			}
			ents = append(ents, model.HashEnt{Key: model.Str(k), Val: w})
		}
		return model.Value{K: model.KHash, H: ents}, true
	}
	return model.Null(), false
}

func randDoc(r *rand.Rand, depth int) map[string]interface{} {
	doc := map[string]interface{}{}
	n := r.Intn(8)
	for i := 0; i < n; i++ {
		k := []string{"Name", "Count", "Tags", "Meta", "ok", "ratio", "x", "Nested", "when", "n2"}[r.Intn(10)]
		switch r.Intn(9) {
		case 0:
			doc[k] = gen.RandScalar(r, model.KInt).I
		case 1:
			doc[k] = int(r.Intn(100) - 50)
		case 2:
			doc[k] = gen.RandScalar(r, model.KFloat).F
		case 3:
			doc[k] = gen.StrPool[r.Intn(len(gen.StrPool))]
		case 4:
			doc[k] = r.Intn(2) == 0
		case 5:
			doc[k] = nil
		case 6:
			m := r.Intn(4)
			arr := make([]interface{}, m)
			for j := range arr {
				arr[j] = []interface{}{r.Intn(9), "s", 2.5, true}[r.Intn(4)]
			}
			doc[k] = arr
		case 7:
			if depth > 0 {
				doc[k] = randDoc(r, depth-1)
			} else {
				doc[k] = map[string]interface{}{}
			}
		default:
			doc[k] = time.Unix(int64(r.Intn(1000000000)), 0)
		}
	}
	return doc
}

func c04(c *ev.Ctx) {
	c.SetRule("conversion-table oracle over generated host objects: (a) struct types built at run time with reflect.StructOf (1-12 fields in random order; supported kinds int/int64/float32/float64/string/bool/time.Time/slices of those/[]interface{}/map[string]interface{}; unsupported kinds uint*/int8-32/complex/pointers/nested structs/arrays/chan/func/interface/typed maps; unexported fields), passed by value and by pointer, zero values, nil and empty slices; (b) map[string]interface{} documents built in Go and decoded from JSON, nested; each field is read as `return F;`, `type(F)`, `len(F)`, `F[i]`, `$F`, `A.B`; a supported exported field must give exactly the converted value, an unsupported one null / an error / the correct value - never a wrong value or a crash; variable > field > null; sequences of 4-8 different objects through one prepared evaluator must each see their own object. Distinct = distinct (object description, script); non-trivial = a supported field with a non-zero value.")
	n := c.Pick(2000, 100000)
	c.ParFor(n, func(i int) {
		id := fmt.Sprintf("struct/%d", i)
		if !c.Want(id) {
			return
		}
		r := c.Rng("struct", i)
		// one evaluator per script shape, a sequence of different objects through it
		seq := 4 + r.Intn(5)
		objs := make([]gen.HostObject, seq)
		for k := range objs {
			objs[k] = gen.RandStruct(r, 1+r.Intn(12), 25, 15)
		}
		for fi := 0; fi < 12; fi++ {
			fname := fmt.Sprintf("F%d", fi)
			scripts := []string{"return " + fname + ";", "return [type(" + fname + "), len(" + fname + ")];", "return $" + fname + ";", "return " + fname + "[0];", "return [" + fname + ", Absent, " + fname + "];"}
			for si, script := range scripts {
				evr, err := eng.New(script, eng.Options{NoOptimize: r.Intn(2) == 0})
				if err != nil {
					c.Violation(id, "field script rejected", map[string]interface{}{"summary": script + ": " + err.Error()})
					return
				}
				for k, ho := range objs {
					if k > 0 && (k+fi+si)%5 == 0 {
						// a run without any object in between: every field name is null
						o := evr.Exec(nil)
						if exp := c04Expect(si, model.Null()); o.Desc() != exp || o.Panicked {
							c.Violation(id, "a run without an object sees an earlier object's field", map[string]interface{}{
								"summary": fmt.Sprintf("%s run against no object (after an object with that field): got %s, expected %s", script, o.Desc(), exp), "script": script})
							return
						}
					}
					var spec *gen.FieldSpec
					for q := range ho.Fields {
						if ho.Fields[q].Name == fname {
							spec = &ho.Fields[q]
						}
					}
					o := evr.Exec(ho.Obj)
					if o.Panicked || o.Nil {
						c.Violation(id, "crash reading a field", map[string]interface{}{"summary": fmt.Sprintf("%s on %s: %s", script, ho.Desc, o.Desc())})
						return
					}
					var want model.Value
					promised := false
					if spec == nil {
						want, promised = model.Null(), true // the name is neither variable nor field
					} else if spec.Supported {
						want, promised = spec.Want, true
					} else {
						want = spec.Want
					}
					exp := c04Expect(si, want)
					c.Case(fmt.Sprint(ho.Desc, script, k), promised && spec != nil && want.Print() != "0" && want.Print() != "" && want.Print() != "false" && want.Print() != "[]")
					if promised {
						if o.Desc() != exp {
							c.Violation(id, "field not converted faithfully", map[string]interface{}{
								"summary": fmt.Sprintf("%s on object %d of the sequence (%s, field kind %s): got %s %s, expected %s", script, k+1, ho.Desc, kindOf(spec), o.Desc(), errText(o.Err), exp), "script": script, "object": ho.Desc})
							return
						}
					} else if o.Err == nil && spec != nil && len(spec.Kind) > 2 && spec.Kind[:2] == "[]" {
						// slices of kinds that are not promised ([]uint, [][]int): beyond
						// "no crash" the outcome is not specified (README: slices of scalars)
						c.Count("skipped/slice of an unsupported element kind", 1)
					} else if o.Err == nil {
						// unsupported: null, an error, or the correct value - never something else
						nullExp := c04Expect(si, model.Null())
						if o.Desc() != nullExp && o.Desc() != exp {
							c.Violation(id, "unsupported field gives a wrong value", map[string]interface{}{
								"summary": fmt.Sprintf("%s on %s (field kind %s, unsupported): got %s; acceptable are an error, %s or %s", script, ho.Desc, kindOf(spec), o.Desc(), nullExp, exp), "script": script, "object": ho.Desc})
							return
						}
					}
				}
			}
		}
		c.SampleEvery(i, func() interface{} { return map[string]string{"object": objs[0].Desc, "script": "return F0;"} })
	})

	// map documents, built in Go and decoded from JSON
	m := c.Pick(1500, 60000)
	c.ParFor(m, func(i int) {
		id := fmt.Sprintf("doc/%d", i)
		if !c.Want(id) {
			return
		}
		r := c.Rng("doc", i)
		seq := 4 + r.Intn(4)
		docs := make([]map[string]interface{}, seq)
		for k := range docs {
			if r.Intn(5) == 0 {
				// no object at all (nil) or an empty document: every name is null,
				// whatever the previous object of the sequence held
				if r.Intn(2) == 0 {
					docs[k] = nil
				} else {
					docs[k] = map[string]interface{}{}
				}
				continue
			}
			d := randDoc(r, 2)
			if r.Intn(2) == 0 {
				// through JSON: numbers become float64, times become strings
				for kk, v := range d {
					if _, ok := v.(time.Time); ok {
						delete(d, kk)
					}
				}
				data, _ := json.Marshal(d)
				d = map[string]interface{}{}
				json.Unmarshal(data, &d)
			}
			docs[k] = d
		}
		names := []string{"Name", "Count", "Tags", "Meta", "ok", "ratio", "x", "Nested", "when", "n2", "Absent"}
		for _, name := range names {
			for si, script := range []string{"return " + name + ";", "return [type(" + name + "), len(" + name + ")];", "return $" + name + ";", "return " + name + "[0];", "return " + name + ".Name;", "return " + name + ".Nested.Count;"} {
				evr, err := eng.New(script, eng.Options{NoOptimize: r.Intn(2) == 0})
				if err != nil {
					continue
				}
				for k, d := range docs {
					var o eng.Obs
					if d == nil {
						o = evr.Exec(nil) // an untyped nil object
					} else {
						o = evr.Exec(d)
					}
					if o.Panicked || o.Nil {
						c.Violation(id, "crash reading a document", map[string]interface{}{"summary": fmt.Sprintf("%s on %v: %s", script, d, o.Desc())})
						return
					}
					v, present := d[name]
					want, ok := model.Null(), true
					if present {
						want, ok = wantOfGo(v)
					}
					if !ok {
						continue
					}
					var exp string
					switch si {
					case 4:
						exp = c04Dot(want, "Name")
					case 5:
						exp = c04Dot2(want, "Nested", "Count")
					default:
						exp = c04Expect(si, want)
					}
					c.Case(fmt.Sprint(d, script, k), present)
					if o.Desc() != exp {
						c.Violation(id, "document key not converted faithfully", map[string]interface{}{
							"summary": fmt.Sprintf("%s on document %d of the sequence %v: got %s %s, expected %s", script, k+1, d, o.Desc(), errText(o.Err), exp), "script": script})
						return
					}
				}
			}
		}
	})

	// a script variable of the same name takes precedence over the field - whatever
	// was looked up before (fields are converted lazily and cached per run), and
	// however the variable came to exist
	n2 := c.Pick(1500, 40000)
	c.ParFor(n2, func(i int) {
		id := fmt.Sprintf("shadow/%d", i)
		if !c.Want(id) {
			return
		}
		r := c.Rng("shadow", i)
		doc := map[string]interface{}{"Name": "field-name", "Count": 3, "Tags": []interface{}{"a", "b"}, "Ratio": 1.5, "Ok": true}
		names := []string{"Name", "Count", "Tags", "Ratio", "Ok"}
		first := names[r.Intn(len(names))]  // read first: fills the cache
		shadow := names[r.Intn(len(names))] // then shadowed
		warm := []string{"", "w = " + first + "; ", "w = Absent; ", "if (" + first + ") { w = 1; } ", "w = len(" + first + "); "}[r.Intn(5)]
		var script, want string
		vars := map[string]model.Value{}
		// the shadowing value: an ordinary one, or one that is null / falsy / empty (a
		// variable that holds null is still a variable)
		sv := []struct {
			lit, desc string
			val       model.Value
		}{{`"shadow"`, "STRING:shadow", model.Str("shadow")}, {"null", "NULL:null", model.Null()}, {"false", "BOOLEAN:false", model.Bool(false)}, {"0", "INTEGER:0", model.Int(0)},
			{`""`, "STRING:", model.Str("")}, {"[]", "ARRAY:[]", model.Arr()}, {`"shadow"`, "STRING:shadow", model.Str("shadow")}}[r.Intn(7)]
		switch r.Intn(8) {
		case 0: // assignment
			script = warm + shadow + " = " + sv.lit + "; return " + shadow + ";"
			want = sv.desc
		case 1: // SetVariable by the host
			vars[shadow] = sv.val
			script = warm + "return " + shadow + ";"
			want = sv.desc
		case 2: // function parameter
			script = "function f(" + shadow + ") { " + warm + "return " + shadow + "; } " + warm + "return f(" + sv.lit + ");"
			want = sv.desc
		case 3: // local
			script = "function f() { " + warm + "local " + shadow + "; " + shadow + " = " + sv.lit + "; return " + shadow + "; } " + warm + "return f();"
			want = sv.desc
		case 7: // local that was never assigned
			script = "function f() { " + warm + "local " + shadow + "; return " + shadow + "; } " + warm + "return f();"
			want = "NULL:null"
		case 4: // foreach variable
			script = warm + "r = 1; foreach " + shadow + " in [" + sv.lit + "] { r = [" + shadow + "]; } return r;"
			want = "ARRAY:[" + strings.SplitN(sv.desc, ":", 2)[1] + "]"
		case 5: // compound assignment creates a variable from the field
			script = warm + "Count += 10; return [Count, len(type(" + first + ")) > 0];"
			want = "ARRAY:[13, true]"
		default: // postfix
			script = warm + "Count++; Count++; return Count;"
			want = "INTEGER:5"
		}
		evr, err := eng.New(script, eng.Options{Vars: vars, NoOptimize: r.Intn(2) == 0})
		if err != nil {
			return
		}
		c.Case(script+fmt.Sprint(describeFields(vars)), true)
		for run := 0; run < 2; run++ {
			got := evr.Exec(doc).Desc()
			if got != want {
				c.Violation(id, "a variable does not take precedence over the field of the same name", map[string]interface{}{
					"summary": fmt.Sprintf("%s (host variables %v) on %v: got %s, expected %s", script, describeFields(vars), doc, got, want), "script": script})
				return
			}
			if strings.Contains(script, "Count++") || strings.Contains(script, "Count +=") || strings.HasPrefix(strings.TrimPrefix(script, warm), shadow+" = ") {
				break // the script's own variables persist into the next run by design
			}
		}
	})
	c04SameReference(c)
	c04HostileInChild(c)
	c04Shapes(c)
	c04DeadNames(c)
	// a slice / map field is handed out by reference from the per-run field table: no
	// built-in applied to it may change what the field shows afterwards
	c16BuiltinsKeepArgument(c, "Tags", func(lit string) (string, map[string]interface{}) {
		return "", map[string]interface{}{"__field__": true}
	})
	// a failing run between two objects (error, panic, arity mismatch, unknown function,
	// inside and outside a user function): the next run still sees its own object
	faults := []string{`return 1 / Zero;`, `return 1 % Zero;`, `panic("x");`, `return chk(1, 2);`, `return chk();`, `return nosuch(1);`, `return [1]["k"];`,
		`return inner(1 / Zero);`, `return deep(3);`, `foreach q in [1,2] { foreach z in [3] { return chk(q, z); } }`, `foreach q in Name { panic(q); }`}
	nf := c.Pick(800, 30000)
	c.ParFor(nf, func(i int) {
		id := fmt.Sprintf("fault-between/%d", i)
		if !c.Want(id) {
			return
		}
		r := c.Rng("faultbetween", i)
		fault := faults[r.Intn(len(faults))]
		script := "function chk(a) { return a; } function inner(a) { return chk(a); } function deep(n) { if (n <= 0) { return chk(1, 2, 3); } return deep(n - 1); } " +
			"if (Bad) { " + fault + " } return [chk(Name), inner(Count), Tags];"
		evr, err := eng.New(script, eng.Options{NoOptimize: r.Intn(2) == 0})
		if err != nil {
			c.Violation(id, "fault script rejected", map[string]interface{}{"summary": err.Error(), "script": script})
			return
		}
		c.Case(script, true)
		for step := 0; step < 6; step++ {
			bad := r.Intn(3) == 0
			name := fmt.Sprintf("n%d", r.Intn(1000))
			cnt := r.Intn(1000)
			tags := []interface{}{fmt.Sprintf("t%d", r.Intn(100))}
			var obj interface{}
			if r.Intn(2) == 0 {
				obj = map[string]interface{}{"Bad": bad, "Zero": 0, "Name": name, "Count": cnt, "Tags": tags}
			} else {
				obj = &struct {
					Bad   bool
					Zero  int
					Name  string
					Count int
					Tags  []interface{}
				}{bad, 0, name, cnt, tags}
			}
			o := evr.Exec(obj)
			if bad {
				if o.Err == nil {
					c.Violation(id, "fault did not fail", map[string]interface{}{"summary": fmt.Sprintf("%s with Bad=true returned %s", script, o.Desc()), "script": script})
					return
				}
				continue
			}
			want := fmt.Sprintf("ARRAY:[%s, %d, [%s]]", name, cnt, tags[0])
			if o.Desc() != want {
				c.Violation(id, "a run after a failed run sees the wrong object", map[string]interface{}{
					"summary": fmt.Sprintf("step %d: %s on {Name:%s Count:%d Tags:%v} gives %s %s, expected %s", step+1, script, name, cnt, tags, o.Desc(), errText(o.Err), want), "script": script})
				return
			}
		}
	})
	for i, tc := range []struct{ script, want string }{
		{`return Name;`, "STRING:var"}, {`Name = "assigned"; return Name;`, "STRING:assigned"}, {`return [Name, Count];`, "ARRAY:[var, 3]"}, {`return $Name;`, "STRING:var"},
		{`c = Count; return Name;`, "STRING:var"}, {`c = Count; d = Absent; return [c, Name, $Name];`, "ARRAY:[3, var, var]"},
	} {
		id := fmt.Sprintf("precedence/%d", i)
		if !c.Want(id) {
			continue
		}
		evr, err := eng.New(tc.script, eng.Options{Vars: map[string]model.Value{"Name": model.Str("var")}})
		c.Case(id, true)
		if err != nil {
			continue
		}
		if got := evr.Exec(map[string]interface{}{"Name": "field", "Count": 3}).Desc(); got != tc.want {
			c.Violation(id, "variable does not take precedence over a field", map[string]interface{}{"summary": fmt.Sprintf("%s gives %s, expected %s", tc.script, got, tc.want), "script": tc.script})
		}
	}
}

func kindOf(s *gen.FieldSpec) string {
	if s == nil {
		return "absent"
	}
	k := s.Kind
	if !s.Exported {
		k += " (unexported)"
	}
	return k
}

// c04Expect: what the script shape number si returns for a field value.
func c04Expect(si int, v model.Value) string {
	in := &model.Interp{}
	_ = in
	switch si {
	case 0, 2:
		return v.Describe()
	case 1:
		ln := model.Int(0)
		switch v.K {
		case model.KArr:
			ln = model.Int(int64(len(v.A)))
		case model.KHash:
			ln = model.Int(int64(len(v.H)))
		default:
			ln = model.Int(int64(len([]rune(v.Print()))))
		}
		return model.Arr(model.Str(lowerType(v)), ln).Describe()
	case 3:
		switch v.K {
		case model.KArr:
			if len(v.A) > 0 {
				return v.A[0].Describe()
			}
			return "NULL:null"
		case model.KStr:
			rs := []rune(v.S)
			if len(rs) > 0 {
				return "STRING:" + string(rs[0])
			}
			return "NULL:null"
		case model.KHash:
			if x, ok := v.HashGet(model.Int(0)); ok {
				return x.Describe()
			}
			return "NULL:null"
		}
		return "error"
	case 4:
		return model.Arr(v, model.Null(), v).Describe()
	}
	return "?"
}

func lowerType(v model.Value) string {
	switch v.K {
	case model.KInt:
		return "integer"
	case model.KFloat:
		return "float"
	case model.KStr:
		return "string"
	case model.KBool:
		return "boolean"
	case model.KArr:
		return "array"
	case model.KHash:
		return "hash"
	case model.KNull:
		return "null"
	}
	return "?"
}

func c04Dot(v model.Value, name string) string {
	switch v.K {
	case model.KHash:
		x, _ := v.HashGet(model.Str(name))
		return x.Describe()
	case model.KArr, model.KStr:
		return "error" // index must be an integer
	}
	return "error"
}

func c04Dot2(v model.Value, a, b string) string {
	if v.K != model.KHash {
		return "error"
	}
	x, _ := v.HashGet(model.Str(a))
	return c04Dot(x, b)
}

// c04HostileInChild: objects with fields the engine cannot represent (cyclic maps and
// slices, cyclic members inside slices, functions, channels, typed nils ...) are read by
// field-touching scripts in a child process: every call gives a value or an error - a
// crash of the child (fatal stack overflow cannot be recovered) is a violation.
func c04HostileInChild(c *ev.Ctx) {
	if !c.Want("hostile-objects") {
		return
	}
	var cases []c08Case
	scripts := c08ObjectScripts([]string{"F0", "F1", "A", "M", "Items"})
	for idx := range gen.HostileValues() {
		for _, sc := range scripts {
			cases = append(cases, c08Case{ID: fmt.Sprintf("hostile/%d/%d", idx, len(cases)), Kind: "hostile", ObjIdx: idx, Script: sc, NoOpt: len(cases)%2 == 0})
		}
	}
	work := filepath.Join(ev.Root, "work", fmt.Sprintf("c04-%d", os.Getpid()))
	os.MkdirAll(work, 0o755)
	defer os.RemoveAll(work)
	self, _ := os.Executable()
	bf := filepath.Join(work, "batch.json")
	data, _ := json.Marshal(cases)
	os.WriteFile(bf, data, 0o644)
	start := 0
	for attempt := 0; start < len(cases) && attempt < 30; attempt++ {
		lf := filepath.Join(work, fmt.Sprintf("log-%d.txt", attempt))
		ef := filepath.Join(work, fmt.Sprintf("err-%d.txt", attempt))
		cmd := exec.Command("timeout", "-s", "QUIT", "600", "bash", "-c", fmt.Sprintf("ulimit -v 8000000; exec %q worker c08 %q %q %d >/dev/null 2>%q", self, bf, lf, start, ef))
		cmd.Run()
		done, last, results := c08ParseLog(lf)
		for idx, res := range results {
			c.Case("hostile"+cases[idx].ID, true)
			if !strings.HasPrefix(res, "ok") {
				c.Violation(cases[idx].ID, "unrepresentable field: "+c08Class(res), map[string]interface{}{"summary": fmt.Sprintf("%s\n  object #%d of the hostile list, script: %s", res, cases[idx].ObjIdx, cases[idx].Script), "case": cases[idx]})
			}
		}
		if done {
			break
		}
		if last < 0 {
			c.Inconclusive("hostile-object worker produced no log")
			break
		}
		eb, _ := os.ReadFile(ef)
		first := string(eb)
		if i := strings.Index(first, "\n\n"); i > 0 {
			first = first[:i]
		}
		c.Violation(cases[last].ID, "process died on an unrepresentable field: "+clip(strings.SplitN(first, "\n", 2)[0], 60), map[string]interface{}{
			"summary": fmt.Sprintf("the process died while a script read an object with a field the engine cannot represent: %s\n  object #%d of the hostile list, script: %s", clip(first, 400), cases[last].ObjIdx, cases[last].Script), "case": cases[last]})
		start = last + 1
	}
	c.Count("hostile_object_cases", len(cases))
}

type c04Rec struct {
	Name  string
	Count int
	Tags  []string
	Meta  map[string]interface{}
	Ratio float64
}

// c04SameReference: a host keeps one record (pointer to struct, map) and changes it between
// runs: every run sees the current contents - changed values, deleted and added keys - also
// when the script reads the fields inside user functions and loops.
func c04SameReference(c *ev.Ctx) {
	scripts := []string{
		`return [Name, Count, Tags, Meta, Ratio];`,
		`function rd() { return [Name, Count]; } a = rd(); return [a, Name, len(Tags), Meta.k, Extra];`,
		`r = []; foreach t1 in Tags { r = [t1, Count]; } return [r, Name, Extra];`,
		`if (Count > 1) { return Name + string(Count); } return [Name, keys(Meta)];`,
	}
	for si, script := range scripts {
		for _, noOpt := range []bool{false, true} {
			id := fmt.Sprintf("same-reference/%d/%v", si, noOpt)
			if !c.Want(id) {
				continue
			}
			// one used evaluator per record, so that consecutive runs get the very same reference
			usedA, err := eng.New(script, eng.Options{NoOptimize: noOpt})
			if err != nil {
				continue
			}
			usedB, _ := eng.New(script, eng.Options{NoOptimize: noOpt})
			useds := []*eng.Evaluator{usedA, usedB}
			rec := &c04Rec{Name: "one", Count: 1, Tags: []string{"a"}, Meta: map[string]interface{}{"k": 1}, Ratio: 0.5}
			doc := map[string]interface{}{"Name": "one", "Count": 1, "Tags": []interface{}{"a"}, "Meta": map[string]interface{}{"k": 1}, "Ratio": 0.5}
			for step := 0; step < 6; step++ {
				switch step {
				case 1:
					rec.Name, rec.Count = "two", 2
					doc["Name"], doc["Count"] = "two", 2
				case 2:
					rec.Tags = append(rec.Tags, "b")
					rec.Meta["k"] = "changed"
					doc["Tags"] = []interface{}{"a", "b"}
					doc["Meta"].(map[string]interface{})["k"] = "changed"
				case 3:
					rec.Meta = nil
					rec.Tags = nil
					delete(doc, "Meta")
					delete(doc, "Tags")
					doc["Extra"] = "added"
				case 4:
					rec.Name, rec.Ratio = "", -1.5
					doc["Name"] = ""
					delete(doc, "Extra")
				case 5:
					*rec = c04Rec{Name: "five", Count: 5, Tags: []string{"z"}, Meta: map[string]interface{}{"k": 5}}
					for k := range doc {
						delete(doc, k)
					}
					doc["Count"] = 5
				}
				for oi, obj := range []interface{}{rec, doc} {
					fresh, err := eng.New(script, eng.Options{NoOptimize: noOpt})
					if err != nil {
						continue
					}
					got, want := useds[oi].Exec(obj), fresh.Exec(obj)
					c.Case(fmt.Sprint(id, step, oi), true)
					if got.Desc() != want.Desc() || errText(got.Err) != errText(want.Err) {
						c.Violation(id, "a run does not see the current contents of the object it is given", map[string]interface{}{
							"summary": fmt.Sprintf("%s (noopt=%v), the same %s given again after the host changed it (step %d): the used evaluator gives %s %s, a fresh one %s %s", script, noOpt, []string{"pointer to a struct", "map"}[oi], step, got.Desc(), errText(got.Err), want.Desc(), errText(want.Err)), "script": script})
						return
					}
				}
			}
		}
	}
}

// C04Audit is embedded in the documents below (an exported type, so that its fields
// could be reached by an engine that promotes them).
type C04Audit struct {
	Name string
	By   string
	Size int
}

// C04Stamp is a second embedded type with overlapping field names.
type C04Stamp struct {
	Size float64
	At   string
}

type c04DocFirst struct {
	C04Audit
	Name string
	Size int
}

type c04DocLast struct {
	Name string
	Size int
	C04Audit
}

type c04DocTwo struct {
	Size int
	C04Stamp
	Name string
	C04Audit
	Tags []string
}

// c04Tagged carries struct tags, as records that are also written out as JSON or YAML do.
// A script names fields by their Go names; tags mean nothing to it.
type c04Tagged struct {
	Name   string   `json:"name"`
	SentAt int      `json:"sent_at,omitempty" yaml:"sentAt"`
	Size   float64  `json:"-"`
	Keep   []string `json:"keep" xml:"k"`
	Plain  bool     `evalfilter:"flag" json:"Plain"`
	Other  string   `json:",omitempty"`
}

var c04MethodCalls int64

// c04Tempting has fields, and methods a careless engine could take for fields.
type c04Tempting struct {
	Count int
	Label string
}

func (t c04Tempting) Archive() error    { atomic.AddInt64(&c04MethodCalls, 1); return nil }
func (t c04Tempting) Save() bool        { atomic.AddInt64(&c04MethodCalls, 1); return true }
func (t c04Tempting) Total() int        { atomic.AddInt64(&c04MethodCalls, 1); return 99 }
func (t c04Tempting) String() string    { atomic.AddInt64(&c04MethodCalls, 1); return "stringer" }
func (t *c04Tempting) Delete() error    { atomic.AddInt64(&c04MethodCalls, 1); return nil }
func (t *c04Tempting) Describe() string { atomic.AddInt64(&c04MethodCalls, 1); return "ptr" }

// c04Shapes: host objects whose shape could mislead the conversion - one map, slice or
// nested document reachable through two fields (no cycle anywhere), several nil maps in one
// object, embedded structs whose field names repeat the object's own, and types with
// methods. Every own field reads as its own current value; names that are no field read
// as null and run no host code. (The stream is shared with C01.)
func c04Shapes(c *ev.Ctx) {
	addr := map[string]interface{}{"city": "Oslo", "zip": 150, "geo": map[string]interface{}{"lat": 59.9}}
	tags := []interface{}{"a", "b"}
	var nilA, nilB map[string]interface{}
	var nilC map[string]string
	type contact struct {
		Billing map[string]interface{}
		Postal  map[string]interface{}
		Third   map[string]interface{}
		TagsA   []interface{}
		TagsB   []interface{}
	}
	type nils struct {
		A map[string]interface{}
		B map[string]interface{}
		C map[string]string
		D []interface{}
		E []interface{}
		N int
	}
	cases := []struct {
		name, script, want string
		obj                interface{}
	}{
		{"one map behind two fields", `return [Billing.city, Postal.city, Third["zip"], Postal["zip"], len(Postal), type(Postal), type(Third), Postal.geo.lat, Billing.geo.lat, TagsA, TagsB];`, "ARRAY:[Oslo, Oslo, 150, 150, 3, hash, hash, 59.9, 59.9, [a, b], [a, b]]",
			contact{Billing: addr, Postal: addr, Third: addr, TagsA: tags, TagsB: tags}},
		{"one map behind two fields, by pointer", `return [Postal.city, Billing.city, len(Billing) == len(Postal), Third.geo.lat, len(TagsB)];`, "ARRAY:[Oslo, Oslo, true, 59.9, 2]",
			&contact{Billing: addr, Postal: addr, Third: addr, TagsA: tags, TagsB: tags}},
		{"one map behind two keys of a document", `return [a.city, b.city, c.inner.city, e.x.city, e.y.zip, len(b), len(c.inner), string(e.y.geo) == string(e.x.geo), a.geo.lat + b.geo.lat];`, "ARRAY:[Oslo, Oslo, Oslo, Oslo, 150, 3, 3, true, 119.8]",
			map[string]interface{}{"a": addr, "b": addr, "c": map[string]interface{}{"inner": addr}, "e": map[string]interface{}{"x": addr, "y": addr}}},
		{"several nil maps and slices in one object", `return [type(A), type(B), type(C), len(A), len(B), len(C), len(D), len(E), N, A == B];`, "",
			nils{A: nilA, B: nilB, C: nilC, N: 4}},
		{"embedded struct first, own fields later", `return [Name, Size];`, "ARRAY:[outer, 3]", c04DocFirst{C04Audit: C04Audit{Name: "inner", By: "bob", Size: 77}, Name: "outer", Size: 3}},
		{"own fields first, embedded struct last", `return [Name, Size];`, "ARRAY:[outer, 3]", c04DocLast{Name: "outer", Size: 3, C04Audit: C04Audit{Name: "inner", By: "bob", Size: 77}}},
		{"own fields first, embedded struct last, by pointer", `return [Name, Size, Name + "!"];`, "ARRAY:[outer, 3, outer!]", &c04DocLast{Name: "outer", Size: 3, C04Audit: C04Audit{Name: "inner", By: "bob", Size: 77}}},
		{"two embedded structs between own fields", `return [Size, Name, Tags, type(Size)];`, "ARRAY:[3, outer, [t], integer]", c04DocTwo{Size: 3, C04Stamp: C04Stamp{Size: 1.5, At: "noon"}, Name: "outer", C04Audit: C04Audit{Name: "inner", Size: 77}, Tags: []string{"t"}}},
		{"two embedded structs between own fields, by pointer", `return [Size, Name, Tags];`, "ARRAY:[3, outer, [t]]", &c04DocTwo{Size: 3, C04Stamp: C04Stamp{Size: 1.5, At: "noon"}, Name: "outer", C04Audit: C04Audit{Name: "inner", Size: 77}, Tags: []string{"t"}}},
		{"struct tags do not rename fields", `return [Name, SentAt, Size, Keep, Plain, Other, name, sent_at, sentAt, keep, k, flag];`, "ARRAY:[n, 5, 1.5, [x], true, o, null, null, null, null, null, null]", c04Tagged{Name: "n", SentAt: 5, Size: 1.5, Keep: []string{"x"}, Plain: true, Other: "o"}},
		{"struct tags do not rename fields, by pointer", `return [Name + "!", SentAt + 1, len(Keep), name, keep];`, "ARRAY:[n!, 6, 1, null, null]", &c04Tagged{Name: "n", SentAt: 5, Size: 1.5, Keep: []string{"x"}, Plain: true, Other: "o"}},
		{"methods are not fields", `return [Archive, Save, Total, String, Delete, Describe, Count, Label];`, "ARRAY:[null, null, null, null, null, null, 2, l]", c04Tempting{Count: 2, Label: "l"}},
		{"methods are not fields, by pointer", `if (Count > 1 && Archive) { return "ran"; } x = Delete; y = Total; return [x, y, Save ? 1 : 0, Count, Label, $Describe];`, "ARRAY:[null, null, 0, 2, l, null]", &c04Tempting{Count: 2, Label: "l"}},
	}
	for ci, tc := range cases {
		for _, noOpt := range []bool{false, true} {
			id := fmt.Sprintf("shapes/%d/%v", ci, noOpt)
			if !c.Want(id) {
				continue
			}
			evr, err := eng.New(tc.script, eng.Options{NoOptimize: noOpt})
			c.Case(id, true)
			if err != nil {
				c.Violation(id, "prepare", map[string]interface{}{"summary": "Prepare failed: " + err.Error(), "script": tc.script})
				continue
			}
			before := atomic.LoadInt64(&c04MethodCalls)
			first := ""
			for run := 1; run <= 3; run++ {
				o := evr.Exec(tc.obj)
				got := o.Desc() + " " + errText(o.Err)
				if run == 1 {
					first = got
				}
				if (tc.want != "" && o.Desc() != tc.want) || o.Panicked || got != first {
					c.Violation(id, "object shape: "+tc.name, map[string]interface{}{
						"summary": fmt.Sprintf("%s - %s over %T (noopt=%v, run %d) gives %s, expected %s (run 1 gave %s)", tc.name, tc.script, tc.obj, noOpt, run, got, tc.want, first), "script": tc.script})
					break
				}
			}
			if n := atomic.LoadInt64(&c04MethodCalls) - before; n != 0 {
				c.Violation(id, "a script ran methods of the host object", map[string]interface{}{
					"summary": fmt.Sprintf("%s - %s over %T: %d method call(s) on the host object were made by naming them; only functions the host registers may be reached", tc.name, tc.script, tc.obj, n), "script": tc.script})
			}
		}
	}
}

// c04DeadNames: a parameter, local or loop variable that no longer exists - its function
// has returned, its loop was left (also early, also by an error in an earlier run) - does
// not stand between a script and the field of the same name: in a later scope at the same
// depth, in a later run with another object, the name is the field again (or null).
func c04DeadNames(c *ev.Ctx) {
	cases := []struct {
		script string
		objs   []map[string]interface{}
		want   []string
	}{
		{`function tag(Name) { return "tag:" + Name; } a = tag("root"); foreach e in [1] { seen = Name; } return [a, seen, Name];`,
			[]map[string]interface{}{{"Name": "bob"}, {"Name": "eve"}}, []string{"ARRAY:[tag:root, bob, bob]", "ARRAY:[tag:root, eve, eve]"}},
		{`function f(zz) { local yy; yy = zz; return yy; } a = f(5); foreach e in [1] { r = [zz, yy]; } function g() { return [zz, yy]; } return [a, r, g()];`,
			[]map[string]interface{}{{}, {"zz": 1}}, []string{"ARRAY:[5, [null, null], [null, null]]", "ARRAY:[5, [1, null], [1, null]]"}},
		{`foreach Count in [7, 8, 9] { if (Count == 8) { return inner(); } } function inner() { return Count; }`,
			[]map[string]interface{}{{"Count": 3}, {"Count": 4}}, []string{"INTEGER:8", "INTEGER:8"}},
		{`if (Leave) { foreach Count in [7, 8, 9] { if (Count == 8) { return "left"; } } } foreach other in [1] { got = Count; } return got;`,
			[]map[string]interface{}{{"Count": 3, "Leave": true}, {"Count": 4, "Leave": false}, {"Leave": false}}, []string{"STRING:left", "INTEGER:4", "NULL:null"}},
		{`function boom(Size) { return Size / Zero; } if (Bad) { x = boom(9); } function peek() { return Size; } foreach e in [1] { s = Size; } return [s, peek()];`,
			[]map[string]interface{}{{"Size": 1, "Bad": true, "Zero": 0}, {"Size": 2, "Bad": false}, {"Bad": false}}, []string{"error", "ARRAY:[2, 2]", "ARRAY:[null, null]"}},
		{`function outer(Name) { return middle(); } function middle() { foreach i in [1] { n = Name; } return n; } a = outer("param"); b = middle(); return [a, b];`,
			[]map[string]interface{}{{"Name": "field"}}, []string{"ARRAY:[param, field]"}},
	}
	for ci, tc := range cases {
		for _, noOpt := range []bool{false, true} {
			id := fmt.Sprintf("dead-names/%d/%v", ci, noOpt)
			if !c.Want(id) {
				continue
			}
			evr, err := eng.New(tc.script, eng.Options{NoOptimize: noOpt})
			c.Case(id, true)
			if err != nil {
				c.Violation(id, "prepare", map[string]interface{}{"summary": "Prepare failed: " + err.Error(), "script": tc.script})
				continue
			}
			for round := 0; round < 2; round++ {
				for oi, obj := range tc.objs {
					o := evr.Exec(obj)
					if o.Desc() != tc.want[oi] {
						c.Violation(id, "a name that is gone hides a field", map[string]interface{}{
							"summary": fmt.Sprintf("%s over %v (noopt=%v, round %d) gives %s %s, expected %s", tc.script, obj, noOpt, round+1, o.Desc(), errText(o.Err), tc.want[oi]), "script": tc.script})
						round = 2
						break
					}
				}
			}
		}
	}
}
