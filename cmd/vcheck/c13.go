package main

import (
	"fmt"
	"strings"

	"verif/internal/eng"
	"verif/internal/ev"
	"verif/internal/gast"
	"verif/internal/gen"
)

func init() { register("C13", "exploration", c13) }

// statement-level invalid fragments (each invalid wherever a statement may stand)
var c13StmtFrags = []struct{ name, text string }{
	{"assign to integer", "3 = 4;"},
	{"compound assign to integer", "3 += 1;"},
	{"compound assign to string", `"s" -= 1;`},
	{"compound assign to call", "f() *= 2;"},
	{"assign to call", "f() = 2;"},
	{"assign to index", "a[0] = 1;"},
	{"compound assign to index", "a[0] /= 1;"},
	{"assign to field access", "a.b = 1;"},
	{"assign to sum", "a + b = 1;"},
	{"missing right operand", "a = 1 + ;"},
	{"missing left operand", "a = * 2;"},
	{"missing operand in parens", "a = (1 + );"},
	{"empty parens", "a = ();"},
	{"empty index", "a = b[];"},
	{"missing assigned value", "a = ;"},
	{"return without value", "return ;"},
	{"double operator", "a = 1 + * 2;"},
	{"dangling comparison", "a = b == ;"},
	{"range without end", "a = 1 .. ;"},
	{"illegal character for the brace of a foreach", "foreach e in [1, 2] @ b = e; }"},
	{"closing parenthesis for the brace of a foreach", "foreach e in [1, 2] ) b = e; }"},
	{"no brace after the iterated expression", "foreach e in [1, 2] b = e; }"},
	{"decrement without operand as assigned value", "a = --;"},
	{"increment where the right operand is missing", "a = b + ++;"},
	{"increment as array element", "a = [1, ++];"},
	{"increment of a literal", "3++;"},
	{"increment of an indexed value", "a[0]++;"},
	{"negated increment", "a = -++;"},
	{"compound assignment to literal as switch value", "switch (1 += 2) { default { b = 1; } }"},
	{"compound assignment to literal as callee", "(1 += 2)(3);"},
	{"compound assignment to literal after a dot", "a.(1 += 2);"},
	{"compound assignment to literal as switch value with cases", "switch (1 -= 2) { case 1 { b = 1; } }"},
	{"illegal character as loop variable", "foreach # in [1, 2] { b = 1; }"},
	{"illegal character as index variable", "foreach #, e in [1, 2] { b = e; }"},
	{"illegal character as second loop variable", "foreach i, @ in [1, 2] { b = i; }"},
	{"number as loop variable", "foreach 3 in [1, 2] { b = 1; }"},
	{"string as loop variable", "foreach \"e\" in [1, 2] { b = 1; }"},
	{"illegal character as local name", "function o6() { local #; return 1; }"},
	{"illegal character as function name", "function #() { return 1; }"},
	{"number as function name", "function 3() { return 1; }"},
	{"string as function name", "function \"f\"() { return 1; }"},
	{"illegal character as parameter", "function o7(a, #) { return a; }"},
	{"illegal character after a parameter", "function o7(a @) { return a; }"},
	{"number as parameter", "function o7(1) { return 1; }"},
	{"string as parameter", "function o7(a, \"s\") { return a; }"},
	{"keyword as parameter", "function o7(if) { return 1; }"},
	{"expression as parameter", "function o7(a + b) { return 1; }"},
	{"nested ternary inside a block in the true arm", "a = b ? if (c) { d ? 1 : 2; } : 3;"},
	{"nested ternary after a block in the true arm", "a = b ? [ if (c) { 1; }, d ? 1 : 2 ] : 3;"},
	{"nested ternary inside a loop in the false arm", "a = b ? 1 : foreach e in [1] { d ? 1 : 2; };"},
	{"nested ternary inside a function body in an arm", "a = b ? function o5() { return d ? 1 : 2; } : 3;"},
	{"nested ternary inside a while body in an arm", "a = b ? while (c) { y = d ? 1 : 2; } : 3;"},
	{"nested ternary inside a switch arm in an arm", "a = b ? switch (c) { case 1 { y = d ? 1 : 2; } } : 3;"},
	{"nested ternary after a block in the false arm", "a = b ? 1 : if (c) { y = 1; } + (d ? 1 : 2);"},
	{"nested ternary inside two blocks in an arm", "a = b ? if (c) { if (d) { y = 1; } y = d ? 1 : 2; } : 3;"},
	{"nested ternary in true arm", "a = b ? (c ? 1 : 2) : 3;"},
	{"nested ternary in false arm", "a = b ? 1 : c ? 2 : 3;"},
	{"nested ternary in false arm parenthesised", "a = b ? 1 : (c ? 2 : 3);"},
	{"nested ternary inside call in arm", "a = b ? f(c ? 1 : 2) : 3;"},
	{"ternary without colon", "a = b ? 1;"},
	{"illegal character @", "a = 1 @ 2;"},
	{"illegal character #", "a = #;"},
	{"illegal character ^", "a = 1 ^ 2;"},
	{"illegal character backtick", "a = `x`;"},
	{"illegal character backslash", "a = 1 \\ + 2;"},
	{"illegal character NUL between tokens", "a = 1 \x00 + 2;"},
	{"illegal character NUL between statements", "a = 1;\x00 b = 2;"},
	{"illegal character NUL as the very last character", "a = 1;\x00"},
	{"illegal character NUL ending a trailing comment", "a = 1; // c\x00"},
	{"illegal character NUL after the last brace", "if (a) { b = 1; }\x00"},
	{"illegal character NUL in a comment", "a = 1; // c\x00 \n b = 2;"},
	{"illegal character SOH", "a = 1 \x01 + 2;"},
	{"illegal character vertical tab", "a = 1 \x0b + 2;"},
	{"illegal character form feed", "a = 1 \x0c + 2;"},
	{"illegal character ESC", "a = 1 \x1b + 2;"},
	{"illegal character DEL", "a = 1 \x7f + 2;"},
	{"illegal character NEL", "a = 1 \u0085 + 2;"},
	{"illegal character no-break space", "a = 1 \u00a0 + 2;"},
	{"illegal character soft hyphen", "a = 1 \u00ad + 2;"},
	{"illegal character ogham space", "a = 1 \u1680 + 2;"},
	{"illegal character em space", "a = 1 \u2003 + 2;"},
	{"illegal character zero width space", "a = 1 \u200b + 2;"},
	{"illegal character line separator", "a = 1; \u2028 b = 2;"},
	{"illegal character paragraph separator", "a = 1; \u2029 b = 2;"},
	{"illegal character narrow no-break space", "a = 1 \u202f + 2;"},
	{"illegal character ideographic space", "a = 1 \u3000 + 2;"},
	{"illegal character byte order mark", "a = 1; \ufeff b = 2;"},
	{"illegal character replacement character", "a = 1 \ufffd + 2;"},
	{"illegal byte 0xff", "a = 1 \xff + 2;"},
	{"single ampersand", "a = b & c;"},
	{"single pipe", "a = b | c;"},
	{"lone tilde", "a = ~b;"},
	{"unterminated parenthesis", "a = (1 + 2;"},
	{"unterminated array", "a = [1, 2;"},
	{"unterminated call", "a = f(1, 2;"},
	{"unterminated index", "a = b[1;"},
	{"unterminated hash", `a = {"k": 1;`},
	{"hash without colon", `a = {"k" 1};`},
	{"hash without value", `a = {"k": };`},
	{"if without parens", "if a { b = 1; }"},
	{"if without condition", "if () { b = 1; }"},
	{"while without condition", "while () { b = 1; }"},
	{"else without block", "if (a) { b = 1; } else b = 2;"},
	{"foreach without in", "foreach x [1] { b = 1; }"},
	{"foreach without iterable", "foreach x in { b = 1; }"},
	{"switch case without block", "switch (a) { case 1 b = 1; }"},
	{"switch with two defaults", "switch (a) { default { b = 1; } default { b = 2; } }"},
	{"switch with stray statement", "switch (a) { b = 1; }"},
	{"function without parens", "function g { return 1; }"},
	{"local without name", "function g() { local ; }"},
	{"local with number", "function g() { local 3; }"},
	{"case expression missing", "switch (a) { case { b = 1; } }"},
	{"float with two points then op", "a = 1.2.3 + ;"},
	{"integer too large", "a = 99999999999999999999;"},
	{"bad regexp flag", "a = b ~= /x/q;"},
}

// fragments that swallow the rest of the input: placed last in their block
var c13OpenFrags = []struct{ name, text string }{
	{"unterminated double-quoted string", `a = "abc;`},
	{"unterminated single-quoted string", `a = 'abc;`},
	{"unterminated string with escape at end", `a = "abc\`},
	{"single-quoted string whose only closing quote is escaped", `a = 'abc\';`},
	{"double-quoted string whose only closing quote is escaped", `a = "abc\";`},
	{"single-quoted string with an escaped quote inside and no end", `a = 'it\'s;`},
	{"double-quoted string ending in an escaped backslash and an escaped quote", `a = "abc\\\";`},
	{"single-quoted string closed by the other quote", `a = 'abc";`},
	{"double-quoted string closed by the other quote", `a = "abc';`},
	{"regexp whose only closing slash is escaped", `a = b ~= /abc\/;`},
	{"unterminated regexp", `a = b ~= /abc;`},
	{"unterminated block", "if (a) { b = 1;"},
	{"unterminated else block", "if (a) { b = 1; } else { b = 2;"},
	{"unterminated while block", "while (a) { a--;"},
	{"unterminated foreach block", "foreach x in [1] { b = x;"},
	{"unterminated function body", "function g(p) { return p;"},
	{"unterminated parameter list", "function g(p, q"},
	{"unterminated parameter list then body", "function g(p, q { return p; }"},
	{"unterminated switch", "switch (a) { case 1 { b = 1; }"},
	{"unterminated case block", "switch (a) { case 1 { b = 1;"},
	{"unterminated hash literal", `a = {"k": 1, `},
	{"unterminated array literal", "a = [1, 2, "},
	{"unterminated call", "a = f(1, "},
	{"dangling operator at end", "a = 1 +"},
	{"dangling assignment at end", "a ="},
}

// `local` outside a function (invalid in every context that is not a function body)
var c13LocalFrag = "local x;"

// statement contexts with one hole; fn marks bodies of functions
var c13StmtCtx = []struct {
	name, pre, post string
	fn              bool
}{
	{"top level", "", "", false},
	{"if body", "if (c1) { ", " }", false},
	{"else body", "if (c1) { y = 1; } else { ", " }", false},
	{"else-if body", "if (c1) { y = 1; } else if (c2) { ", " } else { y = 2; }", false},
	{"while body", "while (c1) { ", " c1 = false; }", false},
	{"for body", "for (c1) { ", " c1 = false; }", false},
	{"foreach body", "foreach e in [1, 2] { ", " }", false},
	{"foreach index body", "foreach i, e in \"ab\" { ", " }", false},
	{"function body", "function h(p) { ", " return p; }", true},
	{"case body", "switch (c1) { case 1 { ", " } default { y = 1; } }", false},
	{"multi-value case body", "switch (c1) { case 1, 2, /x/ { ", " } }", false},
	{"default body", "switch (c1) { case 1 { y = 1; } default { ", " } }", false},
	{"after statement", "y = 1; ", " y = 2;", false},
	{"after return in if body", "if (c1) { return 1; ", " }", false},
	{"after return in else body", "if (c1) { y = 1; } else { return 2; ", " }", false},
	{"after return in while body", "while (c1) { return 1; ", " }", false},
	{"after return in foreach body", "foreach e in [1] { return e; ", " }", false},
	{"after return in function body", "function h2(p) { return p; ", " }", true},
	{"after return in case body", "switch (c1) { case 1 { return 1; ", " } }", false},
	{"after return at top level", "return 1; ", "", false},
	{"before return in if body", "if (c1) { ", " return 1; }", false},
}

// contexts used for `local` only: function definitions (also nested ones) that are
// complete before the `local` (a fragment that begins with an operator would continue
// the preceding `}`-terminated expression, which is a different matter)
var c13LocalCtx = []struct{ name, pre, post string }{
	{"after a function definition", "function o2(a) { local q; q = a; return q; } ", ""},
	{"after a nested function definition", "function o1() { function i1() { return 1; } return i1(); } ", ""},
	{"after a doubly nested function definition", "function o3() { function i3() { function j3() { return 1; } return j3(); } return i3(); } y = o3(); ", " y = 2;"},
	{"in if body after a nested function definition", "function o4() { function i4() { return 1; } } if (c1) { ", " }"},
	{"in while body after two nested function definitions", "function o5() { function i5() { return 1; } function k5() { return 2; } } while (c1) { c1 = false; ", " }"},
	{"after complete constructs", "if (c1) { y = 1; } while (c2) { c2 = false; } foreach e in [1] { y = e; } switch (c1) { default { y = 2; } } ", ""},
	{"between two function definitions", "function o6() { return 1; } ", " function o7() { local z; return 2; }"},
}

// expression-level invalid fragments
var c13ExprFrags = []struct{ name, text string }{
	{"missing right operand", "1 +"},
	{"missing left operand", "* 2"},
	{"operand missing in parens", "(1 + )"},
	{"empty parens", "()"},
	{"illegal character", "1 @ 2"},
	{"single ampersand", "b & c"},
	{"nested ternary", "b ? (c ? 1 : 2) : 3"},
	{"assignment to literal", "3 = 4"},
	{"compound assignment to literal", "3 += 4"},
	{"unbalanced bracket", "[1, 2"},
	{"unbalanced paren", "(1"},
	{"empty index", "b[]"},
	{"lone bang", "!"},
	{"lone minus", "-"},
	{"double comparison operator", "a == == b"},
	{"hash missing value", `{"k": }`},
	{"range without start", ".. 3"},
	{"integer too large", "99999999999999999999"},
	{"bad regexp flag", "/x/q"},
}

// expression contexts: a statement with one expression hole
var c13ExprCtx = []struct{ name, pre, post string }{
	{"if condition", "if (", ") { y = 1; }"},
	{"while condition", "while (", ") { y = 1; }"},
	{"switch value", "switch (", ") { case 1 { y = 1; } }"},
	{"case expression", "switch (c1) { case ", " { y = 1; } }"},
	{"second case value", "switch (c1) { case 1, ", " { y = 1; } }"},
	{"ternary condition", "y = ", " ? 1 : 2;"},
	{"ternary true arm", "y = c1 ? ", " : 2;"},
	{"ternary false arm", "y = c1 ? 1 : ", ";"},
	{"call argument", "y = len(", ");"},
	{"second call argument", "y = min(1, ", ");"},
	{"array element", "y = [", "];"},
	{"later array element", "y = [1, ", ", 3];"},
	{"hash key", "y = {", ": 1};"},
	{"hash value", "y = {\"k\": ", "};"},
	{"index expression", "y = arr[", "];"},
	{"indexed value", "y = (", ")[0];"},
	{"return value", "return ", ";"},
	{"assignment right side", "y = ", ";"},
	{"operand", "y = 1 + (", ");"},
	{"negated operand", "y = -(", ");"},
	{"foreach iterable", "foreach e in ", " { y = e; }"},
	{"compound assignment right side", "y += ", ";"},
	{"expression statement", "", ";"},
	{"range end", "y = 1 .. (", ");"},
	// places a compiler might not look at: entries of a hash literal that a later entry with
	// the same key replaces, the value of a switch that has no cases, a callee
	{"value of the first of two equal hash keys", "y = {\"k\": ", ", \"k\": 3};"},
	{"value of the second of two equal hash keys", "y = {\"k\": 3, \"k\": ", "};"},
	{"value among three equal hash keys", "y = {\"k\": 1, \"k\": ", ", \"k\": 3, \"j\": 4};"},
	{"key written twice, first", "y = {", ": 1, c2: 2};"},
	{"key written twice, second", "y = {c2: 1, ", ": 2};"},
	{"value of a switch without cases", "switch (", ") { default { y = 1; } }"},
	{"callee", "y = (", ")(3);"},
	{"element of an array that is indexed at once", "y = [c1, ", "][0];"},
	{"argument of a call whose result is dropped", "len(", ");"},
	{"condition that is constant false and", "if (false && ", ") { y = 1; }"},
	{"value after a return in the same block", "if (c1) { return 1; y = ", "; }"},
}

func c13(c *ev.Ctx) {
	c.SetRule("by-construction oracle: (1) invalid fragments from the property's list (unterminated strings / regexps / blocks / parameter lists / switches, missing operands, assignment or compound assignment to a non-variable, `local` outside a function, nested ternaries, illegal characters, ...) x enclosing contexts (top level, if / else / else-if / while / for / foreach / function / case / default bodies; if / while conditions, switch value, case expressions, ternary parts, call arguments, array and hash elements, index, return, assignment, operands, iterables) composed to depth 1-2 (quick) / up to 4 (thorough): Prepare must fail for every one; (2) token-boundary truncations of generated valid programs at points where a bracket is open. Distinct = distinct text; all non-trivial (the valid frame alone is checked to be accepted).")
	type pcase struct{ id, what, text string }
	var cases []pcase
	wrap := func(depth int, r interface{ Intn(int) int }, inner string, fnOK *bool) (string, string) {
		names := []string{}
		for d := 0; d < depth; d++ {
			k := r.Intn(len(c13StmtCtx))
			ctx := c13StmtCtx[k]
			if ctx.fn {
				*fnOK = true
			}
			inner = ctx.pre + inner + ctx.post
			names = append(names, ctx.name)
		}
		return inner, strings.Join(names, " < ")
	}
	// frames must themselves be valid: checked once
	for i, ctx := range c13StmtCtx {
		s := ctx.pre + "y = 0;" + ctx.post
		if _, err := eng.New(s, eng.Options{NoHook: true}); err != nil {
			c.Inconclusive(fmt.Sprintf("statement context %d (%s) is not accepted on its own: %v", i, ctx.name, err))
		}
	}
	for i, ctx := range c13ExprCtx {
		s := ctx.pre + "c2" + ctx.post
		if _, err := eng.New(s, eng.Options{NoHook: true}); err != nil {
			c.Inconclusive(fmt.Sprintf("expression context %d (%s) is not accepted on its own: %v", i, ctx.name, err))
		}
	}
	// depth 1: full product
	for fi, f := range c13StmtFrags {
		for ci, ctx := range c13StmtCtx {
			cases = append(cases, pcase{fmt.Sprintf("s1/%d/%d", fi, ci), f.name + " in " + ctx.name, ctx.pre + f.text + ctx.post})
		}
	}
	for fi, f := range c13OpenFrags {
		for ci, ctx := range c13StmtCtx {
			if !strings.HasPrefix(f.name, "dangling") {
				// (a dangling operator is only invalid when nothing follows it)
				cases = append(cases, pcase{fmt.Sprintf("o1/%d/%d", fi, ci), f.name + " in " + ctx.name, ctx.pre + f.text + ctx.post})
			}
			cases = append(cases, pcase{fmt.Sprintf("o1e/%d/%d", fi, ci), f.name + " at end inside " + ctx.name, ctx.pre + f.text})
		}
	}
	for ci, ctx := range c13StmtCtx {
		if !ctx.fn {
			cases = append(cases, pcase{fmt.Sprintf("l1/%d", ci), "local outside a function in " + ctx.name, ctx.pre + c13LocalFrag + ctx.post})
		}
	}
	for ci, ctx := range c13LocalCtx {
		if _, err := eng.New(ctx.pre+"y = 0;"+ctx.post, eng.Options{NoHook: true}); err != nil {
			c.Inconclusive(fmt.Sprintf("local context %d (%s) is not accepted on its own: %v", ci, ctx.name, err))
		}
		cases = append(cases, pcase{fmt.Sprintf("l2/%d", ci), "local outside a function " + ctx.name, ctx.pre + c13LocalFrag + ctx.post})
		cases = append(cases, pcase{fmt.Sprintf("l3/%d", ci), "local outside a function (in an if) " + ctx.name, ctx.pre + "if (c1) { " + c13LocalFrag + " }" + ctx.post})
	}
	// an unterminated regexp (or string) as the first thing after a closing brace: whether a
	// slash there divides or opens a regexp is the lexer's decision
	for bi, brace := range []string{"if (c1) { y = 1; } ", "if (c1) { y = 1; } else { y = 2; } ", "while (c2) { c2 = false; } ", "foreach e in [1] { y = e; } ", "switch (c1) { case 1 { y = 1; } } ", "function o8() { return 1; } ", `y = {"k": 1} `, `y = [{"k": 1} `} {
		for fi, frag := range []string{"/abc ~= x;", "/abc;", "/abc", "/ abc ~= x; y = 3;", "/=abc;", `"abc;`, "'abc"} {
			for ci, ctx := range c13StmtCtx {
				post := ctx.post
				if bi == 7 {
					post = "]; " + post
				}
				cases = append(cases, pcase{fmt.Sprintf("b1/%d/%d/%d", bi, fi, ci), "unterminated literal right after a closing brace in " + ctx.name, ctx.pre + brace + frag + post})
			}
		}
	}
	for fi, f := range c13ExprFrags {
		for ei, ectx := range c13ExprCtx {
			stmt := ectx.pre + f.text + ectx.post
			for ci, ctx := range c13StmtCtx {
				cases = append(cases, pcase{fmt.Sprintf("e1/%d/%d/%d", fi, ei, ci), f.name + " as " + ectx.name + " in " + ctx.name, ctx.pre + stmt + ctx.post})
			}
		}
	}
	// an illegal character followed by text that might be taken for the start of something
	// else (a comment, an operator, an interpreter line), anywhere a token may stand: on the
	// first line and on later ones, at the start of the script, after a statement, inside a
	// block and inside a literal. Whatever follows up to the end of the line would parse if
	// the character (and the rest of its line) were dropped.
	illegals := []string{"#", "@", "^", "`", "\\", "\u00a0", "\ufffd", "\x01"}
	followers := []string{"", "!", "!/usr/bin/evalfilter", "! x", "/", "//", "// c", "/*", "*", "=", "-", "#", ";", " ", "~", "|", "&", "$"}
	for ii, ill := range illegals {
		for fi, fol := range followers {
			hole := ill + fol
			spots := []string{
				hole + "\nreturn 1;", hole + " trailing\nreturn 1;", "return 1; " + hole + " trailing", "return 1; " + hole, "x = 3; " + hole + "\nreturn x;",
				"if ( true ) { x = 3 " + hole + "\n} return x;", "return len([1, 2 " + hole + ", \"unterminated ]\n]);", "return len([1, 2 " + hole + "\n]);",
				"x = 1;\n" + hole + "\nreturn x;", "x = 1;\nx = 2; " + hole + " y\nreturn x;", "// first line\n" + hole + "\nreturn 1;", "function f(a " + hole + "\n) { return a; } return f(1);",
				"return {\"k\": 1 " + hole + "\n};", "return (1 " + hole + "\n);", "return 1 + " + hole + "\n2;",
			}
			for si, sp := range spots {
				cases = append(cases, pcase{fmt.Sprintf("ill/%d/%d/s%d", ii, fi, si), "illegal character followed by something in a fixed spot", sp})
			}
			for ci, ctx := range c13StmtCtx {
				cases = append(cases, pcase{fmt.Sprintf("ill/%d/%d/c%d", ii, fi, ci), "illegal character followed by something in " + ctx.name, ctx.pre + "y = 1; " + hole + " rest\n y = 2;" + ctx.post})
			}
		}
	}
	// deeper, sampled
	deep := c.Pick(6000, 300000)
	maxDepth := c.Pick(2, 4)
	for k := 0; k < deep; k++ {
		r := c.Rng("deep", k)
		fn := false
		var inner, what string
		switch r.Intn(4) {
		case 0:
			f := c13StmtFrags[r.Intn(len(c13StmtFrags))]
			inner, what = f.text, f.name
		case 1:
			f := c13OpenFrags[r.Intn(len(c13OpenFrags)-2)] // not the two "dangling ... at end" ones
			inner, what = f.text, f.name
		case 2:
			inner, what = c13LocalFrag, "local outside a function"
		default:
			f := c13ExprFrags[r.Intn(len(c13ExprFrags))]
			e := c13ExprCtx[r.Intn(len(c13ExprCtx))]
			inner, what = e.pre+f.text+e.post, f.name+" as "+e.name
			if r.Intn(3) == 0 {
				e2 := c13ExprCtx[r.Intn(len(c13ExprCtx))]
				// nest the expression context once more through a parenthesised operand
				inner = e2.pre + "(" + e.pre + f.text + ")" + e2.post
				if e.post != ";" && e.pre != "" {
					inner = e.pre + f.text + e.post
				}
			}
		}
		text, path := wrap(2+r.Intn(maxDepth-1), r, inner, &fn)
		if what == "local outside a function" && fn {
			continue
		}
		cases = append(cases, pcase{fmt.Sprintf("deep/%d", k), what + " in " + path, text})
	}
	c.ParFor(len(cases), func(i int) {
		pc := cases[i]
		if !c.Want(pc.id) {
			return
		}
		c.Case(pc.text, true)
		for _, noOpt := range []bool{false, true} {
			evr, err := eng.New(pc.text, eng.Options{NoHook: true, NoOptimize: noOpt})
			if err == nil {
				o := evr.Exec(map[string]interface{}{})
				c.Violation(pc.id, "accepted: "+classOfC13(pc.what), map[string]interface{}{
					"summary": fmt.Sprintf("Prepare accepted an invalid script (%s); running it gave %s %s\n  script: %s", pc.what, o.Desc(), errText(o.Err), pc.text),
					"script":  pc.text, "what": pc.what})
				return
			}
		}
		if i%2500 == 0 {
			c.Sample(map[string]string{"script": pc.text, "invalid_because": pc.what})
		}
	})
	c.Extra("fragment_context_cases", len(cases))

	// (2) truncations of valid programs where a bracket is open
	n := c.Pick(300, 12000)
	c.ParFor(n, func(i int) {
		r := c.Rng("trunc", i)
		env := gen.NewEnv(r)
		pg := &gen.ProgGen{R: r, E: &gen.ExprGen{R: r, Env: env, Calls: true}, CondFields: 2, MaxDepth: 2 + r.Intn(2), MaxStmts: 3, Funcs: r.Intn(3), Mutators: true}
		p := pg.Program()
		toks := (&gast.Printer{Mode: gast.Minimal}).ProgramTokens(p)
		full := gast.Join(toks)
		if _, err := eng.New(full, eng.Options{NoHook: true}); err != nil {
			c.Violation(fmt.Sprintf("trunc/%d", i), "valid program rejected", map[string]interface{}{"summary": "generated valid program rejected: " + err.Error() + "\n  " + full, "script": full})
			return
		}
		depth := 0
		for k, t := range toks {
			if t.K == gast.TPunct {
				switch t.S {
				case "(", "[", "{":
					depth++
				case ")", "]", "}":
					depth--
				}
			}
			if depth <= 0 || k == len(toks)-1 {
				continue
			}
			id := fmt.Sprintf("trunc/%d/%d", i, k)
			if !c.Want(id) {
				continue
			}
			text := gast.Join(toks[:k+1])
			c.Case(text, true)
			if evr, err := eng.New(text, eng.Options{NoHook: true}); err == nil {
				o := evr.Exec(map[string]interface{}{})
				c.Violation(id, "accepted truncation", map[string]interface{}{
					"summary": fmt.Sprintf("Prepare accepted a program truncated with %d bracket(s) open; running it gave %s\n  script: %s", depth, o.Desc(), text), "script": text})
				return
			}
			c.Count("truncations_rejected", 1)
		}
	})
	c13IllegalAnywhere(c)
	// an invalid script stays invalid: refused on an evaluator that ran another script before,
	// and refused again when Prepare is asked a second and a third time (stream shared with C20)
	c20RePrepare(c)
}

// c13IllegalAnywhere: an illegal character put between any two tokens of a valid generated
// program (functions, loops with one and two variables, switches, literals of every kind)
// makes it invalid, whatever the neighbours are.
func c13IllegalAnywhere(c *ev.Ctx) {
	chars := []string{"#", "@", "^", "`", "\\", "\x01", "\x7f", "\u00a0", "\u2028", "\ufeff", "\ufffd", "\xff", "#!", "@@"}
	n := c.Pick(200, 8000)
	c.ParFor(n, func(i int) {
		r := c.Rng("illegal-anywhere", i)
		env := gen.NewEnv(r)
		pg := &gen.ProgGen{R: r, E: &gen.ExprGen{R: r, Env: env, Calls: true}, CondFields: 2, MaxDepth: 2 + r.Intn(2), MaxStmts: 3, Funcs: 1 + r.Intn(2), Mutators: true}
		p := pg.Program()
		toks := (&gast.Printer{Mode: gast.Minimal}).ProgramTokens(p)
		full := gast.Join(toks)
		if _, err := eng.New(full, eng.Options{NoHook: true}); err != nil {
			return // reported by the truncation stream
		}
		for k := 0; k <= len(toks); k++ {
			id := fmt.Sprintf("illegal-anywhere/%d/%d", i, k)
			if !c.Want(id) {
				continue
			}
			ch := chars[r.Intn(len(chars))]
			text := gast.Join(toks[:k]) + " " + ch + " " + gast.Join(toks[k:])
			c.Case(text, true)
			if evr, err := eng.New(text, eng.Options{NoHook: true, NoOptimize: k%2 == 0}); err == nil {
				o := evr.Exec(map[string]interface{}{})
				c.Violation(id, "accepted: illegal character between two tokens", map[string]interface{}{
					"summary": fmt.Sprintf("Prepare accepted a program with the illegal character %q before token %d; running it gave %s\n  script: %s", ch, k, o.Desc(), text), "script": text})
				return
			}
			c.Count("illegal_insertions_rejected", 1)
			// ... and standing in for the token itself (a brace, a keyword, an operand)
			if k < len(toks) {
				ch2 := chars[r.Intn(len(chars))]
				text2 := gast.Join(toks[:k]) + " " + ch2 + " " + gast.Join(toks[k+1:])
				c.Case(text2, true)
				if evr, err := eng.New(text2, eng.Options{NoHook: true, NoOptimize: k%2 == 1}); err == nil {
					o := evr.Exec(map[string]interface{}{})
					c.Violation(id+"/r", "accepted: illegal character in place of a token", map[string]interface{}{
						"summary": fmt.Sprintf("Prepare accepted a program in which the illegal character %q stands for token %d (%q); running it gave %s\n  script: %s", ch2, k, toks[k].S, o.Desc(), text2), "script": text2})
					return
				}
				c.Count("illegal_replacements_rejected", 1)
			}
		}
	})
}

func classOfC13(what string) string {
	if i := strings.Index(what, " in "); i > 0 {
		return what[:i]
	}
	return what
}
