package main

import (
	"fmt"
	"math"

	"github.com/skx/evalfilter/v2/object"

	"verif/internal/eng"
	"verif/internal/ev"
	"verif/internal/gast"
	"verif/internal/gen"
	"verif/internal/model"
)

func init() { register("C05", "exploration", c05) }

type truthInst struct {
	name  string
	expr  string // how a script names the value
	truth bool
	kind  string // BOOLEAN / NULL / other: decides `!`
}

// host values handed out by hv(n): freshly allocated objects of every type
func c05HostValues() []object.Object {
	return []object.Object{
		&object.Boolean{Value: true}, &object.Boolean{Value: false}, &object.Null{},
		&object.Integer{Value: 0}, &object.Integer{Value: 1}, &object.Integer{Value: -1},
		&object.Float{Value: 0}, &object.Float{Value: 0.25}, &object.Float{Value: -0.5},
		&object.Float{Value: math.Inf(1)}, &object.Float{Value: math.Inf(-1)}, &object.Float{Value: math.MaxFloat64}, &object.Float{Value: math.SmallestNonzeroFloat64}, &object.Float{Value: math.Copysign(0, -1)},
		&object.Integer{Value: math.MaxInt64}, &object.Integer{Value: math.MinInt64},
		&object.String{Value: ""}, &object.String{Value: "x"}, &object.String{Value: "false"}, &object.String{Value: "0"},
		&object.Array{Elements: []object.Object{}}, &object.Array{Elements: []object.Object{&object.Boolean{Value: false}}},
		&object.Hash{Pairs: map[object.HashKey]object.HashPair{}},
		&object.Regexp{Value: ""}, &object.Regexp{Value: "a"},
	}
}

func truthOfObj(o object.Object) (bool, string) {
	switch v := o.(type) {
	case *object.Boolean:
		return v.Value, "BOOLEAN"
	case *object.Null:
		return false, "NULL"
	case *object.Integer:
		return v.Value > 0, "other"
	case *object.Float:
		return v.Value > 0, "other"
	case *object.String:
		return v.Value != "", "other"
	case *object.Array:
		return len(v.Elements) > 0, "other"
	case *object.Hash:
		return len(v.Pairs) > 0, "other"
	case *object.Regexp:
		return v.Value != "", "other"
	}
	return false, "other"
}

type c05Struct struct {
	SBt bool
	SBf bool
	SI0 int
	SI5 int
	SF0 float64
	SFn float64
	SS0 string
	SSx string
	SA0 []string
	SA1 []int
}

func c05(c *ev.Ctx) {
	c.SetRule("truth table from the property statement x value instances of every type and origin (literal, comparison result, map field and struct field via reflection, built-in result, host-function result, SetVariable) x truth-consuming positions (if, while, ternary, && and || on either side, Run's boolean, !), plus all ordered pairs of instances under && and ||; thorough adds random nestings compared with the reference model. Exhaustive over the instance list. Distinct = distinct script; all are non-trivial.")
	// values that reach a script through objects of unusual shape keep their truth: a hash is a
	// hash behind every field that holds it (stream shared with C04)
	c04Shapes(c)
	var insts []truthInst
	add := func(name, expr string, truth bool, kind string) {
		insts = append(insts, truthInst{name, expr, truth, kind})
	}
	// literals
	for _, l := range []struct {
		e string
		t bool
		k string
	}{{"true", true, "BOOLEAN"}, {"false", false, "BOOLEAN"}, {"null", false, "NULL"}, {"0", false, "other"}, {"1", true, "other"}, {"(-1)", false, "other"}, {"70000", true, "other"}, {"255", true, "other"}, {"256", true, "other"}, {"257", true, "other"}, {"512", true, "other"}, {"4096", true, "other"}, {"65280", true, "other"}, {"65534", true, "other"}, {"65535", true, "other"}, {"65536", true, "other"}, {"(0 - 256)", false, "other"}, {"(256 - 256)", false, "other"}, {"256.0", true, "other"},
		{"0.0", false, "other"}, {"0.5", true, "other"}, {"(-0.5)", false, "other"}, {`""`, false, "other"}, {`"a"`, true, "other"}, {`"false"`, true, "other"}, {`"0"`, true, "other"},
		{"[]", false, "other"}, {"[0]", true, "other"}, {"{}", false, "other"}, {`{"a":0}`, true, "other"}, {"/a/", true, "other"}, {"(1..1)", true, "other"}} {
		add("literal "+l.e, l.e, l.t, l.k)
	}
	// comparison results
	add("comparison 1<2", "(1 < 2)", true, "BOOLEAN")
	add("comparison 2<1", "(2 < 1)", false, "BOOLEAN")
	add("comparison I5==5 (field)", "(MI5 == 5)", true, "BOOLEAN")
	add(`regexp test`, `("abc" ~= /b/)`, true, "BOOLEAN")
	add(`membership`, `(3 in [1,2])`, false, "BOOLEAN")
	// built-in results
	add("between true", "between(1,0,2)", true, "BOOLEAN")
	add("between false", "between(5,0,2)", false, "BOOLEAN")
	add("match true", `match("a", /a/)`, true, "BOOLEAN")
	add("match false", `match("b", /a/)`, false, "BOOLEAN")
	add("match wrong arity", `match("b")`, false, "BOOLEAN")
	add("int failure is null", `int("x")`, false, "NULL")
	add("len empty", `len("")`, false, "other")
	add("len 2", `len("ab")`, true, "other")
	add("trim to empty", `trim("  ")`, false, "other")
	add("keys of empty hash", `keys({})`, false, "other")
	add("split", `split("a,b", ",")`, true, "other")
	add("float zero", `float("0")`, false, "other")
	add("string of false", `string(false)`, true, "other")
	add("float infinity", `float("Inf")`, true, "other")
	add("float minus infinity", `float("-Inf")`, false, "other")
	add("overflowing power", `(10.0 ** 400)`, true, "other")
	add("sprintf of a blank", `sprintf("%s", " ")`, true, "other")
	// map fields (reflection allocates fresh objects)
	mapObj := map[string]interface{}{"MBt": true, "MBf": false, "MNil": nil, "MI0": 0, "MI5": 5, "MIn": -2, "MF0": 0.0, "MF1": 1.5, "MS0": "", "MSx": "x",
		"MA0": []interface{}{}, "MA1": []interface{}{false}, "MH0": map[string]interface{}{}, "MH1": map[string]interface{}{"k": false}, "MI64": int64(9),
		"MFinf": math.Inf(1), "MFninf": math.Inf(-1), "MFtiny": 5e-324, "MFhuge": 1.7e308, "MSblank": " ", "MStab": "\t\n"}
	for _, f := range []struct {
		n string
		t bool
		k string
	}{{"MBt", true, "BOOLEAN"}, {"MBf", false, "BOOLEAN"}, {"MNil", false, "NULL"}, {"MI0", false, "other"}, {"MI5", true, "other"}, {"MIn", false, "other"}, {"MF0", false, "other"}, {"MF1", true, "other"},
		{"MS0", false, "other"}, {"MSx", true, "other"}, {"MA0", false, "other"}, {"MA1", true, "other"}, {"MH0", false, "other"}, {"MH1", true, "other"}, {"MI64", true, "other"}, {"MAbsent", false, "NULL"},
		{"MFinf", true, "other"}, {"MFninf", false, "other"}, {"MFtiny", true, "other"}, {"MFhuge", true, "other"}, {"MSblank", true, "other"}, {"MStab", true, "other"}} {
		add("map field "+f.n, f.n, f.t, f.k)
	}
	// host function results
	hvals := c05HostValues()
	for i, o := range hvals {
		t, k := truthOfObj(o)
		add(fmt.Sprintf("host value %d %s", i, eng.Describe(o)), fmt.Sprintf("hv(%d)", i), t, k)
	}
	// SetVariable
	svars := map[string]object.Object{"VRe0": &object.Regexp{Value: ""}, "VRe1": &object.Regexp{Value: "z"}, "VBf": &object.Boolean{Value: false}, "VBt": &object.Boolean{Value: true},
		"VNull": &object.Null{}, "VI0": &object.Integer{Value: 0}, "VS0": &object.String{Value: ""}, "VA0": &object.Array{}}
	for _, n := range []string{"VRe0", "VRe1", "VBf", "VBt", "VNull", "VI0", "VS0", "VA0"} {
		t, k := truthOfObj(svars[n])
		add("variable "+n, n, t, k)
	}
	// struct fields
	structObj := &c05Struct{SBt: true, SI5: 5, SFn: -1, SSx: "x", SA1: []int{0}}
	sInsts := []truthInst{{"struct SBt", "SBt", true, "BOOLEAN"}, {"struct SBf", "SBf", false, "BOOLEAN"}, {"struct SI0", "SI0", false, "other"}, {"struct SI5", "SI5", true, "other"},
		{"struct SF0", "SF0", false, "other"}, {"struct SFn", "SFn", false, "other"}, {"struct SS0", "SS0", false, "other"}, {"struct SSx", "SSx", true, "other"}, {"struct SA0", "SA0", false, "other"}, {"struct SA1", "SA1", true, "other"}}

	opts := func(noOpt bool) eng.Options {
		return eng.Options{NoOptimize: noOpt, ObjVars: svars, Funcs: map[string]func([]object.Object) object.Object{
			"hv": func(args []object.Object) object.Object {
				// a fresh copy each call
				return eng.CloneObject(c05HostValues()[args[0].(*object.Integer).Value])
			}}}
	}
	bs := func(b bool) string {
		if b {
			return "BOOLEAN:true"
		}
		return "BOOLEAN:false"
	}
	tf := func(b bool) string {
		if b {
			return "STRING:T"
		}
		return "STRING:F"
	}
	check := func(id, script string, obj interface{}, want string, runWant *bool) {
		if !c.Want(id) {
			return
		}
		for _, noOpt := range []bool{false, true} {
			evr, err := eng.New(script, opts(noOpt))
			c.Case(script+fmt.Sprint(noOpt, obj == interface{}(structObj)), true)
			if err != nil {
				c.Violation(id, "truth/prepare", map[string]interface{}{"summary": "Prepare failed for " + script + ": " + err.Error(), "script": script})
				return
			}
			if runWant != nil {
				b, err, pan, msg := evr.RunBool(obj)
				if pan || err != nil || b != *runWant {
					c.Violation(id, "truth/Run "+script, map[string]interface{}{"summary": fmt.Sprintf("Run(%s) noopt=%v gave %v err=%v panic=%v %s, expected %v", script, noOpt, b, err, pan, msg, *runWant), "script": script})
				}
				continue
			}
			o := evr.Exec(obj)
			if o.Desc() != want {
				c.Violation(id, "truth "+script, map[string]interface{}{"summary": fmt.Sprintf("%s (noopt=%v) gave %s %s, expected %s", script, noOpt, o.Desc(), errText(o.Err), want), "script": script})
			}
		}
	}
	positions := func(in truthInst, obj interface{}, tag string) {
		x := in.expr
		check(tag+"/if/"+in.name, `if (`+x+`) { return "T"; } return "F";`, obj, tf(in.truth), nil)
		check(tag+"/ifelse/"+in.name, `if (`+x+`) { r = "T"; } else { r = "F"; } return r;`, obj, tf(in.truth), nil)
		check(tag+"/while/"+in.name, `while (`+x+`) { return "T"; } return "F";`, obj, tf(in.truth), nil)
		check(tag+"/for/"+in.name, `for (`+x+`) { return "T"; } return "F";`, obj, tf(in.truth), nil)
		check(tag+"/ternary/"+in.name, `return `+x+` ? "T" : "F";`, obj, tf(in.truth), nil)
		check(tag+"/cond-is-ternary-1/"+in.name, `if (hv(0) ? `+x+` : true) { return "T"; } return "F";`, obj, tf(in.truth), nil)
		check(tag+"/cond-is-ternary-2/"+in.name, `return (hv(0) ? `+x+` : false) ? "T" : "F";`, obj, tf(in.truth), nil)
		check(tag+"/cond-is-ternary-3/"+in.name, `return (hv(1) ? true : `+x+`) ? "T" : "F";`, obj, tf(in.truth), nil)
		check(tag+"/cond-is-ternary-4/"+in.name, `while (hv(1) ? false : `+x+`) { return "T"; } return "F";`, obj, tf(in.truth), nil)
		check(tag+"/and-left/"+in.name, `return `+x+` && true;`, obj, bs(in.truth), nil)
		check(tag+"/and-right/"+in.name, `return true && `+x+`;`, obj, bs(in.truth), nil)
		check(tag+"/or-left/"+in.name, `return `+x+` || false;`, obj, bs(in.truth), nil)
		check(tag+"/or-right/"+in.name, `return false || `+x+`;`, obj, bs(in.truth), nil)
		t := in.truth
		check(tag+"/run/"+in.name, `return `+x+`;`, obj, "", &t)
		nb := false
		switch in.kind {
		case "BOOLEAN":
			nb = !in.truth
		case "NULL":
			nb = true
		}
		check(tag+"/bang/"+in.name, `return !`+x+`;`, obj, bs(nb), nil)
		check(tag+"/bangbang/"+in.name, `return !!`+x+`;`, obj, bs(!nb), nil)
		check(tag+"/if-bang/"+in.name, `if (!`+x+`) { return "T"; } return "F";`, obj, tf(nb), nil)
	}
	c.ParFor(len(insts), func(i int) { positions(insts[i], mapObj, "pos") })
	c.ParFor(len(sInsts), func(i int) { positions(sInsts[i], structObj, "struct") })
	// all ordered pairs under && and ||
	np := len(insts) * len(insts)
	c.ParFor(np, func(k int) {
		a, b := insts[k/len(insts)], insts[k%len(insts)]
		check(fmt.Sprintf("pair-and/%d", k), "return "+a.expr+" && "+b.expr+";", mapObj, bs(a.truth && b.truth), nil)
		check(fmt.Sprintf("pair-or/%d", k), "return "+a.expr+" || "+b.expr+";", mapObj, bs(a.truth || b.truth), nil)
	})
	// comparison results of every origin, also with hostile numbers (NaN, infinities, -0):
	// whatever a comparison yields, `!`, `!!`, if, the ternary and a stored copy must agree
	// about it. No assumption is made about what the comparison itself yields.
	cmpObj := map[string]interface{}{"Nan": math.NaN(), "Inf": math.Inf(1), "Ninf": math.Inf(-1), "Nzero": math.Copysign(0, -1), "F0": 0.0, "F1": 1.5, "I0": 0, "I5": 5, "In": -2,
		"S0": "", "Sx": "x", "S5": "5", "Nil": nil, "Bt": true, "A1": []interface{}{1.5, "x"}}
	operands := []string{"Nan", "Inf", "Ninf", "Nzero", "F0", "F1", "I0", "I5", "In", "S0", "Sx", "S5", "Nil", "Bt", "1", "0.5", `"x"`, "(0 - 1)", "/x/"}
	cmpOps := []string{"<", "<=", ">", ">=", "==", "!=", "~=", "!~", "in"}
	nc := len(operands) * len(operands) * len(cmpOps)
	c.ParFor(nc, func(k int) {
		a, b, op := operands[k/(len(operands)*len(cmpOps))], operands[(k/len(cmpOps))%len(operands)], cmpOps[k%len(cmpOps)]
		if op == "in" {
			b = "[" + b + ", A1]"
		}
		id := fmt.Sprintf("cmp-consistency/%d", k)
		if !c.Want(id) {
			return
		}
		e := "(" + a + " " + op + " " + b + ")"
		script := "c = " + e + "; n = !" + e + "; m = !c; i = \"F\"; if " + e + " { i = \"T\"; } j = \"F\"; if (!" + e + ") { j = \"T\"; } w = \"F\"; while (!" + e + ") { w = \"T\"; return [c, n, m, i, j, w, !!" + e + ", " + e + " ? \"T\" : \"F\", !" + e + " ? \"T\" : \"F\", type(c)]; } return [c, n, m, i, j, w, !!" + e + ", " + e + " ? \"T\" : \"F\", !" + e + " ? \"T\" : \"F\", type(c)];"
		for _, noOpt := range []bool{false, true} {
			evr, err := eng.New(script, eng.Options{NoOptimize: noOpt})
			if err != nil {
				continue
			}
			o := evr.Exec(cmpObj)
			if o.Err != nil {
				c.Count("skipped/comparison not defined for these operands", 1)
				continue
			}
			c.Case(script+fmt.Sprint(noOpt), true)
			yes := "ARRAY:[true, false, false, T, F, F, true, T, F, boolean]"
			no := "ARRAY:[false, true, true, F, T, T, false, F, T, boolean]"
			if d := o.Desc(); d != yes && d != no {
				c.Violation(id, "comparison result seen differently by different consumers", map[string]interface{}{"summary": fmt.Sprintf("%s (noopt=%v): [value, !(..), !copy, if, if-not, while-not, !!, ternary, ternary-not, type] = %s", e, noOpt, d), "script": script})
			}
		}
	})
	c.Extra("instances", len(insts)+len(sInsts))
	c.Extra("exhaustive", true)
	c.Sample(map[string]string{"script": `if (hv(1)) { return "T"; } return "F";`, "kind": "host-function false in if"})
	c.Sample(map[string]string{"script": `return MBf && MI5;`, "kind": "pair under &&"})

	// random boolean nestings against the model (thorough adds volume)
	n := c.Pick(2000, 50000)
	c.ParFor(n, func(i int) {
		id := fmt.Sprintf("rand/%d", i)
		if !c.Want(id) {
			return
		}
		r := c.Rng("rand", i)
		env := gen.NewEnv(r)
		g := &gen.ExprGen{R: r, Env: env, Calls: true}
		var e gast.Expr
		switch r.Intn(4) {
		case 0:
			e = gast.Infix{Op: "&&", L: g.Any(2, false), R: g.Any(2, false)}
		case 1:
			e = gast.Infix{Op: "||", L: g.Any(2, false), R: g.Any(2, false)}
		case 2:
			e = gast.Prefix{Op: "!", X: g.Any(2, false)}
		default:
			e = gast.Ternary{C: g.Any(2, true), A: gast.StrLit{V: "T"}, B: gast.StrLit{V: "F"}}
		}
		if gast.HasSqrtOfIntConst(e) {
			return
		}
		c.Case(exprScript(e, gast.Minimal)+fmt.Sprint(describeFields(env.Vars)), true)
		runExprCase(c, id, "random truth nesting", e, env.Vars, env.Fields, r.Intn(2) == 0)
	})
	_ = model.Null
}
