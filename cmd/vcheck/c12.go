package main

import (
	"fmt"
	"sort"
	"strings"

	"github.com/skx/evalfilter/v2/ast"
	"github.com/skx/evalfilter/v2/lexer"
	"github.com/skx/evalfilter/v2/parser"

	"verif/internal/eng"
	"verif/internal/ev"
	"verif/internal/gast"
	"verif/internal/gen"
	"verif/internal/model"
)

func init() { register("C12", "exploration", c12) }

// canonEngine renders the engine's parse tree fully parenthesised.
func canonEngine(n ast.Node) string {
	switch x := n.(type) {
	case nil:
		return "<nil>"
	case *ast.Program:
		var parts []string
		for _, s := range x.Statements {
			parts = append(parts, canonEngine(s))
		}
		return strings.Join(parts, " ;; ")
	case *ast.ExpressionStatement:
		if x.Expression == nil {
			return "<nil>"
		}
		return canonEngine(x.Expression)
	case *ast.ReturnStatement:
		return "return " + canonEngine(x.ReturnValue)
	case *ast.InfixExpression:
		return "(" + canonEngine(x.Left) + " " + x.Operator + " " + canonEngine(x.Right) + ")"
	case *ast.PrefixExpression:
		return "(" + x.Operator + canonEngine(x.Right) + ")"
	case *ast.IndexExpression:
		return "(" + canonEngine(x.Left) + "[" + canonEngine(x.Index) + "])"
	case *ast.TernaryExpression:
		return "(" + canonEngine(x.Condition) + " ? " + canonEngine(x.IfTrue) + " : " + canonEngine(x.IfFalse) + ")"
	case *ast.CallExpression:
		var a []string
		for _, e := range x.Arguments {
			a = append(a, canonEngine(e))
		}
		return canonEngine(x.Function) + "(" + strings.Join(a, ", ") + ")"
	case *ast.AssignStatement:
		return "(" + x.Name.Value + " = " + canonEngine(x.Value) + ")"
	case *ast.Identifier:
		return x.Value
	case *ast.IntegerLiteral:
		return fmt.Sprint(x.Value)
	case *ast.FloatLiteral:
		return "f" + x.Token.Literal
	case *ast.StringLiteral:
		return fmt.Sprintf("%q", x.Value)
	case *ast.BooleanLiteral:
		return fmt.Sprint(x.Value)
	case *ast.RegexpLiteral:
		return "/" + x.Value + "/" + x.Flags
	case *ast.ArrayLiteral:
		var a []string
		for _, e := range x.Elements {
			a = append(a, canonEngine(e))
		}
		return "[" + strings.Join(a, ", ") + "]"
	case *ast.HashLiteral:
		var a []string
		for k, v := range x.Pairs {
			a = append(a, canonEngine(k)+": "+canonEngine(v))
		}
		sort.Strings(a)
		return "{" + strings.Join(a, ", ") + "}"
	case *ast.PostfixExpression:
		return "(" + x.Token.Literal + x.Operator + ")"
	}
	return fmt.Sprintf("<%T>", n)
}

// canonGast renders our tree the same way.
func canonGast(e gast.Expr) string {
	switch x := e.(type) {
	case gast.Infix:
		return "(" + canonGast(x.L) + " " + x.Op + " " + canonGast(x.R) + ")"
	case gast.Prefix:
		return "(" + x.Op + canonGast(x.X) + ")"
	case gast.Index:
		return "(" + canonGast(x.X) + "[" + canonGast(x.I) + "])"
	case gast.Dot:
		return "(" + canonGast(x.X) + " . " + fmt.Sprintf("%q", x.Name) + ")"
	case gast.Ternary:
		return "(" + canonGast(x.C) + " ? " + canonGast(x.A) + " : " + canonGast(x.B) + ")"
	case gast.Call:
		var a []string
		for _, e := range x.Args {
			a = append(a, canonGast(e))
		}
		return x.Fn + "(" + strings.Join(a, ", ") + ")"
	case gast.Paren:
		return canonGast(x.X)
	case gast.Ident:
		return x.Name
	case gast.NullLit:
		return "null"
	case gast.IntLit:
		return fmt.Sprint(x.V)
	case gast.FloatLit:
		s := x.Spelling
		if s == "" {
			s = gast.FloatSpelling(x.V)
		}
		return "f" + s
	case gast.StrLit:
		return fmt.Sprintf("%q", x.V)
	case gast.BoolLit:
		return fmt.Sprint(x.V)
	case gast.RegexLit:
		return "/" + x.Pat + "/" + x.Flags
	case gast.ArrayLit:
		var a []string
		for _, e := range x.Els {
			a = append(a, canonGast(e))
		}
		return "[" + strings.Join(a, ", ") + "]"
	case gast.HashLit:
		var a []string
		for i := range x.Keys {
			a = append(a, canonGast(x.Keys[i])+": "+canonGast(x.Vals[i]))
		}
		sort.Strings(a)
		return "{" + strings.Join(a, ", ") + "}"
	}
	return fmt.Sprintf("<%T>", e)
}

func parseEngine(text string) (string, error) {
	p := parser.New(lexer.New(text))
	prog, err := p.Parse()
	if err != nil {
		return "", err
	}
	return canonEngine(prog), nil
}

// refParse groups `o0 op0 o1 op1 o2 ...` by the property's precedence table
// (equal levels group left to right): precedence climbing.
func refParse(operands []gast.Expr, ops []string) gast.Expr {
	pos := 0
	var climb func(min int) gast.Expr
	climb = func(min int) gast.Expr {
		left := operands[pos]
		for pos < len(ops) && gast.InfixPrec(ops[pos]) >= min {
			op := ops[pos]
			pos++
			right := climb(gast.InfixPrec(op) + 1)
			left = gast.Infix{Op: op, L: left, R: right}
		}
		return left
	}
	return climb(0)
}

func c12(c *ev.Ctx) {
	c.SetRule("tree-shape monitor: the parser's tree (walked through the engine's ast package) must equal the tree the property's precedence table gives: (a) exhaustive a op b op c for all ordered pairs and (thorough: all triples) of the 18 binary operators, grouped by an independent precedence-climbing reference; (b) prefix x infix x index/call/'.' combinations; (c) ternary with every operator class in condition and arms and arms starting with - ( [ ! literal; compound assignment and assignment with compound right-hand sides; nested ternaries rejected; (d) random trees depth<=5 printed with minimal, redundant and full parentheses must give the same tree and (evaluated) the same result, and a regrouped tree a different one. Distinct = distinct text; all non-trivial.")
	id := func(n string) gast.Expr { return gast.Ident{Name: n} }
	ops := gast.BinaryOps
	fail := func(cid, class, text, want, got string, err error) {
		c.Violation(cid, class, map[string]interface{}{
			"summary": fmt.Sprintf("%s parses as %s (err=%v), the precedence table gives %s", text, got, err, want),
			"script":  text, "expected_tree": want, "observed_tree": got})
	}
	checkText := func(cid, class, text, want string) {
		if !c.Want(cid) {
			return
		}
		c.Case(text, true)
		got, err := parseEngine(text)
		if err != nil || got != want {
			fail(cid, class, text, want, got, err)
		}
	}
	// (a) pairs and triples
	names := []string{"a", "b", "c", "d"}
	var seqs [][]string
	for _, o1 := range ops {
		for _, o2 := range ops {
			seqs = append(seqs, []string{o1, o2})
		}
	}
	if c.Thorough() {
		for _, o1 := range ops {
			for _, o2 := range ops {
				for _, o3 := range ops {
					seqs = append(seqs, []string{o1, o2, o3})
				}
			}
		}
	} else {
		for k := 0; k < 1500; k++ {
			r := c.Rng("triple", k)
			seqs = append(seqs, []string{ops[r.Intn(len(ops))], ops[r.Intn(len(ops))], ops[r.Intn(len(ops))]})
		}
	}
	c.ParFor(len(seqs), func(i int) {
		sq := seqs[i]
		operands := make([]gast.Expr, len(sq)+1)
		var parts []string
		for k := range operands {
			operands[k] = id(names[k])
			parts = append(parts, names[k])
			if k < len(sq) {
				parts = append(parts, sq[k])
			}
		}
		text := strings.Join(parts, " ") + ";"
		want := canonGast(refParse(operands, sq))
		checkText(fmt.Sprintf("seq/%d", i), "operator sequence "+strings.Join(sq, " "), text, want)
		if i%300 == 0 {
			c.Sample(map[string]string{"text": text, "tree": want})
		}
	})
	// (b) prefix / postfix-like combinations
	for pi, pre := range []string{"-", "!", "√"} {
		for oi, op := range ops {
			checkText(fmt.Sprintf("prefix-left/%d/%d", pi, oi), "prefix with infix", pre+"a "+op+" b;", "(("+pre+"a) "+op+" b)")
			checkText(fmt.Sprintf("prefix-right/%d/%d", pi, oi), "prefix with infix", "a "+op+" "+pre+"b;", "(a "+op+" ("+pre+"b))")
			checkText(fmt.Sprintf("index-right/%d", oi), "index with infix", "a "+op+" b[0];", "(a "+op+" (b[0]))")
			checkText(fmt.Sprintf("index-left/%d", oi), "index with infix", "a[0] "+op+" b;", "((a[0]) "+op+" b)")
			checkText(fmt.Sprintf("call-right/%d", oi), "call with infix", "a "+op+" f(b, c);", "(a "+op+" f(b, c))")
			checkText(fmt.Sprintf("call-left/%d", oi), "call with infix", "f(a) "+op+" b;", "(f(a) "+op+" b)")
			checkText(fmt.Sprintf("dot-right/%d", oi), "field access with infix", "a "+op+" b.k;", "(a "+op+" (b . \"k\"))")
			checkText(fmt.Sprintf("dot-left/%d", oi), "field access with infix", "a.k "+op+" b;", "((a . \"k\") "+op+" b)")
		}
		checkText(fmt.Sprintf("prefix-index/%d", pi), "prefix with index", pre+"a[0];", "("+pre+"(a[0]))")
		checkText(fmt.Sprintf("prefix-call/%d", pi), "prefix with call", pre+"f(a);", "("+pre+"f(a))")
		checkText(fmt.Sprintf("prefix-dot/%d", pi), "prefix with field access", pre+"a.k;", "("+pre+"(a . \"k\"))")
		checkText(fmt.Sprintf("prefix-paren/%d", pi), "prefix with parens", pre+"(a + b);", "("+pre+"(a + b))")
		checkText(fmt.Sprintf("prefix-prefix/%d", pi), "prefix of prefix", pre+"!a;", "("+pre+"(!a))")
	}
	checkText("index-chain", "index chain", "a[0][1].k[2];", "((((a[0])[1]) . \"k\")[2])")
	checkText("index-inner", "index contents", "a[b + c * d];", "(a[(b + (c * d))])")
	checkText("call-args", "call arguments", "f(a + b * c, d ? a : b);", "f((a + (b * c)), (d ? a : b))")
	checkText("parens-override-1", "parentheses override", "(a + b) * c;", "((a + b) * c)")
	checkText("parens-override-2", "parentheses override", "a - (b - c);", "(a - (b - c))")
	checkText("parens-override-3", "parentheses override", "a ** (b % c);", "(a ** (b % c))")
	checkText("parens-override-4", "parentheses override", "(a || b) == c;", "((a || b) == c)")
	// (c) ternary
	for oi, op := range ops {
		checkText(fmt.Sprintf("ternary-all/%d", oi), "ternary with infix", "a "+op+" b ? c "+op+" d : a "+op+" c;", "((a "+op+" b) ? (c "+op+" d) : (a "+op+" c))")
		checkText(fmt.Sprintf("ternary-after/%d", oi), "ternary false arm extends", "a ? b : c "+op+" d;", "(a ? b : (c "+op+" d))")
		for si, st := range []struct{ t, w string }{{"-1", "(-1)"}, {"(b)", "b"}, {"[1]", "[1]"}, {"!b", "(!b)"}, {"2", "2"}, {"f(b)", "f(b)"}, {"\"s\"", "\"s\""}, {"√b", "(√b)"}} {
			if op == "/" && strings.HasPrefix(st.t, "\"") {
				continue // after a string literal '/' starts a regexp (lexer rule, C14)
			}
			checkText(fmt.Sprintf("ternary-arm-start/%d/%d", oi, si), "ternary arm starting with "+st.t, "a ? "+st.t+" "+op+" c : "+st.t+" "+op+" d;", "(a ? ("+st.w+" "+op+" c) : ("+st.w+" "+op+" d))")
		}
		for ai, aop := range []string{"+=", "-=", "*=", "/="} {
			checkText(fmt.Sprintf("opassign/%d/%d", oi, ai), "compound assignment right-hand side", "x "+aop+" a "+op+" b;", "(x "+aop+" (a "+op+" b))")
		}
		checkText(fmt.Sprintf("assign/%d", oi), "assignment right-hand side", "x = a "+op+" b;", "(x = (a "+op+" b))")
	}
	checkText("assign-ternary", "assignment of ternary", "x = a ? b : c;", "(x = (a ? b : c))")
	checkText("opassign-ternary", "compound assignment of ternary", "x += a ? b : c;", "(x += (a ? b : c))")
	checkText("ternary-in-parens-operand", "parenthesised ternary as operand", "(a ? b : c) + d;", "((a ? b : c) + d)")
	for i, bad := range []string{"a ? b ? 1 : 2 : 3;", "a ? 1 : b ? 2 : 3;", "a ? (b ? 1 : 2) : 3;", "a ? 1 : (b ? 2 : 3);", "a ? [b ? 1 : 2] : 3;", "a ? f(b ? 1 : 2) : 3;", "x = a ? 1 + (b ? 2 : 3) : 4;"} {
		cid := fmt.Sprintf("nested-ternary/%d", i)
		if !c.Want(cid) {
			continue
		}
		c.Case(bad, true)
		if got, err := parseEngine(bad); err == nil {
			fail(cid, "nested ternary accepted", bad, "a parse error", got, nil)
		}
	}

	// (d) random trees printed three ways
	n := c.Pick(3000, 200000)
	c.ParFor(n, func(i int) {
		cid := fmt.Sprintf("tree/%d", i)
		if !c.Want(cid) {
			return
		}
		r := c.Rng("tree", i)
		env := gen.NewEnv(r)
		g := &gen.ExprGen{R: r, Env: env, IllTyped: 25, Calls: true}
		e := g.Any(2+r.Intn(c.Pick(3, 4)), false)
		want := canonGast(e)
		texts := map[string]string{}
		for name, mode := range map[string]gast.ParenMode{"minimal": gast.Minimal, "full": gast.Full, "redundant": gast.Redundant} {
			p := &gast.Printer{Mode: mode, Rng: r}
			texts[name] = gast.Join(p.ExprTokens(e)) + ";"
		}
		c.Case(texts["minimal"], true)
		for _, name := range []string{"minimal", "full", "redundant"} {
			got, err := parseEngine(texts[name])
			if err != nil || got != want {
				fail(cid, "random tree ("+name+" parentheses)", texts[name], want, got, err)
				return
			}
		}
		// meaning: the three spellings evaluate alike
		var first string
		for k, name := range []string{"minimal", "full", "redundant"} {
			evr, err := eng.New("return "+texts[name], eng.Options{Vars: env.Vars})
			if err != nil {
				fail(cid, "random tree rejected by Prepare", texts[name], want, "", err)
				return
			}
			obj, _ := eng.FieldsToMap(env.Fields)
			o := evr.Exec(obj)
			if o.Budget {
				return
			}
			if k == 0 {
				first = o.Desc()
			} else if o.Desc() != first {
				c.Violation(cid, "spelling changes meaning", map[string]interface{}{"summary": fmt.Sprintf("%s gives %s but %s gives %s", texts["minimal"], first, texts[name], o.Desc()), "script": texts[name]})
				return
			}
		}
		// regrouping: rotate one left-nested pair of different-precedence operators
		if in, ok := e.(gast.Infix); ok {
			if l, ok := in.L.(gast.Infix); ok {
				rot := gast.Infix{Op: l.Op, L: l.L, R: gast.Infix{Op: in.Op, L: l.R, R: in.R}}
				if canonGast(rot) != want {
					p := &gast.Printer{Mode: gast.Minimal}
					rt := gast.Join(p.ExprTokens(rot)) + ";"
					got, err := parseEngine(rt)
					c.Case(rt, true)
					if err != nil || got != canonGast(rot) || got == want {
						fail(cid, "regrouped tree", rt, canonGast(rot), got, err)
					}
				}
			}
		}
		c.SampleEvery(i, func() interface{} {
			return map[string]string{"minimal": texts["minimal"], "full": texts["full"], "tree": want}
		})
	})
	_ = model.Null
	// (e) a call applies to what stands in front of its parenthesis, and parentheses around
	// that leave no trace: the callee written bare and written in redundant parentheses is the
	// same call, in every position a call can stand in
	pairs := [][2]string{
		{`return len("abc");`, `return (len)("abc");`}, {`return len("abc") + 1;`, `return ((len))("abc") + 1;`}, {`function f(a) { return a * 2; } return f(4);`, `function f(a) { return a * 2; } return (f)(4);`},
		{`return -len("ab");`, `return -(len)("ab");`}, {`return upper("x") + "y";`, `return (upper)(("x")) + "y";`}, {`return !match("a", "b");`, `return !(match)("a", "b");`},
		{`return [len("ab"), 1][0];`, `return [(len)("ab"), 1][0];`}, {`x = min(3, 2) ** 2; return x;`, `x = (min)(3, 2) ** 2; return x;`}, {`return 2 * max(1, 2) % 3;`, `return 2 * (max)((1), (2)) % 3;`},
		{`if (len("a") == 1) { return 1; } return 0;`, `if ((len)("a") == 1) { return 1; } return 0;`}, {`function g() { return [5, 6]; } return g()[1];`, `function g() { return [5, 6]; } return (g)()[1];`},
		{`return {"k": len("abcd")}.k;`, `return {"k": (len)("abcd")}.k;`}, {`return t(1);`, `return (t)(1);`},
	}
	for pi, pr := range pairs {
		for _, noOpt := range []bool{false, true} {
			cid := fmt.Sprintf("callee-parens/%d/%v", pi, noOpt)
			if !c.Want(cid) {
				continue
			}
			c.Case(pr[1], true)
			var got [2]string
			for k := 0; k < 2; k++ {
				evr, err := eng.New(pr[k], eng.Options{NoOptimize: noOpt})
				if err != nil {
					got[k] = "Prepare error: " + err.Error()
					continue
				}
				o := evr.Exec(nil)
				got[k] = o.Desc() + " " + errText(o.Err) + " " + strings.Join(o.Trace, "|")
			}
			if got[0] != got[1] || strings.HasPrefix(got[0], "Prepare error") {
				c.Violation(cid, "parentheses around a callee change the script", map[string]interface{}{
					"summary": fmt.Sprintf("%s gives %s, %s gives %s (noopt=%v): redundant parentheses around the callee must not matter", pr[0], got[0], pr[1], got[1], noOpt), "script": pr[1]})
			}
		}
	}
}
