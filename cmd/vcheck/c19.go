package main

import (
	"crypto/sha256"
	"fmt"
	"math/rand"
	"os"
	"os/exec"
	"path/filepath"
	"sort"
	"strings"
	"sync"
	"time"

	"verif/internal/eng"
	"verif/internal/ev"
	"verif/internal/gast"
	"verif/internal/gen"
	"verif/internal/model"
)

func init() {
	register("C19", "exploration", c19)
	workers["c19"] = c19Worker
}

// c19Script builds a script rich in hash literals, functions and constants.
func c19Script(r *rand.Rand) (string, map[string]interface{}) {
	var b strings.Builder
	nf := r.Intn(6)
	// constant expressions the optimizer folds, refuses to fold, or fails on: what one
	// function contains must not change how the others are compiled
	consts := []string{"2 * 3", "1 / 0", "1 % 0", "7 - 9", "65000 + 600", "2 ** 70", "3.5 * 2", "10 / 4", "1 == 1", "2 < 1", "\"a\" + \"b\"", "0 / 5", "6 / 3 / 0", "a * 1"}
	for f := 0; f < nf; f++ {
		fmt.Fprintf(&b, "function fn%d(a, b) { local q; if (a == 12345) { q = %s; if (%s) { q = %s; } } q = {\"f%d\": a, \"z\": b, %d: \"n\"}; foreach k, v1 in q { t(k, v1); } return string(q) + \"%d\"; } ", f, consts[r.Intn(len(consts))], []string{"true", "false", "1 == 2", "b"}[r.Intn(4)], consts[r.Intn(len(consts))], f, r.Intn(50), r.Intn(1000))
	}
	nh := 1 + r.Intn(3)
	for h := 0; h < nh; h++ {
		n := r.Intn(14)
		fmt.Fprintf(&b, "h%d = {", h)
		used := map[string]bool{}
		first := true
		for i := 0; i < n; i++ {
			var key string
			switch r.Intn(8) {
			case 7:
				// numbers that are not numbers: several bit patterns print alike
				key = []string{`float("nan")`, `0 - float("nan")`, `float("inf") - float("inf")`, `float("inf")`, `0 - float("inf")`, `0.0 * (0 - 1)`, `0.0`, `float("nan") * 2`}[r.Intn(8)]
			case 0:
				key = fmt.Sprint(r.Intn(30))
			case 1:
				key = fmt.Sprintf("%d.5", r.Intn(20))
			case 2:
				key = fmt.Sprintf("\"k\" + \"%d\"", r.Intn(30))
			case 3:
				key = fmt.Sprintf("%d + %d", r.Intn(10), 100+r.Intn(10))
			case 4:
				key = fmt.Sprintf("\"%d\"", r.Intn(30)) // prints like an integer key
			default:
				key = fmt.Sprintf("\"%s%d\"", []string{"a", "b", "Z", "key", "x y"}[r.Intn(5)], r.Intn(30))
			}
			if used[key] {
				continue
			}
			used[key] = true
			if !first {
				b.WriteString(", ")
			}
			first = false
			val := []string{"1", "\"v\"", "2.5", "true", "[1, 2]", "{\"in\": 1, \"er\": 2}", "I1", "1 + 2", "null"}[r.Intn(9)]
			fmt.Fprintf(&b, "%s: %s", key, val)
		}
		b.WriteString("}; ")
		fmt.Fprintf(&b, "foreach k, v1 in h%d { t(k, v1); } t(keys(h%d), string(h%d), len(h%d)); ", h, h, h, h)
	}
	for f := 0; f < nf; f++ {
		fmt.Fprintf(&b, "t(fn%d(%d, \"s%d\")); ", f, r.Intn(9), r.Intn(9))
	}
	// hashes made by reflection from Go maps
	b.WriteString("foreach k, v1 in M { t(k, v1); } t(string(M), keys(M)); foreach k, v1 in M.sub { t(k, v1); } ")
	switch r.Intn(12) {
	case 0:
		b.WriteString("return h0[[1, 2, h0]];") // fails: the error text is part of the outcome
	case 1:
		b.WriteString("kk = [\"a\", M, 3]; return {kk: 1};")
	case 2:
		b.WriteString("return M.sub[{\"x\": [h0]}];")
	case 3:
		b.WriteString("return fn0(1);")
	case 4:
		b.WriteString("return [1, [2, M]] + 1;")
	default:
		b.WriteString("return [h0, keys(h0), string(M), sort(keys(M))];")
	}
	m := map[string]interface{}{}
	for i := 0; i < 3+r.Intn(12); i++ {
		m[fmt.Sprintf("m%d", r.Intn(40))] = []interface{}{r.Intn(5), "s", 1.5, true}[r.Intn(4)]
	}
	sub := map[string]interface{}{}
	for i := 0; i < r.Intn(8); i++ {
		sub[fmt.Sprintf("s%d", r.Intn(20))] = r.Intn(9)
	}
	m["sub"] = sub
	if r.Intn(3) == 0 {
		// maps that contain each other, reachable from the document at several points (what
		// the script sees of such a cycle must not depend on which entry is converted first)
		ring := make([]map[string]interface{}, 2+r.Intn(3))
		for i := range ring {
			ring[i] = map[string]interface{}{"n": fmt.Sprintf("ring%d", i)}
		}
		for i := range ring {
			ring[i]["peer"] = ring[(i+1)%len(ring)]
			if r.Intn(2) == 0 {
				ring[i]["back"] = ring[(i+len(ring)-1)%len(ring)]
			}
			m[fmt.Sprintf("r%d", i)] = ring[i]
		}
		sub["ring"] = ring[r.Intn(len(ring))]
		if r.Intn(2) == 0 {
			m["shared1"], m["shared2"] = sub, sub
		}
	}
	if r.Intn(4) == 0 {
		// host keys that become the same script key (times within one second): the hash
		// the script sees is still one fixed hash
		base := time.Unix(int64(1000+r.Intn(5)), 0)
		tm := map[time.Time]string{}
		for i := 0; i < 2+r.Intn(6); i++ {
			tm[base.Add(time.Duration(r.Intn(3000))*time.Millisecond)] = fmt.Sprintf("v%d", i)
		}
		m["times"] = tm
		m["bytimes"] = map[time.Time][]interface{}{base: {1}, base.Add(time.Nanosecond): {2}, base.Add(2 * time.Nanosecond): {3}}
	}
	return b.String(), map[string]interface{}{"M": m, "I1": r.Intn(100)}
}

// c19Digest prepares and runs the case and returns a canonical transcript.
func c19Transcript(script string, obj map[string]interface{}, vars map[string]model.Value, noOpt bool) string {
	evr, err := eng.New(script, eng.Options{NoOptimize: noOpt, Vars: vars})
	if err != nil {
		return "prepare-error"
	}
	var b strings.Builder
	b.WriteString(evr.ProgramDump())
	for run := 0; run < 2; run++ {
		o := evr.Exec(obj)
		if o.Budget {
			return "budget"
		}
		// a failing run's result is its error: the text must be reproducible too
		fmt.Fprintf(&b, "run%d %s err=%q trace=%s vars=%s\n", run, o.Desc(), errText(o.Err), strings.Join(o.Trace, "|"), evr.GlobalsString())
	}
	return b.String()
}

func c19Case(seed int64, prop string, i int) (script string, obj map[string]interface{}, vars map[string]model.Value, noOpt bool) {
	c := &ev.Ctx{Seed: seed, Prop: prop}
	r := c.Rng("det", i)
	if i%3 == 0 {
		env := gen.NewEnv(r)
		pg := &gen.ProgGen{R: r, E: &gen.ExprGen{R: r, Env: env, Calls: true}, CondFields: 2, MaxDepth: 3, MaxStmts: 4, Funcs: 1 + r.Intn(3), Mutators: true}
		p := pg.Program()
		o, _ := eng.FieldsToMap(condObject(env.Fields, 2, r.Intn(4), r))
		return gast.Text(p), o, env.Vars, r.Intn(2) == 0
	}
	if i%7 == 5 {
		// a handful of patterns shared by many scripts, each using them through one or two of
		// the operations that take a pattern, on subjects of several lines: whatever the
		// process keeps per pattern, the script that came first must not decide for the others
		pats := []string{"^beta$", "^l2", "a$", "^B", "^$", "b.t", "^alpha.beta$", "\\d+$"}
		subjects := []string{"alpha\nbeta", "l1\nl2\nl3", "beta", "alpha\nbeta\n", "\n", "BETA\nbeta\ngamma 7\n8", "alpha beta"}
		var b strings.Builder
		b.WriteString("out = [];")
		for k := 1 + r.Intn(2); k > 0; k-- {
			p, sj := pats[r.Intn(len(pats))], subjects[r.Intn(len(subjects))]
			lit := gast.ExprText(gast.StrLit{V: sj})
			flags := []string{"", "", "i"}[r.Intn(3)]
			switch r.Intn(6) {
			case 0:
				fmt.Fprintf(&b, " t(replace(%s, /%s/%s, \"X\"));", lit, p, flags)
			case 1:
				fmt.Fprintf(&b, " t(%s ~= /%s/%s);", lit, p, flags)
			case 2:
				fmt.Fprintf(&b, " t(match(%s, %s));", lit, gast.ExprText(gast.StrLit{V: p}))
			case 3:
				fmt.Fprintf(&b, " switch (%s) { case /%s/%s { t(1); } default { t(0); } }", lit, p, flags)
			case 4:
				fmt.Fprintf(&b, " t(replace(%s, %s, \"<$0>\"));", lit, gast.ExprText(gast.StrLit{V: p}))
			default:
				fmt.Fprintf(&b, " t(%s !~ /%s/%s, len(split(%s, %s)));", lit, p, flags, lit, gast.ExprText(gast.StrLit{V: p}))
			}
		}
		b.WriteString(" return {\"a\": 1, \"b\": 2};")
		return b.String(), map[string]interface{}{}, nil, r.Intn(2) == 0
	}
	s, o := c19Script(r)
	return s, o, nil, r.Intn(2) == 0
}

// c19Worker: vcheck worker c19 <seed> <n>  -> prints one digest per case
func c19Worker(args []string) {
	var seed int64
	var n int
	fmt.Sscan(args[0], &seed)
	fmt.Sscan(args[1], &n)
	real := os.Stdout
	dn, _ := os.OpenFile(os.DevNull, os.O_WRONLY, 0)
	os.Stdout = dn
	// every process takes the cases in an order of its own (and some leave half of them
	// out): what one script leaves behind in the process must not show in another
	order := 0
	if len(args) > 2 {
		fmt.Sscan(args[2], &order)
	}
	idx := make([]int, n)
	for i := range idx {
		idx[i] = i
	}
	switch {
	case order == 1:
		for i := range idx {
			idx[i] = n - 1 - i
		}
	case order >= 2:
		rand.New(rand.NewSource(seed*7919+int64(order))).Shuffle(n, func(a, b int) { idx[a], idx[b] = idx[b], idx[a] })
	}
	digests := make([]string, n)
	for k, i := range idx {
		if order >= 3 && order%2 == 1 && k%2 == 1 {
			digests[i] = "-"
			continue
		}
		s, o, v, no := c19Case(seed, "C19", i)
		sum := sha256.Sum256([]byte(c19Transcript(s, o, v, no)))
		digests[i] = fmt.Sprintf("%x", sum[:8])
	}
	real.WriteString(strings.Join(digests, "\n") + "\n")
}

func c19(c *ev.Ctx) {
	c.SetRule("digest monitor: for seeded scripts rich in hash literals (up to 13 keys, expression keys, int/float/string keys incl. ones that print alike), several functions, many constants, keys()/string()/foreach over hashes, hashes built by reflection from Go maps, plus generated programs with functions: the canonical dump of the prepared program (hook) and the transcript of two runs (result, host-call trace, variables) must be identical across N fresh evaluators in one process, after a second Prepare on the same evaluator, and across K separate processes (Go re-seeds map iteration per process and per range). Distinct = distinct script; non-trivial = the script contains at least one hash with two or more keys.")
	n := c.Pick(2000, 100000)
	reps := c.Pick(5, 20)
	procs := c.Pick(3, 10)
	// in-process repetitions
	digests := make([]string, n)
	c.ParFor(n, func(i int) {
		id := fmt.Sprintf("det/%d", i)
		if !c.Want(id) {
			return
		}
		s, o, v, no := c19Case(c.Seed, c.Prop, i)
		first := c19Transcript(s, o, v, no)
		sum := sha256.Sum256([]byte(first))
		digests[i] = fmt.Sprintf("%x", sum[:8])
		c.Case(s, strings.Contains(s, ", ") && strings.Contains(s, "{"))
		if first == "prepare-error" {
			c.Violation(id, "generated script rejected", map[string]interface{}{"summary": "generated script rejected: " + s, "script": s})
			return
		}
		for k := 1; k < reps; k++ {
			again := c19Transcript(s, o, v, no)
			if again != first {
				c.Violation(id, "non-deterministic in one process", map[string]interface{}{
					"summary": fmt.Sprintf("two fresh evaluators of the same script differ\n  script: %s\n  first difference: %s", s, diffLine(first, again)), "script": s, "first": clip(first, 3000), "again": clip(again, 3000)})
				return
			}
		}
		// a second Prepare on the same evaluator gives the same program and results
		evr, err := eng.New(s, eng.Options{NoOptimize: no, Vars: v})
		if err == nil {
			d1 := evr.ProgramDump()
			var perr error
			func() {
				defer func() {
					if r := recover(); r != nil {
						perr = fmt.Errorf("panic: %v", r)
					}
				}()
				if no {
					perr = evr.E.Prepare([]byte{0})
				} else {
					perr = evr.E.Prepare()
				}
			}()
			d2 := ""
			if perr == nil {
				d2 = evr.ProgramDump()
			}
			if perr != nil || d1 != d2 {
				c.Violation(id, "second Prepare changes the program", map[string]interface{}{
					"summary": fmt.Sprintf("Prepare called twice on one evaluator: err=%v, program differs: %s\n  script: %s", perr, diffLine(d1, d2), s), "script": s})
				return
			}
		}
		c.SampleEvery(i, func() interface{} { return map[string]string{"script": clip(s, 600), "digest": digests[i]} })
	})
	if c.Only != "" {
		c19Fixed(c)
		return
	}
	// across processes
	self, _ := os.Executable()
	outs := make([][]string, procs)
	var wg sync.WaitGroup
	for p := 0; p < procs; p++ {
		wg.Add(1)
		go func(p int) {
			defer wg.Done()
			cmd := exec.Command("timeout", "-s", "KILL", "3000", self, "worker", "c19", fmt.Sprint(c.Seed), fmt.Sprint(n), fmt.Sprint(p))
			out, err := cmd.Output()
			if err != nil {
				c.Inconclusive(fmt.Sprintf("digest process %d failed: %v", p, err))
				return
			}
			outs[p] = strings.Split(strings.TrimSpace(string(out)), "\n")
		}(p)
	}
	wg.Wait()
	cross := 0
	for p := 0; p < procs; p++ {
		if len(outs[p]) != n {
			c.Inconclusive(fmt.Sprintf("digest process %d returned %d digests, expected %d", p, len(outs[p]), n))
			continue
		}
		for i := 0; i < n; i++ {
			cross++
			if digests[i] != "" && outs[p][i] != "-" && outs[p][i] != digests[i] {
				s, _, _, _ := c19Case(c.Seed, c.Prop, i)
				c.Violation(fmt.Sprintf("det/%d", i), "differs across processes", map[string]interface{}{
					"summary": fmt.Sprintf("process %d computed digest %s, this process %s for the same script\n  script: %s", p, outs[p][i], digests[i], s), "script": s})
				break
			}
		}
	}
	c.Extra("cross_process_digest_comparisons", cross)
	c.Extra("processes", procs)
	c.Extra("in_process_repetitions", reps)
	c19Fixed(c)
	// an object at the same address with other contents is another object: what the run
	// sees must not depend on where the host keeps its record (stream shared with C04, C07)
	c04SameReference(c)
}

func diffLine(a, b string) string {
	la, lb := strings.Split(a, "\n"), strings.Split(b, "\n")
	for i := 0; i < len(la) && i < len(lb); i++ {
		if la[i] != lb[i] {
			return fmt.Sprintf("line %d: %q vs %q", i, clip(la[i], 300), clip(lb[i], 300))
		}
	}
	return fmt.Sprintf("lengths %d vs %d lines", len(la), len(lb))
}

// c19PrefixKeys: hash literals whose unquoted keys are prefixes of one another, with
// values whose texts continue them: any ordering of the pairs that is not a total
// order of (key, value) shows as different programs or host-call orders.
func c19PrefixKeys(c *ev.Ctx) {
	keys := []string{"1", "12", "123", "a", "ab", "abc", "1.5", "1.55"}
	vals := []string{"2", "23", "3", "34", "v(1)", "v(2)", "bc(1)", "c(1)", "b", "5", "55"}
	var scripts []string
	for i, k1 := range keys {
		for j, k2 := range keys {
			if i >= j {
				continue
			}
			for _, v1 := range vals {
				for _, v2 := range vals {
					scripts = append(scripts, fmt.Sprintf("a = 1; ab = 2; abc = 3; b = 4; function bc(x) { return v(x + 10); } function c(x) { return v(x + 20); } h = {%s: %s, %s: %s}; return [h, keys(h)];", k1, v1, k2, v2))
				}
			}
		}
	}
	step := 1
	preps := c.Pick(16, 32)
	c.ParFor(len(scripts)/step, func(q int) {
		s := scripts[q*step]
		id := fmt.Sprintf("prefix/%d", q*step)
		if !c.Want(id) {
			return
		}
		c.Case(s, true)
		seen := map[string]bool{}
		for k := 0; k < preps; k++ {
			seen[c19Transcript(s, nil, nil, false)] = true
		}
		if len(seen) > 1 {
			var two []string
			for t := range seen {
				two = append(two, t)
			}
			c.Violation(id, "hash literal with prefix-related keys", map[string]interface{}{"summary": fmt.Sprintf("%s: %d different (program, transcript) pairs over several preparations; first difference: %s", s, len(seen), diffLine(two[0], two[1])), "script": s})
		}
	})
}

// c19RepeatedRuns: a script that assigns no variable must give the same result, error
// text and host-call trace on every run of one prepared evaluator - also when the runs
// fail, hit the engine's limits, or return early.
// c19RepeatWant: what some of the repeated-run scripts must return (every run).
var c19RepeatWant = map[string]string{
	`function bump(n) { n++; return n; } return [bump(2.5), bump(100000), bump(3), 2.5, 100000];`:                                                                                                                   "ARRAY:[3.5, 100001, 4, 2.5, 100000]",
	`function drop(n, m) { n--; m -= 1.5; m *= 2; return [n, m]; } return drop(100000, 0.25);`:                                                                                                                      "ARRAY:[99999, -2.5]",
	`foreach v1 in [0.5, 1.5, 70000] { v1++; t(v1); } foreach i2, v2 in [0.5, 70000] { i2++; v2--; t(i2, v2); } return [0.5, 70000];`:                                                                               "ARRAY:[0.5, 70000]",
	`function neg(k) { switch (k) { case 1, 2, 3 { return -2.5; } default { return -70000; } } } return [neg(1), neg(2), neg(3), neg(4), -2.5, -1];`:                                                                "ARRAY:[-2.5, -2.5, -2.5, -70000, -2.5, -1]",
	`function find(ids) { foreach i1 in ids { if (seen) { return "again " + string(seen); } local seen; seen = i1; if (i1 == 7) { return "found"; } } return "none"; } return [find(Ids), find([1, 7]), find([])];`: "ARRAY:[found, again 1, none]",
	`function tag(name) { return "t:" + name; } function who() { return "user:" + name; } return [tag("nobody"), who(), tag("x")];`:                                                                                 "ARRAY:[t:nobody, user:steve, t:x]",
	`function a(p) { local l; l = p; return l; } function b() { return [p, l]; } return [a(1), b(), a(2), b()];`:                                                                                                    "ARRAY:[1, [null, null], 2, [null, null]]",
}

func c19RepeatedRuns(c *ev.Ctx) {
	scripts := []struct {
		script string
		obj    map[string]interface{}
	}{
		{`function down(n) { v(n % 1000 == 0); if (n <= 0) { return 0; } return 1 + down(n - 1); } return down(Depth);`, map[string]interface{}{"Depth": 20000}},
		{`function bump(n) { n++; return n; } return [bump(2.5), bump(100000), bump(3), 2.5, 100000];`, nil},
		{`function drop(n, m) { n--; m -= 1.5; m *= 2; return [n, m]; } return drop(100000, 0.25);`, nil},
		{`foreach v1 in [0.5, 1.5, 70000] { v1++; t(v1); } foreach i2, v2 in [0.5, 70000] { i2++; v2--; t(i2, v2); } return [0.5, 70000];`, nil},
		{`function neg(k) { switch (k) { case 1, 2, 3 { return -2.5; } default { return -70000; } } } return [neg(1), neg(2), neg(3), neg(4), -2.5, -1];`, nil},
		{`function down(n) { if (n <= 0) { return v(0); } return 1 + down(n - 1); } return down(Depth);`, map[string]interface{}{"Depth": 9999}},
		{`function down(n) { if (n <= 0) { panic("bottom"); } return 1 + down(n - 1); } return down(Depth);`, map[string]interface{}{"Depth": 3000}},
		{`foreach i, e in [3, 1, 2] { foreach j, f in "ab" { v(i, e, j, f); if (e == 1) { return [i, j]; } } } return 0;`, nil},
		{`function f(a) { foreach q in 1..5 { if (q == a) { return v(q) / Zero; } } return 0; } return f(3) + f(9);`, map[string]interface{}{"Zero": 0}},
		{`function find(ids) { foreach i1 in ids { if (seen) { return "again " + string(seen); } local seen; seen = i1; if (i1 == 7) { return "found"; } } return "none"; } return [find(Ids), find([1, 7]), find([])];`, map[string]interface{}{"Ids": []interface{}{7, 8}}},
		{`function tag(name) { return "t:" + name; } function who() { return "user:" + name; } return [tag("nobody"), who(), tag("x")];`, map[string]interface{}{"name": "steve"}},
		{`function a(p) { local l; l = p; return l; } function b() { return [p, l]; } return [a(1), b(), a(2), b()];`, nil},
		{`switch (Kind) { case /^x/ { return v(1); } case "y", "z" { return v(2); } default { return v(sort(["b", "a", "C"], true)); } }`, map[string]interface{}{"Kind": "q"}},
		{`return [v(sort(Tags)), v(reverse(Tags)), v(keys(Meta)), v(string(Meta)), Tags, Meta];`, map[string]interface{}{"Tags": []interface{}{"b", "a", "c"}, "Meta": map[string]interface{}{"z": 1, "a": 2, "m": 3}}},
	}
	for si, sc := range scripts {
		for _, noOpt := range []bool{false, true} {
			id := fmt.Sprintf("repeat/%d/%v", si, noOpt)
			if !c.Want(id) {
				continue
			}
			evr, err := eng.New(sc.script, eng.Options{NoOptimize: noOpt, Budget: 50000000})
			if err != nil {
				continue
			}
			first := ""
			for run := 0; run < c.Pick(4, 12); run++ {
				o := evr.Exec(sc.obj)
				t := fmt.Sprintf("%s err=%q calls=%d trace=%s", o.Desc(), errText(o.Err), len(o.Trace), strings.Join(o.Trace, "|"))
				c.Case(fmt.Sprint(id, run), true)
				if want, ok := c19RepeatWant[sc.script]; ok && run == 0 && o.Desc() != want {
					c.Violation(id, "repeated-run script gives a wrong result", map[string]interface{}{"summary": fmt.Sprintf("%q gives %s %s, expected %s", sc.script, o.Desc(), errText(o.Err), want), "script": sc.script})
					break
				}
				if run == 0 {
					first = t
				} else if t != first {
					c.Violation(id, "repeated runs differ", map[string]interface{}{"summary": fmt.Sprintf("run %d of %q differs from run 1: %s", run+1, sc.script, diffLine(first, t)), "script": sc.script})
					break
				}
			}
		}
	}
}

// c19AfterFailure: runs that fail in mid-expression, in mid-call, in a loop - alternating
// with runs that succeed - on one evaluator: every succeeding run gives the same transcript,
// every failing run too, and both equal what a fresh evaluator gives.
func c19AfterFailure(c *ev.Ctx) {
	scripts := []string{
		`if (Bad) { x = 7 + (1 / Zero); } y = [1, 2]; return len(y) + v(1);`,
		`if (Bad) { x = [4, "five", 1 / Zero]; } return v({"a": 1})["a"];`,
		`function f(a) { return [a, a + (1 / Zero)]; } if (Bad) { r = 3 * f(2)[1]; } return v(9) - 4;`,
		`foreach e in [1, 2] { if (Bad) { s = "x" + string(e) + string(1 % Zero); } } return v("end");`,
		`if (Bad) { t(1, 2, panic("p")); } return [v(1), v(2)];`,
	}
	for si, script := range scripts {
		for _, noOpt := range []bool{false, true} {
			id := fmt.Sprintf("after-failure/%d/%v", si, noOpt)
			if !c.Want(id) {
				continue
			}
			used, err := eng.New(script, eng.Options{NoOptimize: noOpt})
			if err != nil {
				continue
			}
			want := map[bool]string{}
			for _, bad := range []bool{false, true} {
				fresh, _ := eng.New(script, eng.Options{NoOptimize: noOpt})
				o := fresh.Exec(map[string]interface{}{"Bad": bad, "Zero": 0})
				want[bad] = fmt.Sprintf("%s err=%q trace=%s", o.Desc(), errText(o.Err), strings.Join(o.Trace, "|"))
			}
			for step, bad := range []bool{false, true, false, true, true, false, false} {
				o := used.Exec(map[string]interface{}{"Bad": bad, "Zero": 0})
				got := fmt.Sprintf("%s err=%q trace=%s", o.Desc(), errText(o.Err), strings.Join(o.Trace, "|"))
				c.Case(fmt.Sprint(id, step), true)
				if got != want[bad] {
					c.Violation(id, "a run after a failed run differs from a fresh evaluator", map[string]interface{}{"summary": fmt.Sprintf("%s (noopt=%v), run %d (Bad=%v) on a used evaluator gives %s, a fresh evaluator gives %s", script, noOpt, step+1, bad, got, want[bad]), "script": script})
					break
				}
			}
		}
	}
}

// c19DumpRepeatable: what the command-line driver shows of the compiled program
// (`evalfilter bytecode`, i.e. Eval.Dump) is the same text in every process.
func c19DumpRepeatable(c *ev.Ctx) {
	if !c.Want("cli-bytecode") {
		return
	}
	work := filepath.Join(ev.Root, "work", fmt.Sprintf("c19cli-%d", os.Getpid()))
	os.MkdirAll(work, 0o755)
	defer os.RemoveAll(work)
	bin := filepath.Join(work, "evalfilter-cli")
	build := exec.Command("go", "build", "-o", bin, "./cmd/evalfilter")
	build.Dir = repoDir()
	if out, err := build.CombinedOutput(); err != nil {
		c.Inconclusive("cannot build the command-line driver from " + repoDir() + ": " + clip(string(out), 300))
		return
	}
	for si, script := range []string{
		`function alpha(a) { return a + 1; } function beta(b) { return b * 2; } function gamma(c1) { return alpha(beta(c1)); } function delta() { return {"z": 1, "a": 2, "m": [3]}; } function eps(e) { if (e) { return 70000; } return 1.5; } return gamma(2) + eps(0);`,
		`h = {"b": 1, "a": 2, 3: "c", 1.5: /x/}; function one() { return 1; } function two() { return 2; } function three() { return 3; } function four() { return 4; } return [one(), two(), three(), four(), h];`,
	} {
		sf := filepath.Join(work, fmt.Sprintf("s%d.script", si))
		os.WriteFile(sf, []byte(script), 0o644)
		for _, args := range [][]string{{"bytecode", sf}, {"bytecode", "-no-optimizer", sf}, {"parse", sf}} {
			seen := map[string]int{}
			for k := 0; k < 12; k++ {
				out, _, _ := runCLI(bin, args...)
				seen[out]++
			}
			c.Case(fmt.Sprint("cli-bytecode", si, args[:len(args)-1]), true)
			if len(seen) > 1 {
				var texts []string
				for t1 := range seen {
					texts = append(texts, t1)
				}
				sort.Strings(texts)
				c.Violation("cli-bytecode", "the dump of one script differs between processes", map[string]interface{}{"summary": fmt.Sprintf("evalfilter %s on one script printed %d different texts in 12 invocations; first difference: %s", strings.Join(args[:len(args)-1], " "), len(seen), diffLine(texts[0], texts[1])), "script": script})
			}
		}
	}
}

func c19Fixed(c *ev.Ctx) {
	c19DumpRepeatable(c)
	c19AfterFailure(c)
	c19RepeatedRuns(c)
	c19PrefixKeys(c)
	// known finding: a format verb that prints an address
	if c.Want("probe:sprintf-pointer-verb") {
		seen := map[string]bool{}
		for k := 0; k < 8; k++ {
			if evr, err := eng.New(`x = [1, 2]; y = [3]; return sprintf("%p %p", x, y);`, eng.Options{NoHook: true}); err == nil {
				junk := make([][]byte, k*3)
				for q := range junk {
					junk[q] = make([]byte, 64+q)
				}
				seen[evr.Exec(nil).Desc()] = true
			}
		}
		c.Probe("sprintf-pointer-verb", len(seen) > 1, "`sprintf(\"%p\", [1, 2])` prints a memory address that differs between evaluations", map[string]interface{}{"script": `return sprintf("%p", [1, 2]);`})
	}
	cases := []string{
		`{"a":1,"b":2}(3);`,
		`h = {"k": 1}; return h.{"a":1,"b":2,"c":3};`,
		`return {"z":1,"y":2,"x":3,"w":4}(1, 2);`,
		`return {1:"a","1":"b",1.0:"c"};`,
		`return keys({1:"a","1":"b",1.0:"c", "0": 1, 0: 2});`,
		`r = ""; foreach k, v1 in {2:"a","2":"b",2.0:"c"} { r = r + type(k) + v1; } return r;`,
		`return {"a":1,"a":2};`,
		`return {"a":1,"a":2,"a":3,"b":1,"b":2}["a"];`,
		`return string({"k": {"b": 1, "a": 2}, "j": [3, {"z": 1, "y": 2}]});`,
		`return {}[[1, 2, 3]];`,
		`k = [10, 20]; return {k: "x"};`,
		`return {"a": 1}[{"b": [1, 2]}];`,
		`return [1, [2, 3]] - {"a": [4]};`,
		`foreach x in [[1], [2]] { y = x + 1; }`,
		`function f(a) { return a; } return f([1, 2], {"k": [3]});`,
		`return [[1, 2], {"a": 1}][0][{"x": 1}];`,
		`return √[1, 2];`,
		`return -{"a": [1]};`,
		`h = {1: "int", "1": "str", 1.0: "flt", 2: "x"}; return sprintf("%v|%s|%d|%q", h, h, h, h) + sprintf("%v", [h, {"a": h}]) + sprintf("%v %v", keys(h), {2.5: 1, "2.5": 2});`,
		`h = {"b": 1, "a": 2, "c": {"z": 1, "y": 2}}; printf("%v %s\n", h, [h]); print(h, [h], {"k": h}); return sprintf("%v", h) + string(h) + sprintf("%s", keys(h));`,
		`function pick() { return "first"; } function pick() { return "second"; } return pick();`,
		`function g(a) { t("one"); return 1; } x = g(1); function g(a) { t("two"); return 2; } function g(a) { t("three"); return 3; } function h() { return g(0); } return [x, g(2), h()];`,
		`if (C) { function q() { return "then"; } } else { function q() { return "else"; } } switch (1) { case 1, 2 { function q() { return "case"; } } } return q();`,
		`function total() { return 1; } function Total() { return 2; } function TOTAL() { return 3; } function toTal() { return 4; } return totaL();`,
		`function a1() { return 1; } function a2() { return 2; } function a3() { return 3; } function a4() { return 4; } function a5() { return 5; } return a6(a1(), a2());`,
		`function f(a) { return a; } function g(a, b) { return b; } function h() { return 0; } return [f(), g(1), h(2)];`,
		`h = {"b": 1, "a": 2, "c": 3}; return h.d.e + keys(h)[5] + nosuch;`,
		"return {1: \"a\\nb\", 1: \"a\\\\nb\"};",
		"return {1: [\"a\", \"b\"], 1: [\"a\\\", \\\"b\"]};",
		"x = {\"a\\nb\": 1, \"a\\\\nb\": 1}; return keys(x);",
	}
	// literals whose texts differ only in how a character is escaped, as duplicate keys'
	// values and as keys: the compiler orders pairs by their printed text
	{
		contents := []string{"a\nb", "a\\nb", "a\", \"b", "a", "b", "a\tb", "a\\tb", "\"", "\\", "\\\"", "a, b", "a\rb", "a\\rb"}
		forms := []string{"%s", "[%s]", "{\"k\": %s}", "[%s, \"b\"]", "%s + \"\""}
		for fi, f := range forms {
			for i := range contents {
				for j := range contents {
					if i == j || (i+j+fi)%3 != 0 {
						continue
					}
					a, b := fmt.Sprintf(f, gast.EncodeString(contents[i], '"', nil)), fmt.Sprintf(f, gast.EncodeString(contents[j], '"', nil))
					cases = append(cases, "return {1: "+a+", 1: "+b+"};")
					if fi == 0 {
						cases = append(cases, "x = {"+a+": 1, "+b+": 2}; return [keys(x), x];")
					}
				}
			}
		}
	}
	// host maps whose Go keys are different values that a conversion could make one script
	// key (the same number in several Go kinds behind an interface, a number and its text):
	// whatever the conversion does with them, it does the same every time
	type holder struct {
		M interface{}
		N int
	}
	colliding := []interface{}{
		map[interface{}]interface{}{int(1): "int", int64(1): "int64", "k": 2},
		map[interface{}]interface{}{float32(1.5): "f32", float64(1.5): "f64"},
		map[interface{}]interface{}{int8(2): "i8", uint8(2): "u8", 2: "int", int32(2): "i32", uint64(2): "u64"},
		map[interface{}]interface{}{"1": "text", 1: "int", 1.0: "float", true: "bool", "true": "text"},
		map[interface{}]string{int(7): "a", int64(7): "b", int16(7): "c"},
		map[interface{}]int{float64(2): 1, int(2): 2, "2": 3},
	}
	for oi, m := range colliding {
		for form := 0; form < 3; form++ {
			id := fmt.Sprintf("colliding-host-keys/%d/%d", oi, form)
			if !c.Want(id) {
				continue
			}
			var obj interface{} = map[string]interface{}{"M": m, "N": 1}
			switch form {
			case 1:
				obj = holder{M: m, N: 1}
			case 2:
				obj = map[string]interface{}{"M": map[string]interface{}{"inner": m}, "N": 1}
			}
			script := `x = M; if (type(x) == "hash" && x.inner) { x = x.inner; } return [string(x), len(x), type(x), N, x[1], x[2], x[7], x[1.5], x["1"]];`
			c.Case(id, true)
			seen := map[string]bool{}
			for k := 0; k < 120; k++ {
				evr, err := eng.New(script, eng.Options{NoOptimize: k%2 == 0, NoHook: true})
				if err != nil {
					break
				}
				o := evr.Exec(obj)
				seen[o.Desc()+" "+errText(o.Err)] = true
				o2 := evr.Exec(obj)
				seen[o2.Desc()+" "+errText(o2.Err)] = true
			}
			if len(seen) > 1 {
				var list []string
				for k := range seen {
					list = append(list, clip(k, 160))
				}
				sort.Strings(list)
				c.Violation(id, "host map with colliding keys converts differently from run to run", map[string]interface{}{"summary": fmt.Sprintf("%T %v read by %s gives %d different results over 240 runs: %v", m, m, script, len(seen), list), "script": script})
			}
		}
	}
	for i, s := range cases {
		id := fmt.Sprintf("fixed/%d", i)
		if !c.Want(id) {
			continue
		}
		// optimised and unoptimised dumps may differ from each other: compare per setting
		c.Case(s, true)
		for _, noOpt := range []bool{false, true} {
			seen := map[string]bool{}
			for k := 0; k < 40; k++ {
				evr, err := eng.New(s, eng.Options{NoOptimize: noOpt, NoHook: true})
				if err != nil {
					seen["prepare error: "+err.Error()] = true
					continue
				}
				o := evr.Exec(nil)
				seen[evr.ProgramDump()+o.Desc()+" "+errText(o.Err)] = true
			}
			if len(seen) > 1 {
				var list []string
				for k := range seen {
					list = append(list, clip(k[strings.LastIndex(k, "\n")+1:], 120))
				}
				sort.Strings(list)
				c.Violation(id, "fixed script not deterministic", map[string]interface{}{"summary": fmt.Sprintf("%s (noopt=%v) gives %d different (program, result) pairs over 40 preparations: %v", s, noOpt, len(seen), list), "script": s})
				break
			}
		}
	}
}
