package main

import (
	"fmt"
	"sort"
	"strings"

	"verif/internal/bcv"
	"verif/internal/eng"
	"verif/internal/ev"
	"verif/internal/gast"
	"verif/internal/gen"
	"verif/internal/model"
)

func init() { register("C18", "exploration", c18) }

// verifyPrepared runs the bytecode verifier over the live prepared program.
func verifyPrepared(evr *eng.Evaluator) (probs []bcv.Problem, instrs int) {
	m := evr.E.VerifMachine()
	consts := m.VerifConstants()
	p, n := bcv.Verify("main", m.VerifBytecode(), consts, false)
	probs = append(probs, p...)
	instrs += n
	fns := m.VerifFunctions()
	names := make([]string, 0, len(fns))
	for k := range fns {
		names = append(names, k)
	}
	sort.Strings(names)
	for _, k := range names {
		p, n := bcv.Verify("function "+k, fns[k].Bytecode, consts, true)
		probs = append(probs, p...)
		instrs += n
	}
	return probs, instrs
}

var internalErrors = []string{"Pop from an empty stack", "access to constant which doesn't exist", "instruction pointer is out of bounds", "unhandled opcode", "index out of range", "nil pointer", "slice bounds"}

func isInternalError(err error) string {
	if err == nil {
		return ""
	}
	for _, s := range internalErrors {
		if strings.Contains(err.Error(), s) {
			return s
		}
	}
	return ""
}

func c18Check(c *ev.Ctx, id, class, script string) (ok bool, instrs int) {
	ok = true
	for _, noOpt := range []bool{false, true} {
		evr, err := eng.New(script, eng.Options{NoOptimize: noOpt})
		if err != nil {
			c.Count("skipped/rejected by Prepare", 1)
			return false, instrs
		}
		probs, n := verifyPrepared(evr)
		instrs += n
		if len(probs) > 0 {
			ok = false
			var lines []string
			for _, p := range probs {
				lines = append(lines, p.String())
			}
			c.Violation(id, class, map[string]interface{}{
				"summary": fmt.Sprintf("accepted script compiles to ill-formed code (noopt=%v): %s\n  script: %s\n  program:\n%s", noOpt, strings.Join(lines, "; "), script, evr.ProgramDump()),
				"script":  script, "no_optimize": noOpt, "problems": lines})
			return ok, instrs
		}
	}
	return ok, instrs
}

func c18(c *ev.Ctx) {
	c.SetRule("invariant monitor: for every script Prepare accepts (outputs of all program generators - structured, functions, constant-heavy, fault-injecting, mutators - plus boundary programs around the 16-bit operand limits), the live prepared program (hooks; optimised and NoOptimize; main body and every function body) is checked by an independent bytecode verifier: known opcodes, complete operands, jumps land on instruction starts inside the body, constant references exist and are of the right kind, function bodies return on every path, minimum stack depth never below what an instruction pops (calls count +1). Dynamically: no run of a program whose outcome the model defines may fail with one of the machine's internal errors. Distinct = distinct script; non-trivial = at least one jump or call in the program.")
	n := c.Pick(6000, 250000)
	c.ParFor(n, func(i int) {
		id := fmt.Sprintf("prog/%d", i)
		if !c.Want(id) {
			return
		}
		r := c.Rng("prog", i)
		env := gen.NewEnv(r)
		k := 1 + r.Intn(3)
		pg := &gen.ProgGen{R: r, E: &gen.ExprGen{R: r, Env: env, Calls: r.Intn(2) == 0, IllTyped: 4}, CondFields: k, MaxDepth: 2 + r.Intn(3), MaxStmts: 5,
			Funcs: r.Intn(4), Mutators: r.Intn(2) == 0, ConstHeavy: r.Intn(3) == 0, Faults: r.Intn(4) == 0}
		p := pg.Program()
		script := gast.Text(p)
		ok, instrs := c18Check(c, id, "generated program", script)
		c.Count("instructions_verified", instrs)
		c.Case(script, strings.Contains(script, "if") || strings.Contains(script, "(")) // jump or call present
		if ok && !gast.ProgramHasSqrtOfIntConst(p) {
			// dynamic clause: no internal machine error where the model defines the outcome
			obj := condObject(env.Fields, k, r.Intn(1<<k), r)
			obj["ZERO"] = model.Int(0)
			mv := modelRuns(p, env.Vars, []map[string]model.Value{obj})
			if mv[0].Skip == "" {
				for _, noOpt := range []bool{false, true} {
					evr, err := eng.New(script, eng.Options{NoOptimize: noOpt, Vars: env.Vars})
					if err != nil {
						break
					}
					o, _ := eng.FieldsToMap(obj)
					ob := evr.Exec(o)
					if s := isInternalError(ob.Err); s != "" {
						c.Violation(id, "internal machine error at run time", map[string]interface{}{
							"summary": fmt.Sprintf("run failed with the machine's internal error %q although the script uses no value-less call (model: %s)\n  script: %s", ob.Err, mv[0].Res, script), "script": script})
					}
					c.Count("dynamic_runs", 1)
				}
			}
		}
		c.SampleEvery(i, func() interface{} { return map[string]string{"script": script} })
	})
	// operand-count families: hash / array / call shapes with repeated or colliding
	// keys and elements (the verifier needs no model, so duplicates are in scope)
	nh := c.Pick(1500, 60000)
	c.ParFor(nh, func(i int) {
		id := fmt.Sprintf("shape/%d", i)
		if !c.Want(id) {
			return
		}
		r := c.Rng("shape", i)
		keys := []string{"\"a\"", "\"a\"", "\"b\"", "1", "1", "1.0", "\"1\"", "k", "\"k\" + \"\"", "2 - 1", "x"}
		vals := []string{"1", "2", "\"v\"", "x", "[1, 2]", "{\"n\": 1}", "1 + 1", "len(\"ab\")"}
		mkHash := func() string {
			n := r.Intn(6)
			var parts []string
			for j := 0; j < n; j++ {
				parts = append(parts, keys[r.Intn(len(keys))]+": "+vals[r.Intn(len(vals))])
			}
			return "{" + strings.Join(parts, ", ") + "}"
		}
		h := mkHash()
		var script string
		switch r.Intn(7) {
		case 0:
			script = "return " + h + ";"
		case 1:
			script = "x = 1; k = \"kk\"; y = [0, " + h + ", 3]; return len(y);"
		case 2:
			script = "x = 2; k = \"a\"; return len(string(" + h + ")) + len(keys(" + mkHash() + "));"
		case 3:
			script = "function f(p, q) { x = p; k = q; return " + h + "; } return f(1, \"a\");"
		case 4:
			script = "x = 0; k = \"z\"; foreach e in [" + h + ", " + mkHash() + "] { x = x + len(e); } return x;"
		case 5:
			script = "x = 1; k = 2; if (" + h + ") { return 1; } return 1 + len(" + h + ");"
		default:
			script = "x = 1; k = 1; return {\"outer\": " + h + ", \"outer\": " + mkHash() + "};"
		}
		ok, instrs := c18Check(c, id, "hash literal shape", script)
		c.Count("instructions_verified", instrs)
		c.Case(script, true)
		if ok {
			for _, noOpt := range []bool{false, true} {
				if evr, err := eng.New(script, eng.Options{NoOptimize: noOpt}); err == nil {
					ob := evr.Exec(nil)
					if sErr := isInternalError(ob.Err); sErr != "" {
						c.Violation(id, "internal machine error at run time (hash shape)", map[string]interface{}{
							"summary": fmt.Sprintf("run failed with the machine's internal error %q; the script uses no value-less call\n  script: %s", ob.Err, script), "script": script})
					}
					c.Count("dynamic_runs", 1)
				}
			}
		}
	})
	// boundary programs
	type bcase struct{ name, script string }
	var bs []bcase
	for _, v := range []int{0, 1, 255, 256, 65533, 65534, 65535, 65536, 65537} {
		bs = append(bs, bcase{fmt.Sprintf("literal-%d", v), fmt.Sprintf("x = %d; if (x == %d) { return %d + 1; } return %d;", v, v, v, v)})
	}
	// big constant pools (indexes above 255 need both operand bytes)
	for _, cnt := range []int{24, 25, 26, 255, 256, 257, 300, 1000} {
		var b strings.Builder
		for i := 0; i < cnt; i++ {
			fmt.Fprintf(&b, "v%d = \"s%d\"; ", i, i)
		}
		fmt.Fprintf(&b, "if (v%d == \"s%d\") { return v%d; } return v0;", cnt-1, cnt-1, cnt-1)
		bs = append(bs, bcase{fmt.Sprintf("constants-%d", cnt), b.String()})
	}
	// function bodies whose last instruction's operand byte equals the OpReturn opcode (24)
	{
		var b strings.Builder
		b.WriteString("function last24() { 24 } function last24b(a) { a = 1; 24 } ")
		// the 25th constant has index 24
		for i := 0; i < 23; i++ {
			fmt.Fprintf(&b, "k%d = \"c%d\"; ", i, i)
		}
		b.WriteString("function lookup24() { zz } function call24() { f24(1,2,3,4,5,6,7,8,9,10,11,12,13,14,15,16,17,18,19,20,21,22,23,24) } function f24(a,b,c,d,e,f,g,h,i,j,k,l,m,n,o,p,q,r,s,t,u,v,w,x) { return 1; } ")
		b.WriteString("function arr24() { [1,2,3,4,5,6,7,8,9,10,11,12,13,14,15,16,17,18,19,20,21,22,23,24] } return 1;")
		bs = append(bs, bcase{"function-last-byte-24", b.String()})
	}
	bs = append(bs,
		bcase{"nested-function-definition-last", "function outer() { function inner() { return 1; } } outer(); return inner();"},
		bcase{"nested-function-definition-first", "function outer(a) { function inner(b) { return b + 1; } return inner(a); } return outer(1);"},
		bcase{"nested-function-definition-middle", "function outer(a) { x = a; function inner() { y = 2; } x = x + 1; } outer(1); inner(); return [x, y];"},
		bcase{"function-defined-in-if", "if (C) { function viaIf() { return 7; } } return viaIf();"},
		bcase{"function-defined-in-loop-in-function", "function outer() { foreach e in [1, 2] { function perItem(q) { return q * 2; } z = perItem(e); } } outer(); return z;"},
		bcase{"three-levels-of-definitions", "function l1() { function l2() { function l3() { return 3; } return l3(); } return l2(); } return l1();"},
		bcase{"definition-after-return-in-function", "function outer() { return 1; function late() { return 2; } } outer(); return late();"})
	bs = append(bs, bcase{"ternary-last", "true ? 1 : 2;"}, bcase{"ternary-last-in-function", "function f(a) { a ? 1 : 2 } f(1); return 1;"},
		bcase{"ternary-in-condition", "if (C ? 1 : false) { t(1); } return 2;"}, bcase{"empty-function", "function f() { } f(); return 1;"},
		bcase{"if-last", "if (C) { x = 1; }"}, bcase{"while-last", "w = 1; while (w) { w--; }"}, bcase{"foreach-last", "foreach e in [1] { t(e); }"},
		bcase{"switch-last", "switch (C) { case 1 { t(1); } }"}, bcase{"switch-default-only", "switch (C) { default { t(1); } }"}, bcase{"switch-empty", "switch (C) { } return 1;"},
		bcase{"return-in-all-arms", "function f(a) { if (a) { return 1; } else { return 2; } } return f(0);"},
		bcase{"constant-folding-to-limit", "return 65533 + 1;"}, bcase{"constant-folding-over-limit", "return 65534 + 1;"}, bcase{"fold-then-jump", "if (1 + 1 == 2) { return 3 * 3; } return 4 - 5;"},
		bcase{"false-branch-removed", "if (false) { t(1); } else { t(2); } while (false) { t(3); } return 1 == 2;"})
	// every statement kind as the last statement of a function, with a return in some arm only:
	// the body must still end in a return on every path
	for i, tail := range []string{"if (a) { return 1; }", "if (a) { return 1; } else { x = 2; }", "if (a) { x = 1; } else { return 2; }", "if (a) { return 1; } else if (b) { return 2; }",
		"switch (a) { case 1 { return 1; } }", "switch (a) { case 1 { x = 1; } default { return 2; } }", "switch (a) { default { return 2; } case 1 { x = 1; } }", "while (a) { return 1; }", "for (a) { a--; }",
		"foreach e in [a] { return e; }", "foreach k, e in {\"k\": a} { if (e) { return k; } }", "if (a) { if (b) { return 1; } }", "if (a) { return 1; } else { if (b) { return 2; } }", "a ? 1 : 2", "x = a ? 1 : 2;",
		"if (a) { foreach e in [1] { return e; } }", "if (a) { while (b) { return 1; } } else { return 3; }", "local q; if (a) { return q; }", "function inner() { if (a) { return 1; } }"} {
		bs = append(bs, bcase{fmt.Sprintf("function-tail-%d", i), "function f(a, b) { x = 0; " + tail + " } f(0, 0); f(1, 1); return 1;"})
	}
	// the constant-condition family of C02 (what the optimizer removes, folds and cuts)
	for _, cp := range constCondPrograms() {
		bs = append(bs, bcase{cp.id, gast.Text(cp.p)})
	}
	// element / argument / pair counts around the byte and 16-bit boundaries of the operand
	for _, cnt := range []int{0, 1, 255, 256, 257, 1000, 65535} {
		if cnt > 1000 && !c.Thorough() {
			continue
		}
		els := make([]string, cnt)
		for i := range els {
			els[i] = fmt.Sprint(i % 7)
		}
		bs = append(bs, bcase{fmt.Sprintf("array-literal-%d-elements", cnt), "a = [" + strings.Join(els, ", ") + "]; return len(a);"})
		if cnt <= 1000 {
			prs := make([]string, cnt)
			for i := range prs {
				prs[i] = fmt.Sprintf("\"k%d\": %d", i, i)
			}
			bs = append(bs, bcase{fmt.Sprintf("hash-literal-%d-pairs", cnt), "h = {" + strings.Join(prs, ", ") + "}; return len(h);"})
			bs = append(bs, bcase{fmt.Sprintf("call-with-%d-arguments", cnt), "return len(sprintf(\"x\", " + strings.Join(append([]string{"0"}, els...), ", ") + "));"})
			ps := make([]string, cnt)
			for i := range ps {
				ps[i] = fmt.Sprintf("p%d", i)
			}
			bs = append(bs, bcase{fmt.Sprintf("function-with-%d-parameters", cnt), "function many(" + strings.Join(ps, ", ") + ") { return " + fmt.Sprint(cnt) + "; } return many(" + strings.Join(els, ", ") + ");"})
		}
	}
	// jump operands near the 16-bit limit: bodies just below 64 KB
	for _, stmts := range []int{5000, 7270, 7280} {
		var b strings.Builder
		for i := 0; i < stmts; i++ {
			b.WriteString("x = 1; ")
		}
		b.WriteString("if (x) { y = 2; } return y;")
		bs = append(bs, bcase{fmt.Sprintf("long-body-%d", stmts), b.String()})
	}
	for _, b := range bs {
		id := "boundary:" + b.name
		if !c.Want(id) {
			continue
		}
		_, instrs := c18Check(c, id, "boundary program "+b.name, b.script)
		c.Count("instructions_verified", instrs)
		c.Case(b.script, true)
		// and they must run without internal errors
		if evr, err := eng.New(b.script, eng.Options{Budget: 5000000}); err == nil {
			ob := evr.Exec(map[string]interface{}{"C": 1})
			if s := isInternalError(ob.Err); s != "" {
				c.Violation(id, "boundary program internal error "+b.name, map[string]interface{}{"summary": fmt.Sprintf("%s: run failed with internal error %q", b.name, ob.Err), "script": b.script})
			}
		}
	}
	// loops that never leave, with a constant condition the optimizer removes and a body that may be
	// empty, after code the optimizer shortens: the back jump must still land on an instruction
	// (these are verified, and run only for a few thousand instructions)
	{
		prefixes := []string{"", "x = 1 + 2 + 3; ", "x = 1 + 2; ", "x = 2 * 3 - 1; y = 4 / 2; ", "if (false) { t(1); } ", "x = 1 + 2; if (1 == 2) { t(1); } else { y = 3 * 3; } ", "x = \"a\"; x = 1 + 1 + 1 + 1 + 1 + 1 + 1 + 1; "}
		loops := []string{"while (true) { }", "while (1 == 1) { }", "for (true) { }", "while (1) { }", "while (2 > 1) { }", "while (true) { while (true) { } }", "while (true) { x = 1 + 1; }", "while (true) { if (false) { t(1); } }", "while (true) { } while (true) { }"}
		places := []string{"%s%s return x;", "%sif (x) { %s } return false;", "function f() { %s%s } f(); return 1;", "%sforeach e in [1] { %s } return 2;", "%sif (C) { y = 2 + 2; %s } else { %s } return 3;", "%sswitch (C) { case 1 { %s } } return 4;"}
		for pi, pre := range prefixes {
			for li, lp := range loops {
				for pl, place := range places {
					id := fmt.Sprintf("boundary:endless-loop-%d-%d-%d", pi, li, pl)
					if !c.Want(id) {
						continue
					}
					args := []interface{}{pre, lp}
					if strings.Count(place, "%s") == 3 {
						args = append(args, lp)
					}
					script := fmt.Sprintf(place, args...)
					_, instrs := c18Check(c, id, "endless loop after foldable code", script)
					c.Count("instructions_verified", instrs)
					c.Count("endless_loop_programs", 1)
					c.Case(script, true)
					if evr, err := eng.New(script, eng.Options{Budget: 3000}); err == nil {
						ob := evr.Exec(map[string]interface{}{"C": 1})
						if s := isInternalError(ob.Err); s != "" {
							c.Violation(id, "endless loop internal error", map[string]interface{}{"summary": fmt.Sprintf("run failed with internal error %q", ob.Err), "script": script})
						}
					}
				}
			}
		}
	}
	// oversize programs: either rejected by Prepare or verified sound (never accepted with truncated operands)
	for _, stmts := range []int{9400, 12000} {
		id := fmt.Sprintf("boundary:oversize-%d", stmts)
		if !c.Want(id) {
			continue
		}
		var b strings.Builder
		for i := 0; i < stmts; i++ {
			b.WriteString("x = 1; ")
		}
		b.WriteString("if (x) { y = 2; } return y;")
		script := b.String()
		c.Case(fmt.Sprint("oversize", stmts), true)
		evr, err := eng.New(script, eng.Options{Budget: 5000000})
		if err != nil {
			c.Count("oversize_rejected_by_prepare", 1)
			continue
		}
		probs, _ := verifyPrepared(evr)
		got := evr.Exec(nil).Desc()
		if len(probs) > 0 || got != "INTEGER:2" {
			c.Violation(id, "oversize body accepted", map[string]interface{}{"summary": fmt.Sprintf("a %d-statement body (more than 65535 bytes) is accepted but its jumps are truncated: verifier %v, result %s (expected INTEGER:2 or a Prepare error)", stmts, probs, got), "script_statements": stmts})
		}
	}
	c18SizeBoundary(c)
	// the program in force stays well-formed across a second Prepare (accepted or refused)
	c20RePrepare(c)
	// known findings: value-less constructs accepted in value position
	for _, pr := range []struct{ name, script string }{
		{"assign-in-condition", "if (a = 1) { t(1); } return 2;"},
		{"chained-assignment", "a = b = 1; return a;"},
		{"postfix-in-value-position", "b = 1; a = b++; return a;"},
		{"statement-in-value-position", "x = if (a) { 1 }; return x;"},
		{"loop-in-value-position", "x = foreach e in [1] { }; return x;"},
		{"parenthesised-assignment-as-value", "return [(y = 3)];"},
		{"function-definition-as-value", "return function f() { return 1; };"},
	} {
		id := "probe:" + pr.name
		if !c.Want(id) {
			continue
		}
		evr, err := eng.New(pr.script, eng.Options{})
		fails, what := false, ""
		if err == nil {
			probs, _ := verifyPrepared(evr)
			ob := evr.Exec(nil)
			if len(probs) > 0 || isInternalError(ob.Err) != "" {
				fails = true
				what = fmt.Sprintf("`%s` is accepted; verifier: %v; run: %s %s", pr.script, probs, ob.Desc(), errText(ob.Err))
			}
		}
		c.Probe(pr.name, fails, what, map[string]interface{}{"script": pr.script})
	}
}

// c18SizeBoundary: bodies (the main program, a function) that end within a few bytes of
// the 65535-byte limit, closed by each construct that jumps: byte by byte across the limit,
// Prepare either refuses the script or the code it accepted is well-formed and runs without
// an internal error - a jump operand is never cut to sixteen bits.
func c18SizeBoundary(c *ev.Ctx) {
	closers := []struct{ name, text string }{
		{"if", "if (C) { a = 1; }"},
		{"if-else", "if (C) { a = 1; } else { a = 2; }"},
		{"while", "while (C) { C = false; }"},
		{"foreach", "foreach e in [1] { a = e; }"},
		{"ternary", "a = C ? 1 : 2;"},
		{"switch", "switch (C) { case 1 { a = 1; } default { a = 2; } }"},
		{"assignment", "a = true;"},
	}
	accepted, refused := 0, 0
	for ci, cl := range closers {
		for k := 0; k <= 12; k++ {
			for _, inFn := range []bool{false, true} {
				id := fmt.Sprintf("size-boundary/%s/%d/%v", cl.name, k, inFn)
				if !c.Want(id) {
					continue
				}
				// 9357 seven-byte statements and k five-byte ones: the closing statement starts
				// between offsets 65499 and 65559
				body := strings.Repeat("a = 1; ", 9357) + strings.Repeat("a = true; ", k) + cl.text
				script := body + " return 7;"
				if inFn {
					script = "function big(C) { " + body + " } big(C); return 7;"
				}
				c.Case(id, true)
				for _, noOpt := range []bool{(ci+k)%2 == 0} {
					evr, err := eng.New(script, eng.Options{NoOptimize: noOpt, Budget: 5000000})
					if err != nil {
						refused++
						continue
					}
					accepted++
					probs, _ := verifyPrepared(evr)
					var bad string
					for _, cv := range []interface{}{false, true, 1} {
						ob := evr.Exec(map[string]interface{}{"C": cv})
						if s := isInternalError(ob.Err); s != "" || (ob.Err == nil && ob.Desc() != "INTEGER:7") {
							bad = fmt.Sprintf("run with C=%v gives %s %s", cv, ob.Desc(), errText(ob.Err))
							break
						}
					}
					if len(probs) > 0 || bad != "" {
						c.Violation(id, "body at the size limit accepted with damaged jumps", map[string]interface{}{
							"summary": fmt.Sprintf("a body of 9357 + %d statements closed by `%s` (in a function: %v, noopt=%v) is accepted; verifier: %v; %s (a Prepare error, or sound code returning 7, expected)", k, cl.text, inFn, noOpt, probs, bad), "closing_statement": cl.text})
					}
				}
			}
		}
	}
	c.Extra("size_boundary_bodies", map[string]int{"accepted": accepted, "refused": refused})
}
