package main

import (
	"context"
	"errors"
	"fmt"
	"strings"

	"github.com/skx/evalfilter/v2/code"
	"github.com/skx/evalfilter/v2/object"
	"github.com/skx/evalfilter/v2/vm"

	"verif/internal/eng"
	"verif/internal/ev"
	"verif/internal/gast"
	"verif/internal/gen"
	"verif/internal/model"
)

func init() { register("C07", "exploration", c07) }

var errInjectedAbort = errors.New("verif: injected abort (simulated time-out)")

// historyCheck runs the object sequence on one much-used evaluator A and, at
// every step, on a freshly prepared evaluator B holding A's variables.
func historyCheck(c *ev.Ctx, id, class, script string, noOpt bool, vars map[string]model.Value, objs []map[string]model.Value, abortAt map[int]int64, cancelRun int, cancelStep int64, hostSets map[int]map[string]model.Value) (judged int, faults map[string]int) {
	faults = map[string]int{}
	// a real context (set before Prepare) that the hook cancels during run `cancelRun`:
	// a genuine time-out inside the history; later runs happen under the expired context
	ctx, cancel := context.WithCancel(context.Background())
	defer cancel()
	a, err := eng.New(script, eng.Options{Vars: vars, NoOptimize: noOpt, Ctx: ctx})
	if err != nil {
		c.Count("skipped/rejected by Prepare", 1)
		return 0, faults
	}
	mainBC, consts := a.MainBytecode(), a.ConstDump()
	if d := a.ScopeDepth(); d != 0 {
		c.Violation(id, class+"/scope-after-prepare", map[string]interface{}{"summary": fmt.Sprintf("%d scopes open after Prepare: %s", d, script), "script": script})
		return 0, faults
	}
	report := func(i int, what string, extra map[string]interface{}) {
		d := map[string]interface{}{
			"summary": fmt.Sprintf("history step %d of %d: %s\n  script: %s\n  objects so far: %v", i+1, len(objs), what, script, objsBrief(objs[:i+1])),
			"script":  script, "step": i, "no_optimize": noOpt, "objects": objsBrief(objs), "abort_at": fmt.Sprint(abortAt),
		}
		for k, v := range extra {
			d[k] = v
		}
		c.Violation(id, class, d)
	}
	for i, o := range objs {
		obj, _ := eng.FieldsToMap(o)
		// the host stores variables between two runs (names earlier runs read as fields)
		for name, v := range hostSets[i] {
			a.E.SetVariable(name, eng.ToObject(v))
			faults["host-set-variable"]++
		}
		if i == cancelRun {
			a.OnStep = func(m *vm.VM, ip int, op code.Opcode) error {
				if a.Steps() > cancelStep {
					cancel()
				}
				return nil
			}
			ob := a.Exec(obj)
			a.OnStep = nil
			if ob.Budget {
				return judged, faults
			}
			if ob.Panicked {
				report(i, "panic escaped after the context was cancelled: "+ob.PanicMsg, nil)
				return judged, faults
			}
			if ctx.Err() != nil {
				faults["context-cancelled"]++
			}
		} else if k, ok := abortAt[i]; ok {
			// simulated time-out landing after k instructions of this run
			a.OnStep = func(m *vm.VM, ip int, op code.Opcode) error {
				if a.Steps() > k {
					return errInjectedAbort
				}
				return nil
			}
			ob := a.Exec(obj)
			a.OnStep = nil
			if ob.Budget {
				return judged, faults
			}
			if ob.Panicked {
				report(i, "panic escaped after injected abort: "+ob.PanicMsg, nil)
				return judged, faults
			}
			if ob.Err != nil && errors.Is(ob.Err, errInjectedAbort) {
				faults["abort"]++
			}
		} else {
			b, err := eng.New(script, eng.Options{NoOptimize: noOpt, Ctx: ctx})
			if err != nil {
				report(i, "fresh Prepare of the same script failed: "+err.Error(), nil)
				return judged, faults
			}
			a.CopyVarsTo(b)
			oa := a.Exec(obj)
			ga := a.GlobalsString()
			ob := b.Exec(obj)
			gb := b.GlobalsString()
			if oa.Budget || ob.Budget {
				c.Count("skipped/budget", 1)
				return judged, faults
			}
			judged++
			if oa.Err != nil {
				faults["error-or-panic"]++
			}
			va := runView{Res: oa.Desc(), Trace: oa.Trace, Globals: ga}
			vb := runView{Res: ob.Desc(), Trace: ob.Trace, Globals: gb}
			if oa.Panicked || ob.Panicked || !sameView(va, vb) {
				report(i, fmt.Sprintf("much-used evaluator differs from a fresh one holding the same variables\n  used:  %s %s\n  fresh: %s %s", va, errText(oa.Err), vb, errText(ob.Err)), map[string]interface{}{"used": va.String(), "fresh": vb.String()})
				return judged, faults
			}
			if oa.Steps != ob.Steps {
				report(i, fmt.Sprintf("run cost differs: %d instructions on the used evaluator, %d on a fresh one", oa.Steps, ob.Steps), nil)
				return judged, faults
			}
		}
		// quiescent-point invariants on A (hooks)
		if d := a.ScopeDepth(); d != 0 {
			report(i, fmt.Sprintf("%d scope(s) left open after the run", d), nil)
			return judged, faults
		}
		if bc := a.MainBytecode(); bc != mainBC {
			report(i, "the machine no longer points at the main program after the run", map[string]interface{}{"bytecode_now": bc, "bytecode_prepared": mainBC})
			return judged, faults
		}
		if cd := a.ConstDump(); cd != consts {
			report(i, "the constant pool changed during the run", map[string]interface{}{"constants_now": cd, "constants_prepared": consts})
			return judged, faults
		}
	}
	return judged, faults
}

func objsBrief(objs []map[string]model.Value) []string {
	var out []string
	for _, o := range objs {
		out = append(out, fmt.Sprint(describeFields(o)))
	}
	return out
}

func c07(c *ev.Ctx) {
	c.SetRule("history monitor: generated scripts (functions, loops, mutators, field-controlled fault injectors: division by zero, panic(), arity mismatch / unknown function, early return from nested loops, bad index, plus hook-injected aborts at instruction K as simulated time-outs) are run over 6/12-object histories on one evaluator A; at every step a freshly prepared evaluator B receives A's variables (GetVariable/SetVariable semantics via deep copies) and runs the same object: result, trace, variables and instruction count must agree; after every run on A the hooks assert scope depth 0, machine pointing at the main program, constant pool unchanged. Distinct = distinct (script, history); non-trivial = at least one faulting run in the history.")
	n := c.Pick(400, 10000)
	hlen := c.Pick(6, 12)
	c.ParFor(n, func(i int) {
		id := fmt.Sprintf("hist/%d", i)
		if !c.Want(id) {
			return
		}
		r := c.Rng("hist", i)
		env := gen.NewEnv(r)
		k := 1 + r.Intn(3)
		pg := &gen.ProgGen{R: r, E: &gen.ExprGen{R: r, Env: env}, CondFields: k, MaxDepth: 2 + r.Intn(2), MaxStmts: 4,
			Funcs: 1 + r.Intn(3), Mutators: true, Faults: true, ConstHeavy: r.Intn(3) == 0}
		p := pg.Program()
		script := gast.Text(p)
		var objs []map[string]model.Value
		abortAt := map[int]int64{}
		for j := 0; j < hlen; j++ {
			o := condObject(env.Fields, k, r.Intn(1<<k), r)
			o["ZERO"] = model.Int(0)
			// enumerate the fault pattern: each step enables at most one injector
			f := r.Intn(9)
			for q := 1; q <= 5; q++ {
				o[fmt.Sprintf("F%d", q)] = model.Bool(q == f)
			}
			if f == 6 {
				abortAt[j] = int64(r.Intn(60))
			}
			objs = append(objs, o)
		}
		cancelRun, cancelStep := -1, int64(0)
		if r.Intn(4) == 0 {
			cancelRun, cancelStep = r.Intn(hlen-1), int64(r.Intn(80))
		}
		// between runs the host may store a variable named like a field the script reads
		hostSets := map[int]map[string]model.Value{}
		if r.Intn(2) == 0 {
			for q := 1 + r.Intn(2); q > 0; q-- {
				at := 1 + r.Intn(hlen-1)
				if hostSets[at] == nil {
					hostSets[at] = map[string]model.Value{}
				}
				switch r.Intn(5) {
				case 0:
					hostSets[at]["I1"] = gen.RandScalar(r, model.KInt)
				case 1:
					hostSets[at]["S1"] = gen.RandScalar(r, model.KStr)
				case 2:
					hostSets[at]["B1"] = gen.RandScalar(r, model.KBool)
				case 3:
					hostSets[at]["I2"] = model.Int(int64(r.Intn(5)))
				default:
					hostSets[at][fmt.Sprintf("C%d", 1+r.Intn(k))] = model.Bool(r.Intn(2) == 0)
				}
			}
		}
		judged, faults := historyCheck(c, id, "history", script, r.Intn(2) == 0, env.Vars, objs, abortAt, cancelRun, cancelStep, hostSets)
		nf := 0
		for k, v := range faults {
			c.Count("faults/"+k, v)
			nf += v
		}
		c.Count("history_steps_judged", judged)
		c.Case(fmt.Sprint(script, objsBrief(objs)), judged > 0 && nf > 0)
		c.SampleEvery(i, func() interface{} {
			return map[string]interface{}{"script": script, "history_len": hlen, "faults": faults}
		})
	})
	c07Limits(c)
	c07Fixed(c)
	// loops abandoned by return / error in one run, later runs that skip them and enter
	// other loops mentioning their names (the stream is shared with C02)
	c02ExitHistories(c)
	c07HostileHistories(c)
	c07HostUpdatesInPlace(c)
	c07HostIterable(c)
	// the host changes a record in place and hands the same pointer / map to the next run
	// (the stream is shared with C04)
	c04SameReference(c)
}

type c07Odd struct {
	F0 map[interface{}]interface{}
	F1 map[bool]int
	M  map[string]int
	A  map[uint8]string
}

// c07HostileHistories: runs over objects the engine cannot fully represent (maps with
// unusable key kinds, nil maps, cyclic documents, functions, channels ...) must not change
// what later runs over other objects see: every step is compared with a fresh evaluator
// given the same object.
func c07HostileHistories(c *ev.Ctx) {
	scripts := []string{
		`return [type(F0), type(F1), type(M), type(A), len(string(M))];`,
		`n = 0; foreach k, v1 in M { n = n + 1; } return [n, type(F0), string(F1)];`,
		`function look() { return [type(M), type(F0)]; } return [look(), len(string(A)), F1 == F1];`,
		`return [keys(M), M.a, F0.x, type(Labels), type(Items), string(Labels)];`,
	}
	pool := func() []interface{} {
		var nilMap map[string]interface{}
		objs := append([]interface{}{}, gen.HostileValues()...)
		objs = append(objs,
			c07Odd{F0: map[interface{}]interface{}{"x": 1}, F1: map[bool]int{true: 1}, M: map[string]int{"a": 1}, A: map[uint8]string{1: "b"}},
			&c07Odd{}, c07Odd{M: map[string]int{}},
			map[string]interface{}{"F0": map[interface{}]interface{}{}, "M": map[string]interface{}{"a": 2}, "Labels": nilMap, "Items": []interface{}{nilMap, map[int]int{}}},
			map[string]interface{}{"M": map[string]interface{}{}, "Labels": map[string]interface{}{}, "F1": map[bool]bool{}},
			struct{ M, Labels map[string]string }{nil, map[string]string{"k": "v"}},
			struct{ M map[string]interface{} }{map[string]interface{}{"a": nilMap}},
		)
		return objs
	}
	n := c.Pick(80, 2000)
	c.ParFor(n, func(i int) {
		id := fmt.Sprintf("hostile-history/%d", i)
		if !c.Want(id) {
			return
		}
		r := c.Rng("hostile-history", i)
		objs := pool()
		script := scripts[r.Intn(len(scripts))]
		noOpt := r.Intn(2) == 0
		used, err := eng.New(script, eng.Options{NoOptimize: noOpt, Budget: 200000})
		if err != nil {
			return
		}
		var seq []int
		for step := 0; step < 8; step++ {
			k := r.Intn(len(objs))
			if step%2 == 1 {
				k = len(objs) - 1 - r.Intn(7) // one of the plainer objects added above
			}
			seq = append(seq, k)
			fresh, err := eng.New(script, eng.Options{NoOptimize: noOpt, Budget: 200000})
			if err != nil {
				return
			}
			a, b := used.Exec(objs[k]), fresh.Exec(objs[k])
			c.Case(fmt.Sprint(id, step), true)
			if a.Desc() != b.Desc() || errText(a.Err) != errText(b.Err) {
				c.Violation(id, "a run over an odd object changes what later runs see", map[string]interface{}{
					"summary": fmt.Sprintf("%s (noopt=%v), objects #%v of the pool one after the other: at step %d the used evaluator gives %s %s, a fresh one %s %s (object %T)", script, noOpt, seq, step+1, a.Desc(), errText(a.Err), b.Desc(), errText(b.Err), objs[k]), "script": script})
				return
			}
		}
	})
}

// c07Limits: failing runs deep inside recursion must not use up the call-depth budget
// (or anything else) of later runs.
func c07Limits(c *ev.Ctx) {
	script := `function down(n) { if (n <= 0) { if (Mode == 1) { panic("bottom"); } if (Mode == 2) { return 1 % Zero; } if (Mode == 3) { return down(1, 2); } if (Mode == 4) { return nosuch(); } return 0; } return 1 + down(n - 1); } return down(Depth);`
	for variant := 0; variant < c.Pick(4, 16); variant++ {
		id := fmt.Sprintf("limits/%d", variant)
		if !c.Want(id) {
			continue
		}
		r := c.Rng("limits", variant)
		a, err := eng.New(script, eng.Options{NoOptimize: variant%2 == 1, Budget: 50000000})
		if err != nil {
			c.Violation(id, "prepare", map[string]interface{}{"summary": err.Error()})
			continue
		}
		for step := 0; step < 8; step++ {
			mode := 1 + r.Intn(5)
			if step == 0 && variant%4 < 2 {
				mode = 5
			}
			if step%2 == 1 {
				mode = 0 // a run that must succeed, at the engine's call-depth limit
			}
			depth := 2000 + r.Intn(1500)
			if mode == 5 {
				depth = 15000 + r.Intn(10000) // runs into the call-depth limit itself
			}
			if mode == 0 {
				depth = 9999 // 10000 nested calls is the most the engine allows
				if step%4 == 3 {
					depth -= r.Intn(3)
				}
			}
			obj := map[string]interface{}{"Mode": mode, "Depth": depth, "Zero": 0}
			b, _ := eng.New(script, eng.Options{NoOptimize: variant%2 == 1, Budget: 50000000})
			oa, ob := a.Exec(obj), b.Exec(obj)
			c.Case(fmt.Sprint(id, step), true)
			if oa.Desc() != ob.Desc() || oa.Steps != ob.Steps || (mode == 0 && oa.Desc() != fmt.Sprintf("INTEGER:%d", depth)) {
				c.Violation(id, "limits drift after failing runs", map[string]interface{}{
					"summary": fmt.Sprintf("step %d (mode %d, recursion depth %d): used evaluator gives %s %s after %d instructions, a fresh one %s %s after %d", step+1, mode, depth, oa.Desc(), errText(oa.Err), oa.Steps, ob.Desc(), errText(ob.Err), ob.Steps), "script": script})
				break
			}
		}
	}
}

// fixed histories, each a former defect
func c07Fixed(c *ev.Ctx) {
	type step struct {
		obj  map[string]model.Value
		want string
	}
	cases := []struct {
		name, script string
		steps        []step
	}{
		{"error-inside-function-then-ok", `function f(a){ if (Bad) { return 1 / Zero; } return a + 1; } return f(10);`,
			[]step{{map[string]model.Value{"Bad": model.Bool(false), "Zero": model.Int(0)}, "INTEGER:11"}, {map[string]model.Value{"Bad": model.Bool(true), "Zero": model.Int(0)}, "error"}, {map[string]model.Value{"Bad": model.Bool(false), "Zero": model.Int(0)}, "INTEGER:11"}}},
		{"panic-inside-function-then-ok", `function f(a){ if (Bad) { panic("x"); } return a + 1; } return f(1);`,
			[]step{{map[string]model.Value{"Bad": model.Bool(true)}, "error"}, {map[string]model.Value{"Bad": model.Bool(false)}, "INTEGER:2"}}},
		{"arity-mismatch-then-ok", `function f(a){ return a; } if (Bad) { return f(1, 2); } return f(5);`,
			[]step{{map[string]model.Value{"Bad": model.Bool(true)}, "error"}, {map[string]model.Value{"Bad": model.Bool(false)}, "INTEGER:5"}, {map[string]model.Value{"Bad": model.Bool(false)}, "INTEGER:5"}}},
		{"early-return-from-foreach", `foreach e in [1,2,3] { if (e == 2) { return e; } } return 0;`,
			[]step{{nil, "INTEGER:2"}, {nil, "INTEGER:2"}, {nil, "INTEGER:2"}}},
		{"literal-not-mutated-by-increment", `x = 70000; x++; y = 70000; return [x, y];`,
			[]step{{nil, "ARRAY:[70001, 70000]"}, {nil, "ARRAY:[70001, 70000]"}}},
		{"float-literal-not-mutated", `x = 1.5; x++; return x;`, []step{{nil, "FLOAT:2.5"}, {nil, "FLOAT:2.5"}, {nil, "FLOAT:2.5"}}},
		{"string-iteration-restarts", `n = 0; foreach ch in "abc" { n = n + 1; if (n == 2) { return n; } } return n;`, []step{{nil, "INTEGER:2"}, {nil, "INTEGER:2"}}},
		{"operands-left-by-an-abandoned-call-are-not-inherited", `function leave(a) { foreach e in [7, 8, 9] { if (e == 8) { return e; } } return 0; } function faulty(z) { x = [1, 2, 1 / z]; return x; } function boom() { y = [4, 5, panic("p")]; return y; } function probe(m) { return t(m); } if (Mode == 1) { return leave(1); } if (Mode == 2) { return faulty(0); } if (Mode == 3) { return boom(); } return probe(1);`,
			[]step{{map[string]model.Value{"Mode": model.Int(0)}, "error"}, {map[string]model.Value{"Mode": model.Int(1)}, "INTEGER:8"}, {map[string]model.Value{"Mode": model.Int(0)}, "error"}, {map[string]model.Value{"Mode": model.Int(2)}, "error"}, {map[string]model.Value{"Mode": model.Int(0)}, "error"}, {map[string]model.Value{"Mode": model.Int(3)}, "error"}, {map[string]model.Value{"Mode": model.Int(0)}, "error"}, {map[string]model.Value{"Mode": model.Int(1)}, "INTEGER:8"}}},
		{"a-failed-range-fails-again", `n = 0; foreach i in Lo..Hi { n = n + i; } return n;`,
			[]step{{map[string]model.Value{"Lo": model.Int(1), "Hi": model.Int(3)}, "INTEGER:6"}, {map[string]model.Value{"Lo": model.Int(5), "Hi": model.Int(2)}, "error"}, {map[string]model.Value{"Lo": model.Int(5), "Hi": model.Int(2)}, "error"}, {map[string]model.Value{"Lo": model.Int(1), "Hi": model.Int(3)}, "INTEGER:6"}, {map[string]model.Value{"Lo": model.Int(5), "Hi": model.Int(2)}, "error"}, {map[string]model.Value{"Lo": model.Int(2), "Hi": model.Int(2)}, "INTEGER:2"}}},
		{"every-failing-operation-fails-again", `if (Op == 1) { return len(A..B); } if (Op == 2) { return A / B; } if (Op == 3) { return A % B; } if (Op == 4) { return [1, 2][S]; } if (Op == 5) { return {"k": 1}[[A]]; } if (Op == 6) { return A ** S; } return len(1..3) + 8 / 2 + 7 % 4;`,
			[]step{{map[string]model.Value{"Op": model.Int(0)}, "INTEGER:10"},
				{map[string]model.Value{"Op": model.Int(1), "A": model.Int(9), "B": model.Int(1)}, "error"}, {map[string]model.Value{"Op": model.Int(1), "A": model.Int(9), "B": model.Int(1)}, "error"}, {map[string]model.Value{"Op": model.Int(1), "A": model.Int(1), "B": model.Int(9)}, "INTEGER:9"}, {map[string]model.Value{"Op": model.Int(1), "A": model.Int(9), "B": model.Int(1)}, "error"},
				{map[string]model.Value{"Op": model.Int(2), "A": model.Int(8), "B": model.Int(0)}, "error"}, {map[string]model.Value{"Op": model.Int(2), "A": model.Int(8), "B": model.Int(0)}, "error"}, {map[string]model.Value{"Op": model.Int(2), "A": model.Int(8), "B": model.Int(2)}, "INTEGER:4"}, {map[string]model.Value{"Op": model.Int(2), "A": model.Int(8), "B": model.Int(0)}, "error"},
				{map[string]model.Value{"Op": model.Int(3), "A": model.Int(8), "B": model.Int(0)}, "error"}, {map[string]model.Value{"Op": model.Int(3), "A": model.Int(8), "B": model.Int(0)}, "error"}, {map[string]model.Value{"Op": model.Int(3), "A": model.Int(8), "B": model.Int(3)}, "INTEGER:2"},
				{map[string]model.Value{"Op": model.Int(4), "S": model.Str("x")}, "error"}, {map[string]model.Value{"Op": model.Int(4), "S": model.Str("x")}, "error"}, {map[string]model.Value{"Op": model.Int(4), "S": model.Int(1)}, "INTEGER:2"}, {map[string]model.Value{"Op": model.Int(4), "S": model.Str("x")}, "error"},
				{map[string]model.Value{"Op": model.Int(5), "A": model.Int(1)}, "error"}, {map[string]model.Value{"Op": model.Int(5), "A": model.Int(1)}, "error"},
				{map[string]model.Value{"Op": model.Int(6), "A": model.Int(2), "S": model.Str("x")}, "error"}, {map[string]model.Value{"Op": model.Int(6), "A": model.Int(2), "S": model.Int(3)}, "INTEGER:8"}, {map[string]model.Value{"Op": model.Int(6), "A": model.Int(2), "S": model.Str("x")}, "error"},
				{map[string]model.Value{"Op": model.Int(0)}, "INTEGER:10"}}},
		{"field-cache-is-per-run", `return Name;`, []step{{map[string]model.Value{"Name": model.Str("a")}, "STRING:a"}, {map[string]model.Value{"Name": model.Str("b")}, "STRING:b"}, {map[string]model.Value{}, "NULL:null"}}},
	}
	for _, tc := range cases {
		id := "fixed:" + tc.name
		if !c.Want(id) {
			continue
		}
		for _, noOpt := range []bool{false, true} {
			evr, err := eng.New(tc.script, eng.Options{NoOptimize: noOpt})
			if err != nil {
				c.Violation(id, id, map[string]interface{}{"summary": "prepare failed: " + err.Error(), "script": tc.script})
				continue
			}
			for si, st := range tc.steps {
				obj, _ := eng.FieldsToMap(st.obj)
				got := evr.Exec(obj).Desc()
				c.Case(fmt.Sprint(id, noOpt, si), true)
				if got != st.want || evr.ScopeDepth() != 0 {
					c.Violation(id, id, map[string]interface{}{"summary": fmt.Sprintf("%s (noopt=%v) step %d gives %s (open scopes %d), expected %s", tc.script, noOpt, si+1, got, evr.ScopeDepth(), st.want), "script": tc.script})
					break
				}
			}
		}
	}
}

// c07HostUpdatesInPlace: the host keeps the hash and the array it handed over with
// SetVariable and updates them in place between runs (a value replaced, a key renamed, an
// entry added, an element replaced, an element appended). "The variables currently stored"
// are what the next run sees: whatever an earlier run computed from them (their printed
// form, their key list, their iteration order) must not be served again. Every run is
// compared with a fresh evaluator that holds deep copies of the current values.
func c07HostUpdatesInPlace(c *ev.Ctx) {
	scripts := []string{
		`return string(quota) + " / " + join(keys(quota), ",");`,
		`n = 0; foreach k, v in quota { t(k, v); n = n + v; } return n;`,
		`return [len(quota), quota["bob"], quota.alice, quota, keys(quota)];`,
		`return string(list) + string(sort(list)) + string(reverse(list)) + string(len(list));`,
		`foreach i, e in list { t(i, e); } return [list[0], list[len(list) - 1], 99 in list];`,
		`return sprintf("%v %s %d", quota, list, len(keys(quota)));`,
		`function show(h, l) { return upper(string(h)) + lower(string(l)) + string(len(string(h))); } return show(quota, list);`,
	}
	key := func(k string) object.HashKey { return (&object.String{Value: k}).HashKey() }
	for si, script := range scripts {
		for _, noOpt := range []bool{false, true} {
			id := fmt.Sprintf("host-updates-in-place/%d/%v", si, noOpt)
			if !c.Want(id) {
				continue
			}
			quota := eng.ToObject(model.Hash(model.HashEnt{Key: model.Str("alice"), Val: model.Int(10)}, model.HashEnt{Key: model.Str("bob"), Val: model.Int(20)})).(*object.Hash)
			list := &object.Array{Elements: []object.Object{&object.Integer{Value: 3}, &object.Integer{Value: 1}, &object.Integer{Value: 2}}}
			a, err := eng.New(script, eng.Options{NoOptimize: noOpt, ObjVars: map[string]object.Object{"quota": quota, "list": list}})
			if err != nil {
				c.Violation(id, "prepare", map[string]interface{}{"summary": "Prepare failed: " + err.Error(), "script": script})
				continue
			}
			updates := []struct {
				what string
				do   func()
			}{
				{"nothing yet", func() {}},
				{"the value of bob replaced (same number of entries)", func() {
					quota.Pairs[key("bob")] = object.HashPair{Key: &object.String{Value: "bob"}, Value: &object.Integer{Value: 99}}
				}},
				{"alice renamed to carol (same number of entries)", func() {
					delete(quota.Pairs, key("alice"))
					quota.Pairs[key("carol")] = object.HashPair{Key: &object.String{Value: "carol"}, Value: &object.Integer{Value: 10}}
				}},
				{"first element of the list replaced", func() { list.Elements[0] = &object.Integer{Value: 99} }},
				{"an entry added and an element appended", func() {
					quota.Pairs[key("dave")] = object.HashPair{Key: &object.String{Value: "dave"}, Value: &object.Integer{Value: 1}}
					list.Elements = append(list.Elements, &object.Integer{Value: 7})
				}},
				{"an entry removed, the list shortened", func() {
					delete(quota.Pairs, key("bob"))
					list.Elements = list.Elements[:2]
				}},
				{"every value replaced by 5", func() {
					for k, p := range quota.Pairs {
						quota.Pairs[k] = object.HashPair{Key: p.Key, Value: &object.Integer{Value: 5}}
					}
					list.Elements[1] = &object.Integer{Value: 5}
				}},
			}
			for ui, u := range updates {
				u.do()
				b, err := eng.New(script, eng.Options{NoOptimize: noOpt})
				if err != nil {
					break
				}
				a.CopyVarsTo(b)
				oa, ob := a.Exec(nil), b.Exec(nil)
				c.Case(fmt.Sprint(id, ui), true)
				va := runView{Res: oa.Desc(), Trace: oa.Trace}
				vb := runView{Res: ob.Desc(), Trace: ob.Trace}
				if oa.Panicked || ob.Panicked || !sameView(va, vb) {
					c.Violation(id, "a value the host updated in place is served from an earlier run", map[string]interface{}{
						"summary": fmt.Sprintf("step %d (%s): the much-used evaluator gives %s %s, a fresh one holding copies of the same variables gives %s %s\n  script: %s", ui+1, u.what, va, errText(oa.Err), vb, errText(ob.Err), script), "script": script})
					break
				}
			}
		}
	}
}

// c07Countdown is a host-defined value a script can iterate over (object.Iterable): it
// yields n, n-1, ... 1. The engine walks such a value itself, position and all.
type c07Countdown struct {
	n, pos int
}

func (k *c07Countdown) Inspect() string          { return fmt.Sprintf("countdown(%d)", k.n) }
func (k *c07Countdown) Type() object.Type        { return "COUNTDOWN" }
func (k *c07Countdown) True() bool               { return k.n > 0 }
func (k *c07Countdown) ToInterface() interface{} { return k.n }
func (k *c07Countdown) Reset()                   { k.pos = 0 }
func (k *c07Countdown) Next() (object.Object, object.Object, bool) {
	if k.pos >= k.n {
		return nil, &object.Integer{Value: 0}, false
	}
	k.pos++
	return &object.Integer{Value: int64(k.n - k.pos + 1)}, &object.Integer{Value: int64(k.pos - 1)}, true
}

// c07HostIterable: a loop over a host-defined iterable starts at its beginning, whatever
// became of earlier loops over the same value - left by return, by an error, by a panic,
// in the same run or in an earlier one. Compared with a fresh evaluator holding an equal value.
func c07HostIterable(c *ev.Ctx) {
	scripts := []string{
		`sum = 0; foreach v in ticks { sum = sum + v; if (Leave && v == 3) { return sum; } } return sum;`,
		`sum = 0; foreach i, v in ticks { sum = sum + v; if (Leave && i == 1) { x = 1 / Zero; } } return sum;`,
		`function walk() { local s; s = 0; foreach v in ticks { s = s + v; if (Leave && v == 2) { panic("stop"); } } return s; } return walk();`,
		`n = 0; foreach v in ticks { foreach w in ticks { n = n + 1; } if (Leave) { return n; } } return n;`,
		`a = 0; foreach v in ticks { a = a + 1; if (Leave) { return a; } } b = 0; foreach v in ticks { b = b + 1; } return [a, b];`,
	}
	for si, script := range scripts {
		for _, noOpt := range []bool{false, true} {
			id := fmt.Sprintf("host-iterable/%d/%v", si, noOpt)
			if !c.Want(id) {
				continue
			}
			used, err := eng.New(script, eng.Options{NoOptimize: noOpt, ObjVars: map[string]object.Object{"ticks": &c07Countdown{n: 4}}})
			if err != nil {
				c.Violation(id, "prepare", map[string]interface{}{"summary": "Prepare failed: " + err.Error(), "script": script})
				continue
			}
			for step, leave := range []bool{false, true, false, true, true, false} {
				obj := map[string]interface{}{"Leave": leave, "Zero": 0}
				fresh, _ := eng.New(script, eng.Options{NoOptimize: noOpt, ObjVars: map[string]object.Object{"ticks": &c07Countdown{n: 4}}})
				ou, of := used.Exec(obj), fresh.Exec(obj)
				c.Case(fmt.Sprint(id, step), true)
				if ou.Desc() != of.Desc() || ou.Panicked || strings.Join(ou.Trace, "|") != strings.Join(of.Trace, "|") {
					c.Violation(id, "a loop over a host-defined iterable does not start at its beginning", map[string]interface{}{
						"summary": fmt.Sprintf("%s (noopt=%v), run %d (Leave=%v): the much-used evaluator gives %s %s, a fresh one with an equal value gives %s %s", script, noOpt, step+1, leave, ou.Desc(), errText(ou.Err), of.Desc(), errText(of.Err)), "script": script})
					break
				}
			}
		}
	}
}
