package main

import (
	"fmt"
	"math"
	"regexp"
	"strings"

	"verif/internal/eng"
	"verif/internal/ev"
	"verif/internal/gast"
	"verif/internal/gen"
	"verif/internal/model"
)

func init() { register("C01", "exploration", c01) }

// representative operand values per type for the complete operator table
func c01Values() []model.Value {
	h := func(e ...model.HashEnt) model.Value { return model.Hash(e...) }
	return []model.Value{
		model.Int(0), model.Int(1), model.Int(-1), model.Int(2), model.Int(7), model.Int(-3),
		model.Int(65534), model.Int(65535), model.Int(65536), model.Int(math.MaxInt64), model.Int(math.MaxInt64 - 1), model.Int(9007199254740992), model.Int(9007199254740993),
		model.Float(0), model.Float(0.5), model.Float(-1.5), model.Float(2), model.Float(65535), model.Float(math.Copysign(0, -1)),
		model.Str(""), model.Str("a"), model.Str("A"), model.Str("ab"), model.Str("10"), model.Str("9"), model.Str("héllo"), model.Str("abc\n"), model.Str(" "), model.Str("l1\n l2 "),
		model.Bool(true), model.Bool(false),
		model.Null(),
		model.Arr(), model.Arr(model.Int(1)), model.Arr(model.Int(1), model.Str("a"), model.Float(2.5)),
		model.Arr(model.Float(0), model.Float(0.5), model.Int(2)), model.Arr(model.Float(math.Copysign(0, -1)), model.Int(0), model.Str("0")),
		h(), h(model.HashEnt{Key: model.Str("a"), Val: model.Int(1)}),
		h(model.HashEnt{Key: model.Int(1), Val: model.Str("x")}, model.HashEnt{Key: model.Str("b"), Val: model.Float(2.5)}),
		model.Regex("a"), model.Regex("(?i)^h"), model.Regex("^$"), model.Regex("^l2$"),
	}
}

func c01(c *ev.Ctx) {
	c.SetRule("complete table: 18 binary operators + index + '.' + 3 unary operators x all ordered pairs of 41 representative values of the 8 types x operand provenance {literal (optimised and NoOptimize), script variable, object field}; plus random typed expression nestings against random environments. Distinct = distinct (script, bindings); non-trivial = the model defines the outcome (don't-care cells are not counted).")
	c.Assume("reference model internal/model encodes the property statement; don't-care zones listed in DESIGN.md are skipped, not judged")
	vals := c01Values()
	type cell struct {
		op   string
		l, r model.Value
	}
	var cells []cell
	ops := append([]string{}, gast.BinaryOps...)
	ops = append(ops, "[]")
	for _, op := range ops {
		for _, l := range vals {
			for _, r := range vals {
				cells = append(cells, cell{op, l, r})
			}
		}
	}
	c.ParFor(len(cells), func(i int) {
		ce := cells[i]
		for prov := 0; prov < 4; prov++ {
			id := fmt.Sprintf("table/%d/%d", i, prov)
			if !c.Want(id) {
				continue
			}
			var le, re gast.Expr
			vars := map[string]model.Value{}
			fields := map[string]model.Value{}
			noOpt := false
			switch prov {
			case 0, 1:
				var ok1, ok2 bool
				le, ok1 = gen.LitOf(ce.l)
				re, ok2 = gen.LitOf(ce.r)
				if !ok1 || !ok2 {
					continue
				}
				noOpt = prov == 1
			case 2:
				le, re = gast.Ident{Name: "a"}, gast.Ident{Name: "b"}
				vars["a"], vars["b"] = ce.l, ce.r
			case 3:
				if !fieldOK(ce.l) || !fieldOK(ce.r) {
					continue
				}
				le, re = gast.Ident{Name: "A"}, gast.Ident{Name: "B"}
				fields["A"], fields["B"] = ce.l, ce.r
			}
			var e gast.Expr
			if ce.op == "[]" {
				e = gast.Index{X: le, I: re}
			} else {
				e = gast.Infix{Op: ce.op, L: le, R: re}
			}
			class := fmt.Sprintf("table %s %s %s", ce.l.K.TypeName(), ce.op, ce.r.K.TypeName())
			c.Case(fmt.Sprintf("%s|%s|%s|%d", ce.op, ce.l.Describe(), ce.r.Describe(), prov), model.BinaryOutcome(opOrPlus(ce.op), ce.l, ce.r).DontCare == "")
			if i%1500 == 0 && prov == 0 {
				c.Sample(map[string]string{"script": exprScript(e, gast.Minimal), "kind": "table cell"})
			}
			runExprCase(c, id, class, e, vars, fields, noOpt)
		}
	})

	// unary operators and '.' on every value
	type ucell struct {
		op string
		v  model.Value
	}
	var ucells []ucell
	for _, op := range []string{"-", "!", "√", ".a", ".b"} {
		for _, v := range vals {
			ucells = append(ucells, ucell{op, v})
		}
	}
	c.ParFor(len(ucells), func(i int) {
		u := ucells[i]
		for prov := 0; prov < 4; prov++ {
			id := fmt.Sprintf("unary/%d/%d", i, prov)
			if !c.Want(id) {
				continue
			}
			var x gast.Expr
			vars := map[string]model.Value{}
			fields := map[string]model.Value{}
			switch prov {
			case 0, 1:
				var ok bool
				x, ok = gen.LitOf(u.v)
				if !ok {
					continue
				}
			case 2:
				x = gast.Ident{Name: "a"}
				vars["a"] = u.v
			case 3:
				if !fieldOK(u.v) {
					continue
				}
				x = gast.Ident{Name: "A"}
				fields["A"] = u.v
			}
			var e gast.Expr
			if u.op[0] == '.' {
				e = gast.Dot{X: x, Name: u.op[1:]}
			} else {
				e = gast.Prefix{Op: u.op, X: x}
			}
			if prov == 0 && gast.HasSqrtOfIntConst(e) {
				// known finding D2 (probe below); the optimised literal cell is not judged here
				c.Count("skipped/known sqrt-literal-fold zone", 1)
				continue
			}
			c.Case(fmt.Sprintf("u|%s|%s|%d", u.op, u.v.Describe(), prov), true)
			runExprCase(c, id, fmt.Sprintf("unary %s %s", u.op, u.v.K.TypeName()), e, vars, fields, prov == 1)
		}
	})

	// constant integer arithmetic: the path the peephole optimizer folds (and
	// must fold to exactly the value the unoptimised machine computes)
	nc := c.Pick(4000, 150000)
	c.ParFor(nc, func(i int) {
		id := fmt.Sprintf("const/%d", i)
		if !c.Want(id) {
			return
		}
		r := c.Rng("const", i)
		lits := []int64{0, 1, 2, 3, 4, 5, 7, 9, 10, 16, 100, 255, 256, 300, 1000, 32767, 32768, 65533, 65534, 65535, 65536}
		var mk func(d int) gast.Expr
		mk = func(d int) gast.Expr {
			if d <= 0 || r.Intn(4) == 0 {
				return gast.IntLit{V: lits[r.Intn(len(lits))]}
			}
			e := gast.Infix{Op: []string{"+", "-", "*", "/", "-", "+", "==", "!="}[r.Intn(8)], L: mk(d - 1), R: mk(d - 1)}
			if e.Op == "==" || e.Op == "!=" {
				// comparisons of constants are folded too; keep them at the top so the result stays typed
				if d < 3 {
					e.Op = "-"
				}
			}
			return e
		}
		e := mk(1 + r.Intn(3))
		for _, noOpt := range []bool{false, true} {
			c.Case(exprScript(e, gast.Minimal)+fmt.Sprint(noOpt), true)
			runExprCase(c, id, "constant integer arithmetic", e, nil, nil, noOpt)
		}
		c.SampleEvery(i, func() interface{} {
			return map[string]string{"script": exprScript(e, gast.Minimal), "kind": "constant arithmetic"}
		})
	})

	// random nestings
	n := c.Pick(6000, 300000)
	depthMax := c.Pick(3, 5)
	c.ParFor(n, func(i int) {
		id := fmt.Sprintf("rand/%d", i)
		if !c.Want(id) {
			return
		}
		r := c.Rng("rand", i)
		env := gen.NewEnv(r)
		g := &gen.ExprGen{R: r, Env: env, IllTyped: 6}
		e := g.Any(1+r.Intn(depthMax), false)
		noOpt := r.Intn(2) == 0
		if gast.HasSqrtOfIntConst(e) {
			noOpt = true // known finding D2: only the unoptimised path is judged
			c.Count("skipped/known sqrt-literal-fold zone", 1)
		}
		script := exprScript(e, gast.Minimal)
		in := model.NewInterp(gast.Program{})
		for k, v := range env.Vars {
			in.Globals[k] = v
		}
		mo := in.EvalExpr(e, env.Fields)
		c.Case(script+fmt.Sprint(describeFields(env.Vars), describeFields(env.Fields)), mo.DontCare == "")
		if mo.Err {
			c.Count("rand/model_error", 1)
		} else if mo.DontCare == "" {
			c.Count("rand/model_value", 1)
		}
		c.SampleEvery(i, func() interface{} {
			return map[string]string{"script": script, "model": mo.String(), "kind": "random nesting"}
		})
		runExprCase(c, id, "random nesting", e, env.Vars, env.Fields, noOpt)
	})
	// known finding D2: √ of an integer literal folds to an integer
	if c.Want("probe:sqrt-literal-fold") {
		evr, err := eng.New("return √9;", eng.Options{})
		fails := err != nil
		got := "prepare error"
		if err == nil {
			o := evr.Exec(nil)
			got = o.Desc()
			fails = got != "FLOAT:3"
		}
		c.Probe("sqrt-literal-fold", fails, "`return √9;` optimised gives "+got+", the language defines FLOAT:3", map[string]interface{}{"script": "return √9;"})
	}
	c.Extra("exhaustive_table", true)
	c.Extra("table_cells", len(cells)+len(ucells))
	c01RegexpOperators(c)
	// fields, index and '.' over objects whose shape could mislead the conversion (stream shared with C04)
	c04Shapes(c)
}

// c01RegexpOperators: ~= and !~ (and the regexp's printed form) for patterns of every
// shape - groups first, flags, classes, escapes - against Go's regexp package.
func c01RegexpOperators(c *ev.Ctx) {
	pats := []struct{ pat, flags string }{{"(?:a|b)c", ""}, {"(?:a|b)c", "i"}, {"(?P<n>x+)y", ""}, {"(?i:ab)C", ""}, {"(a)(b)?c", ""}, {"^(?:ab)+$", "m"}, {"a|b|", ""}, {"[(?]x", ""}, {"\\(\\?:a\\)", ""}, {"x{2,3}", ""},
		{"(?s)a.b", ""}, {"(?U)a+", ""}, {"(?-i)A", "i"}, {"((?:a))b", ""}, {"(?:)c", ""}}
	subjects := []string{"xc", "ac", "bc", "AC", "c", "xxy", "y", "abC", "ABC", "abab", "ab\nabab", "", "a", "(x", "(?:a)", "xx", "xxxx", "a\nb", "A", "b"}
	for pi, pt := range pats {
		goPat := pt.pat
		if pt.flags != "" {
			goPat = "(?" + pt.flags + ")" + pt.pat
		}
		re, err := regexp.Compile(goPat)
		if err != nil {
			continue
		}
		lit := gast.EncodeRegex(pt.pat, pt.flags)
		for si, subj := range subjects {
			id := fmt.Sprintf("regexp-operators/%d/%d", pi, si)
			if !c.Want(id) {
				continue
			}
			want := false
			for _, line := range strings.Split(subj, "\n") {
				if re.MatchString(strings.TrimSpace(line)) {
					want = true
				}
			}
			sl := gast.EncodeString(subj, '"', nil)
			script := "r = " + lit + "; return [" + sl + " ~= " + lit + ", " + sl + " !~ " + lit + ", " + sl + " ~= r, S !~ r, string(r) == string(" + lit + ")];"
			for _, noOpt := range []bool{false, true} {
				evr, err := eng.New(script, eng.Options{NoOptimize: noOpt})
				got := "rejected"
				if err == nil {
					got = evr.Exec(map[string]interface{}{"S": subj}).Desc()
				}
				c.Case(script+fmt.Sprint(noOpt), true)
				if w := fmt.Sprintf("ARRAY:[%v, %v, %v, %v, true]", want, !want, want, !want); got != w {
					c.Violation(id, "regexp operators", map[string]interface{}{"summary": fmt.Sprintf("%s (noopt=%v) gives %s, Go's regexp for %q on %q says %s", script, noOpt, got, goPat, subj, w), "script": script})
				}
			}
		}
	}
}

func opOrPlus(op string) string {
	if op == "[]" {
		return "+"
	}
	return op
}

// fieldOK: can the value be a field of a map[string]interface{} document?
func fieldOK(v model.Value) bool {
	switch v.K {
	case model.KRegex:
		return false
	case model.KHash:
		for _, e := range v.H {
			if e.Key.K != model.KStr || !fieldOK(e.Val) {
				return false
			}
		}
	case model.KArr:
		for _, e := range v.A {
			if e.K == model.KArr || e.K == model.KHash || e.K == model.KNull || e.K == model.KRegex {
				return false
			}
		}
	}
	return true
}
