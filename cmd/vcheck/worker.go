package main

import (
	"fmt"
	"os"
)

type workerFn func(args []string)

var workers = map[string]workerFn{}

// workerMain dispatches `vcheck worker <name> args...` (isolated children).
func workerMain(args []string) {
	if len(args) == 0 {
		fmt.Fprintln(os.Stderr, "worker: missing name")
		os.Exit(2)
	}
	w, ok := workers[args[0]]
	if !ok {
		fmt.Fprintf(os.Stderr, "worker: unknown %s\n", args[0])
		os.Exit(2)
	}
	w(args[1:])
}
