package main

import (
	"fmt"
	"strings"

	"verif/internal/eng"
	"verif/internal/ev"
	"verif/internal/gast"
	"verif/internal/gen"
	"verif/internal/model"
)

func init() { register("C03", "exploration", c03) }

// diffOptNoOpt prepares the script twice (optimised / NoOptimize) and runs the
// same object sequence through both; any observable difference is a violation.
func diffOptNoOpt(c *ev.Ctx, id, class, script string, vars map[string]model.Value, objs []map[string]model.Value) (judged int) {
	const budget = 400000
	a, errA := eng.New(script, eng.Options{Vars: vars, Budget: budget})
	b, errB := eng.New(script, eng.Options{Vars: vars, NoOptimize: true, Budget: budget})
	if (errA != nil) != (errB != nil) {
		c.Violation(id, class+"/prepare", map[string]interface{}{
			"summary": fmt.Sprintf("Prepare outcome depends on the optimizer: optimised err=%v, NoOptimize err=%v\n  script: %s", errA, errB, script), "script": script})
		return 0
	}
	if errA != nil {
		c.Count("skipped/rejected by Prepare", 1)
		return 0
	}
	va := engineRunsOn(a, objs)
	vb := engineRunsOn(b, objs)
	for i := range objs {
		if va[i].Skip != "" || vb[i].Skip != "" {
			// one of the two did not finish within the instruction budget. If the other one
			// finished long before it, the two programs do different things (the optimizer
			// only removes instructions: the counts stay within a small factor of each other)
			if (va[i].Skip == "") != (vb[i].Skip == "") {
				done := va[i]
				if va[i].Skip != "" {
					done = vb[i]
				}
				if done.Steps < budget/8 {
					c.Violation(id, class, map[string]interface{}{
						"summary": fmt.Sprintf("run %d of %d: one of the two programs ends after %d instructions (%s), the other is still running after %d (optimised still running: %v)\n  script: %s", i+1, len(objs), done.Steps, done, budget, va[i].Skip != "", script),
						"script":  script, "run_index": i})
					break
				}
			}
			c.Count("skipped/budget", 1)
			break
		}
		judged++
		if va[i].Panic || vb[i].Panic || !sameView(va[i], vb[i]) {
			c.Violation(id, class, map[string]interface{}{
				"summary":    fmt.Sprintf("run %d of %d: optimised and NoOptimize differ\n  script:     %s\n  object:     %v\n  vars:       %v\n  optimised:  %s\n  NoOptimize: %s", i+1, len(objs), script, describeFields(objs[i]), describeFields(vars), va[i], vb[i]),
				"script":     script,
				"objects":    fmt.Sprint(objs),
				"run_index":  i,
				"optimised":  va[i].String(),
				"nooptimize": vb[i].String(),
			})
			break
		}
	}
	return judged
}

// constant fragments the peephole pass looks at
var c03Frags = []string{"1 + 2", "2 * 3 - 1", "7 - 9", "65533 + 1", "65534 + 1", "65535 - 1", "256 * 256", "255 * 257", "8 / 2", "7 / 2", "0 / 5", "3 == 3", "3 == 4", "1 != 1", "2 != 3", "true", "false", "0", "1", "65534", "65535", "(1 + 2) * 3", "1 + 2 * 3", "10 - 2 - 3", "100 / 10 / 5", "2 * 3 == 6", "1 + 1 != 2", "255", "256", "257", "512", "4096", "65280", "128 + 128", "16 * 16", "256 == 256", "256 != 512", "1 - 2", "300 * 300", "0 - 1 + 2", "5 + (1 - 2) * 3", "1 / 0", "2 - 2", "256 - 256",
	// literals that live in the constant pool (large integers, floats, strings, regexps), next to each other under a comparison or an operator
	"70000 == 70000", "70000 == 70000.0", "70000.0 != 70000", "70000 != 70001", "1.5 == 1.5", "1.5 != 2.5", `"a" == "a"`, `"a" != "b"`, `"1" != 1.5`, `"70000" == 70000`, `"a" == /a/`, `/a/ == /a/`, `"ab" ~= /b/`, `"ab" !~ /b/`,
	"70000 + 70000", "70000 * 2", "2 * 70000", "70000 - 70000", "70000 / 70000", "1.5 + 1.5", "2.5 * 2", `"a" + "b"`, "70000 < 70001", "1.5 < 2.5", `"a" < "b"`, "7 % 3", "7 % 0", "2 ** 3", "!0", "!1", "!true", "-1", "true && false", "true || false", "1 && 0",
	// constant powers, remainders and products whose exact value does not fit (whatever the machine computes, folding must compute the same)
	"2 ** 64", "4 ** 32", "16 ** 16", "10 ** 64", "6 ** 64", "2 ** 63", "2 ** 62", "3 ** 40", "7 ** 23", "0 ** 0", "2 ** 0", "0 ** 5", "1 ** 65534", "65534 ** 2", "65534 ** 4", "2 ** 3 ** 2", "2 ** 10 % 7", "9 % 4", "65534 % 7", "0 % 3",
	"65534 * 65534", "65534 * 65534 * 65534 * 65534 * 65534", "65534 + 65534", "0 - 65534 - 65534", "65534 / 3", "1 / 3", "0 / 0", "65534 * 65534 / 65534", "2 ** 64 == 0", "2 ** 70 != 0", "7 / (2 ** 64)"}

// contexts: %F %G %H are replaced by fragments
var c03Ctx = []string{
	"return %F;",
	"x = %F; return x;",
	"x = %F; y = %G; return [x, y];",
	"if (%F) { t(1); } else { t(2); } return %G;",
	"if (%F) { t(1, %G); } t(3); return %H;",
	"if (C1) { x = %F; } else { x = %G; } return x + %H;",
	"return (C1 ? %F : %G) + %H;",
	"return %H + (C1 ? %F : %G);",
	"return (%F ? %G : %H) + 1;",
	"x = C1 ? %F : %G; return x;",
	"t(C1 ? %F : %G); return %H;",
	"w = 2; while (w > 0) { t(%F); w--; } return %G;",
	"while (%F) { t(1); return %G; } return %H;",
	"foreach e in [%F, %G] { t(e); } return %H;",
	"foreach i, e in [%F] { t(i, e + %G); }",
	"switch (%F) { case %G { t(1); } case %H { t(2); } default { t(3); } } return %F;",
	"switch (I1) { case %F { t(1); } default { t(2, %G); } }",
	"function f(a) { return a + %F; } return f(%G);",
	"function f(a) { if (%F) { return %G; } return a; } return f(%H) + %F;",
	"function f() { x = %F; } f(); return x + %G;",
	"t(%F, %G, %H);",
	"return [%F, %G][%H];",
	"return {\"k\": %F, \"j\": %G};",
	"return I1 + %F;",
	"return %F + I1;",
	"return %F + I1 + %G;",
	"return I1 + (%F) + (%G);",
	"return -(%F) + (%G);",
	"return !(%F);",
	"return (%F) .. (%G + 70000);",
	"x = %F; x++; x += %G; return x;",
	"if (C1) { return %F; } return %G;",
	"if (%F) { if (%G) { t(1); } else { t(2); } } else { t(3); } return 1;",
	"return %F; t(1); return %G;",
	"if (C1) { t(1); } %F; return %G;",
	"return len(string(%F)) + %G;",
	"x = (%F) % 7; y = (%G) ** 2; return [x, y];",
	"return (%F) < (%G) && (%H) >= (%F);",
	"x = 1.5 + %F; return x * %G;",
	"return \"a\" + string(%F) + string(%G);",
	"return F1 + %F + %G;",
	"return F1 * %F * %G;",
	"return %F + F1 + %G + %H;",
	"x = F1; return x + 1 + 2;",
	"x = F1; y = x * 3 * 5; z = x - 1 - 2; return [y, z, x / 2 / 5];",
	"return (F1 + %F) + %G == F1 + (%F + %G);",
	"if (C1 ? I1 : %F) { t(1); } else { t(2); } return %G;",
	"return (C1 ? I1 : %F) ? 1 : 2;",
	"w = 0; while (C1 ? w < 2 : %F) { w++; t(w); if (w > 3) { return w; } } return w;",
	"x = (C1 ? %F : I1) ? %G : %H; return x;",
	"if (!(C1 ? I1 - 3 : %F)) { t(1); } return 1;",
	// returns in one branch only, so that jumps over / past a return matter
	"if (%F) { x = 1; } else { return %G; } return x;",
	"if (%F) { return %G; } else { x = 2; } return x;",
	"if (%F) { x = 1; } else { if (C1) { return %G; } x = 3; } return x + %H;",
	"if (%F) { if (%G) { x = 1; } else { return 7; } } else { return 8; } return x;",
	"if (%F) { x = 1; } else if (%G) { return 2; } else { x = 3; } return x;",
	"function f() { if (%F) { y = 1; } else { return %G; } return y; } return f();",
	"function f(a) { if (%F) { return a; } else { y = 2; } return y + %G; } return f(%H);",
	"x = 0; while (%F) { x = 1; return x + %G; } return x;",
	"switch (%F) { case %G { x = 1; } default { return 9; } } return x;",
	"switch (%F) { case %G { return 1; } default { x = 2; } } return x + 1;",
	"x = %F ? 1 : 2; if (%G) { y = x; } else { return x; } return y + %H;",
	"foreach e in [1] { if (%F) { x = e; } else { return %G; } } return x;",
}

func c03(c *ev.Ctx) {
	c.SetRule("differential monitor: one source prepared with the optimizer and with NoOptimize, same 3-object run sequence on each; result (type, printed form or error), host-call trace and variables left must agree after every run. Cases: (a) exhaustive-ish fragment x context grid of constant arithmetic / comparisons / conditions inside and next to every construct; (b) random constant-heavy programs with functions and mutators. Distinct = distinct script; non-trivial = the optimizer changed the program (the two prepared programs differ).")
	c.Assume("√ applied to an all-integer-literal expression is excluded by a syntactic rule (known finding sqrt-literal-fold)")
	objsFor := func(r interface{ Intn(int) int }) []map[string]model.Value {
		mk := func(c1 model.Value, i1 int64) map[string]model.Value {
			return map[string]model.Value{"C1": c1, "I1": model.Int(i1), "ZERO": model.Int(0)}
		}
		o1, o2, o3 := mk(model.Bool(true), 3), mk(model.Bool(false), 65534), mk(model.Int(2), -1)
		// floats whose sums / products round differently when re-associated
		o1["F1"], o2["F1"], o3["F1"] = model.Float(0.07), model.Float(0.1), model.Float(1e16)
		return []map[string]model.Value{o1, o2, o3}
	}
	// (a) grid
	type gcase struct{ script string }
	var grid []gcase
	nf := len(c03Frags)
	for ci, ctx := range c03Ctx {
		per := c.Pick(40, 600)
		for k := 0; k < per; k++ {
			r := c.Rng(fmt.Sprintf("grid%d", ci), k)
			s := strings.ReplaceAll(ctx, "%F", c03Frags[r.Intn(nf)])
			s = strings.ReplaceAll(s, "%G", c03Frags[r.Intn(nf)])
			s = strings.ReplaceAll(s, "%H", c03Frags[r.Intn(nf)])
			grid = append(grid, gcase{s})
		}
	}
	c.ParFor(len(grid), func(i int) {
		id := fmt.Sprintf("grid/%d", i)
		if !c.Want(id) {
			return
		}
		g := grid[i]
		judged := diffOptNoOpt(c, id, "fragment grid", g.script, nil, objsFor(nil))
		c.Case(g.script, judged > 0 && optimizerChanged(g.script))
		if i%400 == 0 {
			c.Sample(map[string]string{"script": g.script, "kind": "grid"})
		}
	})
	// (a2) operand bytes equal to opcode values: the instruction in front of a
	// conditional jump (or a return) is a lookup / push / constant / call whose operand
	// low byte runs through every opcode value (constant-pool position, literal value,
	// argument count)
	type bytecase struct{ script string }
	var bcs []bytecase
	for nconst := 0; nconst <= 50; nconst++ {
		var pre strings.Builder
		for k := 0; k < nconst; k++ {
			fmt.Fprintf(&pre, "k%d = \"c%d\"; ", k, k)
		}
		// after nconst assignments the pool holds 2*nconst entries; vary by one with an extra lookup
		for _, extra := range []string{"", "z0; "} {
			p0 := pre.String() + extra
			bcs = append(bcs,
				bytecase{p0 + "if (Flag) { t(1); x = \"yes\"; } else { t(2); } return x;"},
				bytecase{p0 + "w = 0; while (Flag) { w++; t(w); if (w > 2) { return w; } } return w;"},
				bytecase{p0 + "return Flag ? \"a\" : \"b\";"},
				bytecase{p0 + "function f() { return Flag; } if (f()) { t(1); } return f();"},
				bytecase{p0 + "if (\"lit" + fmt.Sprint(nconst) + "\") { t(1); } else { t(2); } return 1;"},
				bytecase{p0 + "if (1.5) { t(1); } else { t(2); } return Flag;"})
		}
	}
	for lit := 0; lit <= 50; lit++ {
		for _, base := range []int{0, 256, 512, 65280} {
			v := base + lit
			if v > 65534 {
				continue
			}
			bcs = append(bcs,
				bytecase{fmt.Sprintf("if (%d) { t(1); } else { t(2); } return %d;", v, v)},
				bytecase{fmt.Sprintf("w = 0; while (%d) { w++; if (w > 1) { return w; } } return w;", v)},
				bytecase{fmt.Sprintf("return %d ? \"a\" : \"b\";", v)},
				bytecase{fmt.Sprintf("function f() { %d } f(); function g() { return %d; } return g();", v, v)})
		}
	}
	for nargs := 0; nargs <= 30; nargs++ {
		args := make([]string, nargs)
		for k := range args {
			args[k] = fmt.Sprint(k)
		}
		bcs = append(bcs, bytecase{"if (len(sprintf(\"x\"" + strings.Join(append([]string{""}, args...), ", ") + "))) { t(1); } else { t(2); } return 1;"},
			bytecase{"function many() { v(" + strings.Join(args, ", ") + ") } many(); return 2;"})
	}
	for _, sc := range constIfTailScripts() {
		bcs = append(bcs, bytecase{sc})
	}
	c.ParFor(len(bcs), func(i int) {
		id := fmt.Sprintf("opbyte/%d", i)
		if !c.Want(id) {
			return
		}
		objs := []map[string]model.Value{{"Flag": model.Bool(true)}, {"Flag": model.Bool(false)}, {"Flag": model.Int(3)}}
		judged := diffOptNoOpt(c, id, "operand byte equal to an opcode", bcs[i].script, nil, objs)
		c.Case(bcs[i].script, judged > 0)
	})
	// (b) random programs
	n := c.Pick(3000, 300000)
	c.ParFor(n, func(i int) {
		id := fmt.Sprintf("prog/%d", i)
		if !c.Want(id) {
			return
		}
		r := c.Rng("prog", i)
		env := gen.NewEnv(r)
		k := 1 + r.Intn(3)
		pg := &gen.ProgGen{R: r, E: &gen.ExprGen{R: r, Env: env, ConstBias: 70}, CondFields: k, MaxDepth: 2 + r.Intn(2), MaxStmts: 4,
			Funcs: r.Intn(3), Mutators: r.Intn(2) == 0, ConstHeavy: true, Faults: r.Intn(4) == 0}
		p := pg.Program()
		if gast.ProgramHasSqrtOfIntConst(p) {
			c.Count("skipped/known sqrt-literal-fold zone", 1)
			return
		}
		script := gast.Text(p)
		var objs []map[string]model.Value
		for j := 0; j < 3; j++ {
			o := condObject(env.Fields, k, r.Intn(1<<k), r)
			o["ZERO"] = model.Int(0)
			for f := 1; f <= 5; f++ {
				o[fmt.Sprintf("F%d", f)] = model.Bool(r.Intn(6) == 0)
			}
			objs = append(objs, o)
		}
		judged := diffOptNoOpt(c, id, "random constant-heavy program", script, env.Vars, objs)
		c.Case(script, judged > 0 && optimizerChanged(script))
		c.SampleEvery(i, func() interface{} { return map[string]string{"script": script, "kind": "random"} })
	})
	// probe for the known finding
	if c.Want("probe:sqrt-literal-fold") {
		a, e1 := eng.New("return type(√9);", eng.Options{})
		b, e2 := eng.New("return type(√9);", eng.Options{NoOptimize: true})
		fails, got := true, "prepare error"
		if e1 == nil && e2 == nil {
			x, y := a.Exec(nil).Desc(), b.Exec(nil).Desc()
			got = x + " vs " + y
			fails = x != y
		}
		c.Probe("sqrt-literal-fold", fails, "`return type(√9);` optimised vs NoOptimize: "+got, map[string]interface{}{"script": "return type(√9);"})
	}
}

// optimizerChanged reports whether the optimised and unoptimised prepared
// programs differ (hook: canonical program dump).
func optimizerChanged(script string) bool {
	a, e1 := eng.New(script, eng.Options{NoHook: true})
	b, e2 := eng.New(script, eng.Options{NoHook: true, NoOptimize: true})
	if e1 != nil || e2 != nil {
		return false
	}
	return a.ProgramDump() != b.ProgramDump()
}

// constIfTailScripts: blocks behind a condition the optimizer can decide, without an else,
// whose last instructions carry an operand byte that runs through every opcode value - as
// the last, the second and the third byte from the end of the block (where a rewrite that
// looks at bytes instead of instructions would take it for a jump or a return). Shared with C08.
func constIfTailScripts() []string {
	var out []string
	for _, cond := range []string{"1 == 1", "true", "2 != 3", "0 == 0", "1 == 2", "false"} {
		for k := 0; k <= 60; k++ {
			out = append(out,
				fmt.Sprintf("if (%s) { return Flag + %d; } return 0;", cond, k),
				fmt.Sprintf("if (%s) { return %d; } return 0;", cond, 256+k),
				fmt.Sprintf("if (%s) { x = %d; } return x;", cond, k),
				fmt.Sprintf("if (%s) { x = Flag; y = x + %d; } return y;", cond, k*256+1),
				fmt.Sprintf("function f(a) { if (%s) { return a + %d; } return 0; } return f(2);", cond, k),
				fmt.Sprintf("w = 0; while (%s) { w = w + %d; return w; } return w;", cond, k))
		}
	}
	return out
}
