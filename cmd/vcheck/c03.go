package main

import (
	"fmt"
	"strings"

	"verif/internal/eng"
	"verif/internal/ev"
	"verif/internal/gast"
	"verif/internal/gen"
	"verif/internal/model"
)

func init() { register("C03", "exploration", c03) }

// diffOptNoOpt prepares the script twice (optimised / NoOptimize) and runs the
// same object sequence through both; any observable difference is a violation.
func diffOptNoOpt(c *ev.Ctx, id, class, script string, vars map[string]model.Value, objs []map[string]model.Value) (judged int) {
	a, errA := eng.New(script, eng.Options{Vars: vars})
	b, errB := eng.New(script, eng.Options{Vars: vars, NoOptimize: true})
	if (errA != nil) != (errB != nil) {
		c.Violation(id, class+"/prepare", map[string]interface{}{
			"summary": fmt.Sprintf("Prepare outcome depends on the optimizer: optimised err=%v, NoOptimize err=%v\n  script: %s", errA, errB, script), "script": script})
		return 0
	}
	if errA != nil {
		c.Count("skipped/rejected by Prepare", 1)
		return 0
	}
	va := engineRunsOn(a, objs)
	vb := engineRunsOn(b, objs)
	for i := range objs {
		if va[i].Skip != "" || vb[i].Skip != "" {
			c.Count("skipped/budget", 1)
			break
		}
		judged++
		if va[i].Panic || vb[i].Panic || !sameView(va[i], vb[i]) {
			c.Violation(id, class, map[string]interface{}{
				"summary":    fmt.Sprintf("run %d of %d: optimised and NoOptimize differ\n  script:     %s\n  object:     %v\n  vars:       %v\n  optimised:  %s\n  NoOptimize: %s", i+1, len(objs), script, describeFields(objs[i]), describeFields(vars), va[i], vb[i]),
				"script":     script,
				"objects":    fmt.Sprint(objs),
				"run_index":  i,
				"optimised":  va[i].String(),
				"nooptimize": vb[i].String(),
			})
			break
		}
	}
	return judged
}

// constant fragments the peephole pass looks at
var c03Frags = []string{"1 + 2", "2 * 3 - 1", "7 - 9", "65533 + 1", "65534 + 1", "65535 - 1", "256 * 256", "255 * 257", "8 / 2", "7 / 2", "0 / 5", "3 == 3", "3 == 4", "1 != 1", "2 != 3", "true", "false", "0", "1", "65534", "65535", "(1 + 2) * 3", "1 + 2 * 3", "10 - 2 - 3", "100 / 10 / 5", "2 * 3 == 6", "1 + 1 != 2", "255", "256", "257", "512", "4096", "65280", "128 + 128", "16 * 16", "256 == 256", "256 != 512", "1 - 2", "300 * 300", "0 - 1 + 2", "5 + (1 - 2) * 3", "1 / 0", "2 - 2", "256 - 256"}

// contexts: %F %G %H are replaced by fragments
var c03Ctx = []string{
	"return %F;",
	"x = %F; return x;",
	"x = %F; y = %G; return [x, y];",
	"if (%F) { t(1); } else { t(2); } return %G;",
	"if (%F) { t(1, %G); } t(3); return %H;",
	"if (C1) { x = %F; } else { x = %G; } return x + %H;",
	"return (C1 ? %F : %G) + %H;",
	"return %H + (C1 ? %F : %G);",
	"return (%F ? %G : %H) + 1;",
	"x = C1 ? %F : %G; return x;",
	"t(C1 ? %F : %G); return %H;",
	"w = 2; while (w > 0) { t(%F); w--; } return %G;",
	"while (%F) { t(1); return %G; } return %H;",
	"foreach e in [%F, %G] { t(e); } return %H;",
	"foreach i, e in [%F] { t(i, e + %G); }",
	"switch (%F) { case %G { t(1); } case %H { t(2); } default { t(3); } } return %F;",
	"switch (I1) { case %F { t(1); } default { t(2, %G); } }",
	"function f(a) { return a + %F; } return f(%G);",
	"function f(a) { if (%F) { return %G; } return a; } return f(%H) + %F;",
	"function f() { x = %F; } f(); return x + %G;",
	"t(%F, %G, %H);",
	"return [%F, %G][%H];",
	"return {\"k\": %F, \"j\": %G};",
	"return I1 + %F;",
	"return %F + I1;",
	"return %F + I1 + %G;",
	"return I1 + (%F) + (%G);",
	"return -(%F) + (%G);",
	"return !(%F);",
	"return (%F) .. (%G + 70000);",
	"x = %F; x++; x += %G; return x;",
	"if (C1) { return %F; } return %G;",
	"if (%F) { if (%G) { t(1); } else { t(2); } } else { t(3); } return 1;",
	"return %F; t(1); return %G;",
	"if (C1) { t(1); } %F; return %G;",
	"return len(string(%F)) + %G;",
	"x = (%F) % 7; y = (%G) ** 2; return [x, y];",
	"return (%F) < (%G) && (%H) >= (%F);",
	"x = 1.5 + %F; return x * %G;",
	"return \"a\" + string(%F) + string(%G);",
	// returns in one branch only, so that jumps over / past a return matter
	"if (%F) { x = 1; } else { return %G; } return x;",
	"if (%F) { return %G; } else { x = 2; } return x;",
	"if (%F) { x = 1; } else { if (C1) { return %G; } x = 3; } return x + %H;",
	"if (%F) { if (%G) { x = 1; } else { return 7; } } else { return 8; } return x;",
	"if (%F) { x = 1; } else if (%G) { return 2; } else { x = 3; } return x;",
	"function f() { if (%F) { y = 1; } else { return %G; } return y; } return f();",
	"function f(a) { if (%F) { return a; } else { y = 2; } return y + %G; } return f(%H);",
	"x = 0; while (%F) { x = 1; return x + %G; } return x;",
	"switch (%F) { case %G { x = 1; } default { return 9; } } return x;",
	"switch (%F) { case %G { return 1; } default { x = 2; } } return x + 1;",
	"x = %F ? 1 : 2; if (%G) { y = x; } else { return x; } return y + %H;",
	"foreach e in [1] { if (%F) { x = e; } else { return %G; } } return x;",
}

func c03(c *ev.Ctx) {
	c.SetRule("differential monitor: one source prepared with the optimizer and with NoOptimize, same 3-object run sequence on each; result (type, printed form or error), host-call trace and variables left must agree after every run. Cases: (a) exhaustive-ish fragment x context grid of constant arithmetic / comparisons / conditions inside and next to every construct; (b) random constant-heavy programs with functions and mutators. Distinct = distinct script; non-trivial = the optimizer changed the program (the two prepared programs differ).")
	c.Assume("√ applied to an all-integer-literal expression is excluded by a syntactic rule (known finding sqrt-literal-fold)")
	objsFor := func(r interface{ Intn(int) int }) []map[string]model.Value {
		mk := func(c1 model.Value, i1 int64) map[string]model.Value {
			return map[string]model.Value{"C1": c1, "I1": model.Int(i1), "ZERO": model.Int(0)}
		}
		return []map[string]model.Value{mk(model.Bool(true), 3), mk(model.Bool(false), 65534), mk(model.Int(2), -1)}
	}
	// (a) grid
	type gcase struct{ script string }
	var grid []gcase
	nf := len(c03Frags)
	for ci, ctx := range c03Ctx {
		per := c.Pick(40, 600)
		for k := 0; k < per; k++ {
			r := c.Rng(fmt.Sprintf("grid%d", ci), k)
			s := strings.ReplaceAll(ctx, "%F", c03Frags[r.Intn(nf)])
			s = strings.ReplaceAll(s, "%G", c03Frags[r.Intn(nf)])
			s = strings.ReplaceAll(s, "%H", c03Frags[r.Intn(nf)])
			grid = append(grid, gcase{s})
		}
	}
	c.ParFor(len(grid), func(i int) {
		id := fmt.Sprintf("grid/%d", i)
		if !c.Want(id) {
			return
		}
		g := grid[i]
		judged := diffOptNoOpt(c, id, "fragment grid", g.script, nil, objsFor(nil))
		c.Case(g.script, judged > 0 && optimizerChanged(g.script))
		if i%400 == 0 {
			c.Sample(map[string]string{"script": g.script, "kind": "grid"})
		}
	})
	// (b) random programs
	n := c.Pick(3000, 300000)
	c.ParFor(n, func(i int) {
		id := fmt.Sprintf("prog/%d", i)
		if !c.Want(id) {
			return
		}
		r := c.Rng("prog", i)
		env := gen.NewEnv(r)
		k := 1 + r.Intn(3)
		pg := &gen.ProgGen{R: r, E: &gen.ExprGen{R: r, Env: env, ConstBias: 70}, CondFields: k, MaxDepth: 2 + r.Intn(2), MaxStmts: 4,
			Funcs: r.Intn(3), Mutators: r.Intn(2) == 0, ConstHeavy: true, Faults: r.Intn(4) == 0}
		p := pg.Program()
		if gast.ProgramHasSqrtOfIntConst(p) {
			c.Count("skipped/known sqrt-literal-fold zone", 1)
			return
		}
		script := gast.Text(p)
		var objs []map[string]model.Value
		for j := 0; j < 3; j++ {
			o := condObject(env.Fields, k, r.Intn(1<<k), r)
			o["ZERO"] = model.Int(0)
			for f := 1; f <= 5; f++ {
				o[fmt.Sprintf("F%d", f)] = model.Bool(r.Intn(6) == 0)
			}
			objs = append(objs, o)
		}
		judged := diffOptNoOpt(c, id, "random constant-heavy program", script, env.Vars, objs)
		c.Case(script, judged > 0 && optimizerChanged(script))
		c.SampleEvery(i, func() interface{} { return map[string]string{"script": script, "kind": "random"} })
	})
	// probe for the known finding
	if c.Want("probe:sqrt-literal-fold") {
		a, e1 := eng.New("return type(√9);", eng.Options{})
		b, e2 := eng.New("return type(√9);", eng.Options{NoOptimize: true})
		fails, got := true, "prepare error"
		if e1 == nil && e2 == nil {
			x, y := a.Exec(nil).Desc(), b.Exec(nil).Desc()
			got = x + " vs " + y
			fails = x != y
		}
		c.Probe("sqrt-literal-fold", fails, "`return type(√9);` optimised vs NoOptimize: "+got, map[string]interface{}{"script": "return type(√9);"})
	}
}

// optimizerChanged reports whether the optimised and unoptimised prepared
// programs differ (hook: canonical program dump).
func optimizerChanged(script string) bool {
	a, e1 := eng.New(script, eng.Options{NoHook: true})
	b, e2 := eng.New(script, eng.Options{NoHook: true, NoOptimize: true})
	if e1 != nil || e2 != nil {
		return false
	}
	return a.ProgramDump() != b.ProgramDump()
}
