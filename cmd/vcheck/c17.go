package main

import (
	"fmt"
	"math/rand"
	"os"
	"sort"
	"strconv"
	"strings"
	"time"

	"verif/internal/eng"
	"verif/internal/ev"
	"verif/internal/gast"
	"verif/internal/gen"
	"verif/internal/model"
)

func init() { register("C17", "exploration", c17) }

func c17Num(r *rand.Rand) model.Value {
	switch r.Intn(9) {
	case 8:
		// neighbours beyond 2^53, where float64 can no longer tell integers apart
		return model.Int([]int64{9007199254740992, 9007199254740993, 9007199254740994, 9223372036854775807, 9223372036854775806, 9223372036854774784, -9007199254740993, -9007199254740992, -9223372036854775807}[r.Intn(9)])
	case 0:
		return model.Int([]int64{0, 1, 2, 9, 10, 11, 99, 100, 101, 1000, -1, -2, -10, -9, -100, 5, 50, 500}[r.Intn(18)])
	case 1:
		return model.Float([]float64{0, 0.5, 1.5, 2, 9.5, 10, 10.5, 100.25, -0.5, -10.5, -2, 1e6, 3.75}[r.Intn(13)])
	case 2:
		return model.Int(int64(r.Intn(2001) - 1000))
	case 3:
		return model.Float(float64(r.Intn(20001)-10000) / 8)
	case 4:
		return model.Int(int64(r.Intn(21) - 10))
	default:
		return gen.RandScalar(r, []model.Kind{model.KInt, model.KFloat}[r.Intn(2)])
	}
}

func numLess(a, b model.Value) (less, eq bool) {
	if a.K == model.KInt && b.K == model.KInt {
		return a.I < b.I, a.I == b.I
	}
	fa, fb := a.F, b.F
	if a.K == model.KInt {
		fa = float64(a.I)
	}
	if b.K == model.KInt {
		fb = float64(b.I)
	}
	return fa < fb, fa == fb
}

func c17(c *ev.Ctx) {
	c.SetRule("contract oracles per built-in plus metamorphic relations evaluated inside the engine: min/max vs numeric order and `min <= max`, between(v,lo,hi) == (v >= lo && v <= hi) with the language's own operators, for multi-digit / negative / mixed int-float arguments as literals, variables and fields; sort/reverse: permutation of the input (multiset of (type, printed form)), input unchanged, ordered (strings lexical or case-folded; numbers by printed form or numerically); join(split(s,d),d) == s; len/lower/upper/trim/string/int/float/type/replace/match vs the reference model for every argument type; hour/minute/seconds/day/month/year/weekday vs Go's time package for instants in [-2^31, 2^33] across 8 zones; wrong arity => null (false for match) for every built-in, wrong types => null where documented, otherwise no crash. Distinct = distinct script+bindings; all non-trivial.")
	run := func(script string, vars, fields map[string]model.Value, noOpt bool) eng.Obs {
		evr, err := eng.New(script, eng.Options{Vars: vars, NoOptimize: noOpt})
		if err != nil {
			return eng.Obs{Err: err}
		}
		obj, _ := eng.FieldsToMap(fields)
		return evr.Exec(obj)
	}
	bind := func(r *rand.Rand, names []string, vals []model.Value) (exprs []string, vars, fields map[string]model.Value) {
		vars, fields = map[string]model.Value{}, map[string]model.Value{}
		for i, v := range vals {
			switch r.Intn(3) {
			case 0:
				l, _ := gen.LitOf(v)
				exprs = append(exprs, "("+gast.ExprText(l)+")")
			case 1:
				vars[names[i]] = v
				exprs = append(exprs, names[i])
			default:
				f := strings.ToUpper(names[i])
				fields[f] = v
				exprs = append(exprs, f)
			}
		}
		return
	}
	// (a) min / max / between
	n := c.Pick(6000, 150000)
	c.ParFor(n, func(i int) {
		id := fmt.Sprintf("minmax/%d", i)
		if !c.Want(id) {
			return
		}
		r := c.Rng("minmax", i)
		a, b, v := c17Num(r), c17Num(r), c17Num(r)
		ex, vars, fields := bind(r, []string{"pa", "pb", "pv"}, []model.Value{a, b, v})
		noOpt := r.Intn(2) == 0
		script := fmt.Sprintf("lo = min(%s, %s); hi = max(%s, %s); return [lo, hi, lo <= hi, between(%s, %s, %s) == (%s >= %s && %s <= %s), between(%s, %s, %s)];",
			ex[0], ex[1], ex[0], ex[1], ex[2], ex[0], ex[1], ex[2], ex[0], ex[2], ex[1], ex[2], ex[0], ex[1])
		o := run(script, vars, fields, noOpt)
		c.Case(script+fmt.Sprint(describeFields(vars), describeFields(fields)), true)
		less, eq := numLess(a, b)
		lo, hi := a, b
		if !less && !eq {
			lo, hi = b, a
		}
		lv, le := numLess(v, a)
		_ = le
		gv, _ := numLess(b, v)
		btw := !lv && !gv
		wants := []string{}
		mk := func(l, h model.Value) string {
			return model.Arr(l, h, model.Bool(true), model.Bool(true), model.Bool(btw)).Describe()
		}
		wants = append(wants, mk(lo, hi))
		if eq {
			wants = append(wants, mk(hi, lo), mk(a, a), mk(b, b)) // numerically equal: either representative
		}
		ok := false
		for _, w := range wants {
			if o.Desc() == w {
				ok = true
			}
		}
		if !ok {
			c.Violation(id, "min/max/between", map[string]interface{}{
				"summary": fmt.Sprintf("a=%s b=%s v=%s: %s gives %s %s, expected %s ([min, max, min<=max, between==operators, between])", a.Describe(), b.Describe(), v.Describe(), script, o.Desc(), errText(o.Err), wants[0]), "script": script, "vars": describeFields(vars), "fields": describeFields(fields)})
		}
		c.SampleEvery(i, func() interface{} { return map[string]string{"script": script, "result": o.Desc()} })
	})
	// (b) sort / reverse
	n = c.Pick(4000, 120000)
	c.ParFor(n, func(i int) {
		id := fmt.Sprintf("sort/%d", i)
		if !c.Want(id) {
			return
		}
		r := c.Rng("sort", i)
		var arr model.Value
		kind := r.Intn(4)
		m := r.Intn(7)
		els := make([]model.Value, m)
		for k := range els {
			switch kind {
			case 0:
				els[k] = model.Str([]string{"b", "a", "B", "A", "ab", "Ab", "aB", "", "10", "9", "z", "é", "Z", "apple", "Apple", "banana"}[r.Intn(16)])
			case 1:
				els[k] = model.Int([]int64{1, 2, 10, 9, 100, 99, -1, -10, 0, 5, 50}[r.Intn(11)])
			case 2:
				els[k] = c17Num(r)
			default:
				els[k] = gen.RandScalar(r, []model.Kind{model.KInt, model.KFloat, model.KStr, model.KBool}[r.Intn(4)])
			}
		}
		arr = model.Value{K: model.KArr, A: els}
		fn := []string{"sort", "reverse"}[r.Intn(2)]
		flag := []string{"", ", true", ", false"}[r.Intn(3)]
		ex, vars, fields := bind(r, []string{"arr"}, []model.Value{arr})
		script := fmt.Sprintf("src = %s; out = %s(src%s); return [out, src];", ex[0], fn, flag)
		o := run(script, vars, fields, r.Intn(2) == 0)
		c.Case(script+fmt.Sprint(describeFields(vars), describeFields(fields)), true)
		fail := func(what string) {
			c.Violation(id, fn+": "+what, map[string]interface{}{"summary": fmt.Sprintf("%s with input %s: %s; got %s %s", script, arr.Describe(), what, o.Desc(), errText(o.Err)), "script": script})
		}
		if o.Err != nil || o.Type != "ARRAY" {
			fail("did not return [sorted, source]")
			return
		}
		// parse the printed result through the model: run the same script in a second form
		o2 := run(fmt.Sprintf("src = %s; out = %s(src%s); r = []; foreach e in out { t(type(e), string(e)); } foreach e in src { t(\"src\", type(e), string(e)); } return len(out);", ex[0], fn, flag), vars, fields, false)
		if o2.Err != nil {
			fail("second form failed: " + errText(o2.Err))
			return
		}
		var outEls, srcEls []string
		for _, tr := range o2.Trace {
			if strings.HasPrefix(tr, "t(STRING:src, ") {
				srcEls = append(srcEls, strings.TrimPrefix(tr, "t(STRING:src, "))
			} else {
				outEls = append(outEls, strings.TrimPrefix(tr, "t("))
			}
		}
		var wantEls []string
		for _, e := range els {
			wantEls = append(wantEls, fmt.Sprintf("STRING:%s, STRING:%s)", lowerType(e), e.Print()))
		}
		if strings.Join(srcEls, "|") != strings.Join(wantEls, "|") {
			fail("the input array was changed")
			return
		}
		a1 := append([]string{}, outEls...)
		a2 := append([]string{}, wantEls...)
		sort.Strings(a1)
		sort.Strings(a2)
		if strings.Join(a1, "|") != strings.Join(a2, "|") {
			fail("the result is not a permutation of the input")
			return
		}
		// order
		keyOf := func(s string) string { // printed form
			return strings.TrimSuffix(s[strings.Index(s, ", STRING:")+9:], ")")
		}
		fold := flag == ", true"
		inOrder := func(less func(a, b string) bool) bool {
			for k := 1; k < len(outEls); k++ {
				x, y := keyOf(outEls[k-1]), keyOf(outEls[k])
				if fn == "reverse" {
					x, y = y, x
				}
				if less(y, x) {
					return false
				}
			}
			return true
		}
		lex := func(a, b string) bool {
			if fold {
				a, b = strings.ToLower(a), strings.ToLower(b)
			}
			return a < b
		}
		num := func(a, b string) bool {
			fa, _ := strconv.ParseFloat(a, 64)
			fb, _ := strconv.ParseFloat(b, 64)
			return fa < fb
		}
		switch kind {
		case 0:
			if !inOrder(lex) {
				fail("strings are not in order")
			}
		case 1, 2:
			if !inOrder(lex) && !inOrder(num) {
				fail("numbers are ordered neither by printed form nor numerically")
			}
		}
	})
	// (b2) case-insensitive means: the order does not depend on the case of the letters,
	// whatever the members are - strings, arrays of strings, hashes, regexps. Two inputs that
	// differ only in case (with keys that stay distinct when folded) come out in the same
	// order; without the flag the order is that of the printed forms.
	for gi, group := range [][2]string{
		{`[["b"], ["C"], ["a"]]`, `[["B"], ["c"], ["A"]]`},
		{`[["b", 1], ["C", 2], ["a", 3], ["D", 4]]`, `[["B", 1], ["c", 2], ["A", 3], ["d", 4]]`},
		{`[{"k": "b"}, {"k": "C"}, {"k": "a"}]`, `[{"k": "B"}, {"k": "c"}, {"k": "A"}]`},
		{`[/b/, /C/, /a/]`, `[/B/, /c/, /A/]`},
		{`["b", ["C"], /a/, "D", ["e"]]`, `["B", ["c"], /A/, "d", ["E"]]`},
		{`["b", "C", "a"]`, `["B", "c", "A"]`},
		{`[["é"], ["Z"], ["a"]]`, `[["É"], ["z"], ["A"]]`},
	} {
		for _, fn := range []string{"sort", "reverse"} {
			for _, noOpt := range []bool{false, true} {
				id := fmt.Sprintf("fold-order/%d/%s/%v", gi, fn, noOpt)
				if !c.Want(id) {
					continue
				}
				script := fmt.Sprintf("a = %s; b = %s; x = %s(a, true); y = %s(b, true); p = %s(a); return [lower(string(x)) == lower(string(y)), len(x) == len(a), string(x), string(y), string(p), string(a)];", group[0], group[1], fn, fn, fn)
				o := run(script, nil, nil, noOpt)
				c.Case(script+fmt.Sprint(noOpt), true)
				if !strings.HasPrefix(o.Desc(), "ARRAY:[true, true, ") {
					c.Violation(id, fn+" with the case-insensitive flag", map[string]interface{}{"summary": fmt.Sprintf("%s gives %s %s: two inputs that differ only in the case of their letters must come out in the same order when the flag is set", script, o.Desc(), errText(o.Err)), "script": script})
				}
			}
		}
	}
	// (c) join(split(s, d), d) == s
	n = c.Pick(4000, 120000)
	c.ParFor(n, func(i int) {
		id := fmt.Sprintf("joinsplit/%d", i)
		if !c.Want(id) {
			return
		}
		r := c.Rng("joinsplit", i)
		alpha := []string{"a", "b", ",", ";", " ", "::", "é", "狐", "", "ab", "\n", "x,y", ",,", "a,b,,c"}
		var sb strings.Builder
		for k := 0; k < r.Intn(8); k++ {
			sb.WriteString(alpha[r.Intn(len(alpha))])
		}
		s, d := sb.String(), []string{",", ";", " ", "::", "a", "é", "", "ab", ",,", "\n", "狐"}[r.Intn(11)]
		ex, vars, fields := bind(r, []string{"s", "d"}, []model.Value{model.Str(s), model.Str(d)})
		script := fmt.Sprintf("p = split(%s, %s); return [join(p, %s) == %s, join(p, %s), len(p)];", ex[0], ex[1], ex[1], ex[0], ex[1])
		o := run(script, vars, fields, r.Intn(2) == 0)
		c.Case(script+fmt.Sprint(describeFields(vars), describeFields(fields)), true)
		want := model.Arr(model.Bool(true), model.Str(s), model.Int(int64(len(strings.Split(s, d))))).Describe()
		if o.Desc() != want {
			c.Violation(id, "join(split(s,d),d)", map[string]interface{}{"summary": fmt.Sprintf("s=%q d=%q: %s gives %s %s, expected %s", s, d, script, o.Desc(), errText(o.Err), want), "script": script})
		}
	})
	// (c2) the same round trip for strings only a host can supply: invalid UTF-8, the
	// replacement character, NUL, lone surrogates' encodings - with every separator
	for si, hs := range []string{"a\xffb", "\xc3", "x\xe2\x82y\xf0\x9f", "ab\ufffdcd", "\ufffd", "a\x00b", "\xed\xa0\x80z", "é\xffé", "plain"} {
		for di, d := range []string{"", ",", "a", "\xff", "\ufffd", "é"} {
			id := fmt.Sprintf("joinsplit-host/%d/%d", si, di)
			if !c.Want(id) {
				continue
			}
			script := `p = split(S, D); j = join(p, D); return [j == S, len(j) == len(S), len(p)];`
			for _, noOpt := range []bool{false, true} {
				evr, err := eng.New(script, eng.Options{NoOptimize: noOpt})
				if err != nil {
					continue
				}
				o := evr.Exec(map[string]interface{}{"S": hs, "D": d})
				c.Case(fmt.Sprintf("%q %q %v", hs, d, noOpt), true)
				if want := fmt.Sprintf("ARRAY:[true, true, %d]", len(strings.Split(hs, d))); o.Desc() != want {
					c.Violation(id, "join(split(s,d),d) for a host string", map[string]interface{}{"summary": fmt.Sprintf("S=%q D=%q (noopt=%v): %s gives %s %s, expected %s", hs, d, noOpt, script, o.Desc(), errText(o.Err), want), "script": script})
				}
			}
		}
	}
	// (d) string-ish built-ins vs the model, every argument type
	argVals := append(c01Values(), model.Str("  Pad  "), model.Str("MiXeD"), model.Str("12"), model.Str("-7"), model.Str("3.50"), model.Str(" 4"), model.Str("1e3"), model.Str("ÀÉ"), model.Float(3), model.Float(-0.25), model.Int(-42),
		// numbers in every notation a careless conversion might accept or misread
		model.Str("010"), model.Str("-017"), model.Str("08"), model.Str("0099"), model.Str("007"), model.Str("0x1F"), model.Str("0b101"), model.Str("0o17"), model.Str("1_000"), model.Str("+5"), model.Str("12 "), model.Str("0.5"), model.Str(".5"), model.Str("5."),
		model.Str("Inf"), model.Str("-inf"), model.Str("NaN"), model.Str("0x1p-2"), model.Str("1e400"), model.Str("9223372036854775807"), model.Str("9223372036854775808"), model.Str("-9223372036854775808"), model.Str("١٢"), model.Str("１２"),
		// text that a formatting function would take for directives, on its own and inside containers
		model.Str("100%"), model.Str("%d %s %v %!"), model.Str("%%"), model.Str("%!d(MISSING)"), model.Str("{}"), model.Arr(model.Str("5%"), model.Int(1)), model.Arr(model.Str("%s"), model.Str("%%")),
		model.Hash(model.HashEnt{Key: model.Str("name"), Val: model.Str("x")}, model.HashEnt{Key: model.Str("rate"), Val: model.Str("5%")}),
		model.Hash(model.HashEnt{Key: model.Str("%d"), Val: model.Int(1)}, model.HashEnt{Key: model.Str("%%"), Val: model.Str("%v")}),
		model.Arr(model.Hash(model.HashEnt{Key: model.Str("k"), Val: model.Str("50% off")})), model.Hash(model.HashEnt{Key: model.Str("in"), Val: model.Arr(model.Str("%q"), model.Float(2.5))}))
	fns1 := []string{"len", "lower", "upper", "trim", "string", "int", "float", "type", "keys"}
	var jobs []gast.Expr
	for _, fn := range fns1 {
		for _, v := range argVals {
			if l, ok := gen.LitOf(v); ok {
				jobs = append(jobs, gast.Call{Fn: fn, Args: []gast.Expr{l}})
			}
		}
	}
	subjects := []string{"", "abc", "Hello World", "foobar abc", "line1\nline2", "  x  ", "aXbXc", "123", "héllo", "  Steve\t", "   ", " abc ", "abc\n", "\nabc", " l1 \n l2 ", "a-b-c", "5 USD"}
	patterns := []gast.Expr{gast.RegexLit{Pat: "l+"}, gast.RegexLit{Pat: "^h", Flags: "i"}, gast.RegexLit{Pat: "[0-9]+"}, gast.RegexLit{Pat: "X"}, gast.RegexLit{Pat: "^line2$"}, gast.RegexLit{Pat: "(a)(b)"}, gast.StrLit{V: "b"}, gast.StrLit{V: "^a"}, gast.IntLit{V: 2},
		gast.StrLit{V: "^Steve$"}, gast.RegexLit{Pat: "^$"}, gast.StrLit{V: "^abc$"}, gast.StrLit{V: "^\\s"}, gast.RegexLit{Pat: "\\s$"}, gast.StrLit{V: "-"}, gast.StrLit{V: "USD"}, gast.RegexLit{Pat: "^l2$"}, gast.RegexLit{Pat: "x*"},
		// literals that begin with a group or inline flags of their own
		gast.RegexLit{Pat: "(?:ll)o"}, gast.RegexLit{Pat: "(?:b|X)c"}, gast.RegexLit{Pat: "(?P<n>l)l"}, gast.RegexLit{Pat: "(?i:hel)lo"}, gast.RegexLit{Pat: "(?s)e.*"}, gast.RegexLit{Pat: "(?:ba)r", Flags: "i"}, gast.RegexLit{Pat: "(?i)(?:wo)rld", Flags: "m"}, gast.StrLit{V: "(?:ll)o"}, gast.StrLit{V: "(?i)HELLO"}}
	for _, s := range subjects {
		for _, p := range patterns {
			jobs = append(jobs, gast.Call{Fn: "match", Args: []gast.Expr{gast.StrLit{V: s}, p}})
			for _, rep := range []string{"", "-", "<$1>", "$0$0", "$$", "${1}x", "$5"} {
				jobs = append(jobs, gast.Call{Fn: "replace", Args: []gast.Expr{gast.StrLit{V: s}, p, gast.StrLit{V: rep}}})
			}
		}
	}
	for _, v := range argVals {
		if l, ok := gen.LitOf(v); ok {
			jobs = append(jobs, gast.Call{Fn: "match", Args: []gast.Expr{l, gast.RegexLit{Pat: "a"}}}, gast.Call{Fn: "replace", Args: []gast.Expr{l, gast.RegexLit{Pat: "a"}, gast.StrLit{V: "b"}}},
				gast.Call{Fn: "join", Args: []gast.Expr{l, gast.StrLit{V: ","}}}, gast.Call{Fn: "join", Args: []gast.Expr{gast.ArrayLit{Els: []gast.Expr{l, l}}, gast.StrLit{V: "-"}}},
				gast.Call{Fn: "split", Args: []gast.Expr{l, gast.StrLit{V: ","}}}, gast.Call{Fn: "split", Args: []gast.Expr{gast.StrLit{V: "a,b"}, l}}, gast.Call{Fn: "join", Args: []gast.Expr{gast.ArrayLit{}, l}},
				gast.Call{Fn: "between", Args: []gast.Expr{l, gast.IntLit{V: 0}, gast.IntLit{V: 5}}}, gast.Call{Fn: "between", Args: []gast.Expr{gast.IntLit{V: 1}, l, gast.IntLit{V: 5}}},
				gast.Call{Fn: "sort", Args: []gast.Expr{l}}, gast.Call{Fn: "reverse", Args: []gast.Expr{l}}, gast.Call{Fn: "sort", Args: []gast.Expr{gast.ArrayLit{Els: []gast.Expr{gast.StrLit{V: "b"}, gast.StrLit{V: "a"}}}, l}})
		}
	}
	c.ParFor(len(jobs), func(i int) {
		id := fmt.Sprintf("contract/%d", i)
		if !c.Want(id) {
			return
		}
		c.Case(gast.ExprText(jobs[i]), true)
		runExprCase(c, id, "built-in contract "+jobs[i].(gast.Call).Fn, jobs[i], nil, nil, i%2 == 0)
	})
	// (e2) a pattern that does not compile is a wrong argument every time it is used: match
	// and ~= say false, !~ says true, replace gives what it gave the first time - on the first
	// use and on every later one, for subjects that are empty, blank or end in a line feed too
	for pi, bad := range []string{"(zz", "[a-", "*x", "a{2,1}", "(?P<n", "x)", "+", "(?z)a"} {
		for si, subj := range []string{"", " ", "a\n", "\n\nb", "x", "  \n  ", "(zz"} {
			id := fmt.Sprintf("broken-pattern/%d/%d", pi, si)
			if !c.Want(id) {
				continue
			}
			script := "return [match(S, P), S ~= " + gast.EncodeRegex(bad, "") + ", S !~ " + gast.EncodeRegex(bad, "") + ", type(replace(S, P, \"-\")), replace(S, P, \"-\") == replace(S, P, \"+\")];"
			first := ""
			for rep := 0; rep < 4; rep++ {
				o := run(script, map[string]model.Value{"S": model.Str(subj), "P": model.Str(bad)}, nil, rep%2 == 0)
				c.Case(fmt.Sprint(id, rep), true)
				got := o.Desc()
				if rep == 0 {
					first = got
				}
				if !strings.HasPrefix(got, "ARRAY:[false, false, true, ") || got != first {
					c.Violation(id, "a pattern that does not compile", map[string]interface{}{"summary": fmt.Sprintf("use %d of the pattern %q on the subject %q: %s gives %s %s (first use gave %s); expected [false, false, true, ...] every time", rep+1, bad, subj, script, got, errText(o.Err), first), "script": script})
					break
				}
			}
		}
	}
	// (f) wrong arity => null (false for match), never a crash
	arity := map[string][]int{"between": {3}, "float": {1}, "int": {1}, "getenv": {1}, "len": {1}, "lower": {1}, "upper": {1}, "trim": {1}, "type": {1}, "string": {1}, "keys": {1},
		"join": {2}, "split": {2}, "min": {2}, "max": {2}, "match": {2}, "replace": {3}, "sort": {1, 2}, "reverse": {1, 2},
		"hour": {1}, "minute": {1}, "seconds": {1}, "day": {1}, "month": {1}, "year": {1}, "weekday": {1}}
	fnNames := make([]string, 0, len(arity))
	for k := range arity {
		fnNames = append(fnNames, k)
	}
	sort.Strings(fnNames)
	for _, fn := range fnNames {
		for k := 0; k <= 4; k++ {
			okArity := false
			for _, a := range arity[fn] {
				if a == k {
					okArity = true
				}
			}
			if okArity {
				continue
			}
			args := make([]string, k)
			for j := range args {
				args[j] = []string{"1", "\"a\"", "[1]", "2.5"}[j%4]
			}
			script := "return " + fn + "(" + strings.Join(args, ", ") + ");"
			id := "arity/" + fn + "/" + fmt.Sprint(k)
			if !c.Want(id) {
				continue
			}
			o := run(script, nil, nil, false)
			want := "NULL:null"
			if fn == "match" {
				want = "BOOLEAN:false"
			}
			c.Case(script, true)
			if o.Desc() != want {
				c.Violation(id, "wrong arity "+fn, map[string]interface{}{"summary": fmt.Sprintf("%s gives %s %s, expected %s", script, o.Desc(), errText(o.Err), want), "script": script})
			}
		}
	}
	if c.Want("arity/sprintf") {
		c.Case("sprintf()", true)
		for _, s := range []struct{ t, w string }{{"return sprintf();", "NULL:null"}, {"return sprintf(1);", "NULL:null"}, {"return sprintf([\"%d\"], 1);", "NULL:null"}, {"return sprintf(\"%d-%s\", 3, \"x\");", "STRING:3-x"}} {
			if o := run(s.t, nil, nil, false); o.Desc() != s.w {
				c.Violation("arity/sprintf", "sprintf contract", map[string]interface{}{"summary": fmt.Sprintf("%s gives %s, expected %s", s.t, o.Desc(), s.w), "script": s.t})
			}
		}
	}
	// sprintf follows Go's fmt for the converted arguments (integer -> int64, float ->
	// float64, string, boolean -> bool, null -> nil)
	verbs := []string{"%d", "%s", "%v", "%t", "%f", "%5.2f", "%x", "%q", "%%", "%5d", "%-5s|", "%05d", "%e", "%c", "%+d", "%08.3f", "%T", "%3v", "%U"}
	ns := c.Pick(3000, 80000)
	c.ParFor(ns, func(i int) {
		id := fmt.Sprintf("sprintf/%d", i)
		if !c.Want(id) {
			return
		}
		r := c.Rng("sprintf", i)
		nv := 1 + r.Intn(3)
		var fs strings.Builder
		var goArgs []interface{}
		var argText []string
		for k := 0; k < nv; k++ {
			fs.WriteString([]string{"", "a=", " ", "é:", "[", "100% "}[r.Intn(6)])
			vb := verbs[r.Intn(len(verbs))]
			fs.WriteString(vb)
			if vb == "%%" {
				continue
			}
			v := gen.RandScalar(r, []model.Kind{model.KInt, model.KFloat, model.KStr, model.KBool, model.KNull}[r.Intn(5)])
			l, ok := gen.LitOf(v)
			if !ok {
				return
			}
			argText = append(argText, gast.ExprText(l))
			switch v.K {
			case model.KInt:
				goArgs = append(goArgs, v.I)
			case model.KFloat:
				goArgs = append(goArgs, v.F)
			case model.KStr:
				goArgs = append(goArgs, v.S)
			case model.KBool:
				goArgs = append(goArgs, v.B)
			default:
				goArgs = append(goArgs, nil)
			}
		}
		if r.Intn(6) == 0 && len(argText) > 0 { // too few / too many arguments: Go's fmt reports it in the text
			if r.Intn(2) == 0 {
				argText, goArgs = argText[:len(argText)-1], goArgs[:len(goArgs)-1]
			} else {
				argText, goArgs = append(argText, "7"), append(goArgs, int64(7))
			}
		}
		format := strings.ReplaceAll(fs.String(), "100% ", "100%% ")
		want := "STRING:" + fmt.Sprintf(format, goArgs...)
		script := "return sprintf(" + strings.Join(append([]string{gast.EncodeString(format, '"', nil)}, argText...), ", ") + ");"
		o := run(script, nil, nil, r.Intn(2) == 0)
		c.Case(script, true)
		if o.Desc() != want {
			c.Violation(id, "sprintf", map[string]interface{}{"summary": fmt.Sprintf("%s gives %q %s, Go's fmt gives %q", script, o.Desc(), errText(o.Err), want), "script": script})
		}
	})
	// wrong types => null where documented
	for ti, tc := range []string{`join("a", ",")`, `join([1], 2)`, `join(null, ",")`, `split(1, ",")`, `split("a", 1)`, `split([1], ",")`, `sort("ba")`, `sort(1)`, `sort([2,1], "x")`, `sort([2,1], 1)`, `reverse({})`, `reverse([1], null)`,
		`keys([1])`, `keys("a")`, `keys(null)`, `between("1", 0, 2)`, `between(1, "0", 2)`, `between(1, 0, [2])`, `between(null, 0, 2)`, `hour("1")`, `minute(1.5)`, `weekday(null)`, `year([1])`, `day(true)`, `month({})`, `seconds("x")`} {
		id := fmt.Sprintf("types/%d", ti)
		if !c.Want(id) {
			continue
		}
		script := "return " + tc + ";"
		o := run(script, nil, nil, ti%2 == 0)
		c.Case(script, true)
		if o.Desc() != "NULL:null" {
			c.Violation(id, "wrong argument type", map[string]interface{}{"summary": fmt.Sprintf("%s gives %s %s, the documented outcome for a wrong argument type is null", script, o.Desc(), errText(o.Err)), "script": script})
		}
	}
	// every built-in with arbitrary typed arguments: no crash (oracle: no panic / nil)
	n = c.Pick(3000, 100000)
	allFns := append(append([]string{}, fnNames...), "sprintf", "string", "now", "time")
	c.ParFor(n, func(i int) {
		id := fmt.Sprintf("nocrash/%d", i)
		if !c.Want(id) {
			return
		}
		r := c.Rng("nocrash", i)
		fn := allFns[r.Intn(len(allFns))]
		k := r.Intn(5)
		args := make([]string, k)
		for j := range args {
			l, _ := gen.LitOf(argVals[r.Intn(len(argVals))])
			args[j] = gast.ExprText(l)
		}
		script := "x = " + fn + "(" + strings.Join(args, ", ") + "); return type(x);"
		o := run(script, nil, nil, r.Intn(2) == 0)
		c.Case(script, true)
		if o.Panicked || o.Nil {
			c.Violation(id, "built-in crashed "+fn, map[string]interface{}{"summary": fmt.Sprintf("%s: %s", script, o.Desc()), "script": script})
		}
	})
	// (e) time decomposition against Go's time package, per zone (TZ is read at call time)
	zones := []string{"UTC", "Europe/Helsinki", "America/New_York", "Asia/Kolkata", "Australia/Lord_Howe", "Pacific/Kiritimati", "America/St_Johns", "Asia/Kathmandu"}
	oldTZ, hadTZ := os.LookupEnv("TZ")
	nT := c.Pick(400, 20000)
	checked := 0
	for zi, zone := range zones {
		loc, err := time.LoadLocation(zone)
		if err != nil {
			c.Count("zones_unavailable", 1)
			continue
		}
		os.Setenv("TZ", zone)
		script := `return [hour(T), minute(T), seconds(T), day(T), month(T), year(T), weekday(T)];`
		evr, err := eng.New(script, eng.Options{})
		if err != nil {
			continue
		}
		for k := 0; k < nT; k++ {
			id := fmt.Sprintf("time/%d/%d", zi, k)
			if !c.Want(id) {
				continue
			}
			r := c.Rng("time"+zone, k)
			var sec int64
			switch r.Intn(6) {
			case 0:
				sec = []int64{0, -1, 1, 86399, 86400, -86400, 951782400, 1709164800, 4102444800, -2147483648, 8589934592, 1711846800, 1698541200}[r.Intn(13)]
			case 1:
				sec = -2147483648 + r.Int63n(2147483648)
			case 2:
				// anywhere in the years 1 to 9999, and the edges of what nanoseconds since the
				// epoch can express (1677 / 2262)
				sec = -62135596800 + r.Int63n(253402300799+62135596800)
				if r.Intn(4) == 0 {
					sec = []int64{-62135596800, -9223372037, -9223372036, 9223372036, 9223372037, 253402300799, -11644473600}[r.Intn(7)]
				}
			default:
				sec = r.Int63n(8589934592)
			}
			// a host time.Time also carries a fraction of a second: the script sees the whole
			// seconds, rounded down
			nsec := []int64{0, 1, 500000000, 999999999}[r.Intn(4)]
			ts := time.Unix(sec, 0).In(loc)
			h, mi, s := ts.Clock()
			y, mo, d := ts.Date()
			want := model.Arr(model.Int(int64(h)), model.Int(int64(mi)), model.Int(int64(s)), model.Int(int64(d)), model.Int(int64(mo)), model.Int(int64(y)), model.Str(ts.Weekday().String())).Describe()
			var o eng.Obs
			if k%2 == 0 {
				o = evr.Exec(map[string]interface{}{"T": int(sec)})
			} else {
				switch k % 6 {
				case 1:
					o = evr.Exec(map[string]interface{}{"T": time.Unix(sec, nsec)})
				case 3:
					o = evr.Exec(struct{ T time.Time }{time.Unix(sec, nsec)})
				default:
					// a member of a host slice takes another conversion path
					o = evr.Exec(map[string]interface{}{"L": []time.Time{time.Unix(sec, nsec)}, "T": 0})
					if o.Err == nil {
						evl, _ := eng.New(`T = L[0]; `+script, eng.Options{})
						o = evl.Exec(map[string]interface{}{"L": []time.Time{time.Unix(sec, nsec)}})
					}
				}
			}
			c.Case(fmt.Sprint(zone, sec), true)
			checked++
			if o.Desc() != want {
				c.Violation(id, "time decomposition "+zone, map[string]interface{}{"summary": fmt.Sprintf("TZ=%s instant %d: got %s %s, Go's time package gives %s", zone, sec, o.Desc(), errText(o.Err), want), "script": script})
				break
			}
		}
	}
	if hadTZ {
		os.Setenv("TZ", oldTZ)
	} else {
		os.Unsetenv("TZ")
	}
	c.Extra("time_instants_checked", checked)
	if checked == 0 && c.Only == "" {
		c.Inconclusive("no time zone could be loaded: the time decomposition clause was not exercised")
	}
}
