// vcheck is the driver of the runtime monitors: one sub-command per property.
//
//	vcheck <Cxx> <quick|thorough>
package main

import (
	"fmt"
	"os"
	"sort"

	"verif/internal/ev"
)

type checkFn func(c *ev.Ctx)

type checkDef struct {
	level string
	fn    checkFn
}

var checks = map[string]checkDef{}

func register(id, level string, fn checkFn) { checks[id] = checkDef{level, fn} }

func main() {
	if len(os.Args) >= 2 && os.Args[1] == "worker" {
		workerMain(os.Args[2:])
		return
	}
	if len(os.Args) < 3 {
		ids := []string{}
		for k := range checks {
			ids = append(ids, k)
		}
		sort.Strings(ids)
		fmt.Fprintf(os.Stderr, "usage: vcheck <property> <quick|thorough>\nproperties: %v\n", ids)
		os.Exit(2)
	}
	// the engine prints diagnostics with fmt.Printf: keep them out of our output
	if dn, err := os.OpenFile(os.DevNull, os.O_WRONLY, 0); err == nil && os.Getenv("VERIF_ENGINE_STDOUT") == "" {
		ev.Out = os.Stdout
		os.Stdout = dn
	}
	id, tier := os.Args[1], os.Args[2]
	def, ok := checks[id]
	if !ok {
		fmt.Fprintf(os.Stderr, "unknown property %s\n", id)
		os.Exit(2)
	}
	c := ev.New(id, tier, def.level)
	def.fn(c)
	os.Exit(c.Finish())
}
