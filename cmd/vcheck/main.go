// vcheck is the driver of the runtime monitors: one sub-command per property.
//
//	vcheck <Cxx> <quick|thorough>
package main

import (
	"fmt"
	"os"
	"sort"
	"time"

	"verif/internal/eng"
	"verif/internal/ev"
)

func clipMain(s string, n int) string {
	if len(s) > n {
		return s[:n] + "..."
	}
	return s
}

type checkFn func(c *ev.Ctx)

type checkDef struct {
	level string
	fn    checkFn
}

var checks = map[string]checkDef{}

func register(id, level string, fn checkFn) { checks[id] = checkDef{level, fn} }

func main() {
	if len(os.Args) >= 2 && os.Args[1] == "worker" {
		workerMain(os.Args[2:])
		return
	}
	if len(os.Args) < 3 {
		ids := []string{}
		for k := range checks {
			ids = append(ids, k)
		}
		sort.Strings(ids)
		fmt.Fprintf(os.Stderr, "usage: vcheck <property> <quick|thorough>\nproperties: %v\n", ids)
		os.Exit(2)
	}
	// the engine prints diagnostics with fmt.Printf: keep them out of our output
	if dn, err := os.OpenFile(os.DevNull, os.O_WRONLY, 0); err == nil && os.Getenv("VERIF_ENGINE_STDOUT") == "" {
		ev.Out = os.Stdout
		os.Stdout = dn
	}
	id, tier := os.Args[1], os.Args[2]
	def, ok := checks[id]
	if !ok {
		fmt.Fprintf(os.Stderr, "unknown property %s\n", id)
		os.Exit(2)
	}
	c := ev.New(id, tier, def.level)
	// an Execute / Run that sits inside one instruction and dispatches nothing more can
	// never be reached by a deadline and would leave the check without a verdict
	eng.OnHang = func(script, api string, steps int64, stuck time.Duration) {
		if steps < 0 {
			c.Inconclusive(fmt.Sprintf("%s of %s has not returned for %v (no step hook on this evaluator: wall-clock watchdog only)", api, clipMain(script, 300), stuck.Round(time.Second)))
		} else {
			c.Violation("hang", "a call never returns: stuck inside one instruction", map[string]interface{}{
				"summary": fmt.Sprintf("%s dispatched %d instruction(s) and then none for %v: the machine is stuck inside a single instruction, where no deadline or cancellation can reach it\n  script: %s", api, steps, stuck.Round(time.Second), clipMain(script, 600)), "script": script})
		}
		os.Exit(c.Finish())
	}
	def.fn(c)
	os.Exit(c.Finish())
}
