package main

import (
	"encoding/json"
	"fmt"
	"math/rand"
	"os"
	"os/exec"
	"path/filepath"
	"reflect"
	"regexp"
	"runtime"
	"sort"
	"strings"
	"sync"
	"sync/atomic"
	"time"

	"github.com/anishathalye/porcupine"
	evalfilter "github.com/skx/evalfilter/v2"
	"github.com/skx/evalfilter/v2/code"
	"github.com/skx/evalfilter/v2/object"
	"github.com/skx/evalfilter/v2/vm"

	"verif/internal/ev"
)

func init() {
	register("C11", "exploration", c11)
	workers["c11"] = c11Worker
}

type c11Obj struct {
	Div   int
	Id    int
	Name  string
	Kind  string
	Tags  string
	Count int
	Score float64
	Stamp int64
}

const c11SharedScript = `
n = n + 1;
note(Id, n);
seen = 0;
if (Name ~= /^a/i) { seen = seen + 1; }
switch (Kind) {
  case /^x/ { seen = seen + 10; }
  case "plain", "other" { seen = seen + 20; }
  default { seen = seen + 30; }
}
parts = sort(split(Tags, ","));
joined = join(parts, "+");
clean = replace(joined, /[0-9]+/, "#");
alt = replace(Name, /q|w|_[0-9]/, "") + string(match(Kind, /abc|abcd/));
last = clean;
function weight(c, s) { local w; w = c * 2; if (s > 0.5) { w = w + 1; } return w; }
w = weight(Count, Score);
ratio = 100 / Div;
stamp = string(year(Stamp)) + "-" + string(month(Stamp)) + "-" + string(day(Stamp)) + " " + string(hour(Stamp)) + " " + weekday(Stamp);
return (w > 6 && Name ~= /e/) || (len(parts) > 2 && between(Count, 2, 4)) || Kind == "other" || hour(Stamp) == 3 || weekday(Stamp) == "Monday";
`

func c11MakeObj(r *rand.Rand, id int) c11Obj {
	names := []string{"alice", "Adam", "bob", "eve", "Zed", "anne", "Erin", "", "狐犬"}
	kinds := []string{"x1", "xylo", "plain", "other", "misc", ""}
	tags := []string{"", "a", "b,a", "c,b,a,1", "z9,y8,x7", "t1,t22,t333,t4444"}
	div := 1 + r.Intn(5)
	if r.Intn(8) == 0 {
		div = 0 // this run ends with a division-by-zero error (after its counter update)
	}
	return c11Obj{Div: div, Id: id, Name: names[r.Intn(len(names))], Kind: kinds[r.Intn(len(kinds))], Tags: tags[r.Intn(len(tags))], Count: r.Intn(7), Score: r.Float64(), Stamp: r.Int63n(4102444800)}
}

type c11Result struct {
	Rounds           int      `json:"rounds"`
	SharedRuns       int      `json:"shared_runs"`
	OwnRuns          int      `json:"own_runs"`
	VerdictMismatch  []string `json:"verdict_mismatch"`
	Conservation     []string `json:"conservation"`
	Porcupine        []string `json:"porcupine"`
	PorcupineOK      int      `json:"porcupine_ok"`
	PorcupineUnknown int      `json:"porcupine_unknown"`
	Errors           []string `json:"errors"`
	Switches         int      `json:"goroutine_switches_in_note_log"`
	DistinctOrders   int      `json:"distinct_acquisition_orders"`
	Yields           int64    `json:"yields_injected"`
	OwnMismatch      []string `json:"own_mismatch"`
	Samples          []string `json:"samples"`
}

// c11Worker: vcheck worker c11 <seed> <rounds> <goroutines> <runsEach>
func c11Worker(args []string) {
	var seed int64
	var rounds, G, runsEachFull int
	fmt.Sscan(args[0], &seed)
	fmt.Sscan(args[1], &rounds)
	fmt.Sscan(args[2], &G)
	fmt.Sscan(args[3], &runsEachFull)
	real := os.Stdout
	dn, _ := os.OpenFile(os.DevNull, os.O_WRONLY, 0)
	os.Stdout = dn
	res := c11Result{Rounds: rounds}
	orders := map[string]bool{}
	var yields int64
	for round := 0; round < rounds; round++ {
		r := rand.New(rand.NewSource(seed*1000 + int64(round)))
		if round%3 == 1 {
			runtime.GOMAXPROCS(5 + r.Intn(12))
		} else {
			runtime.GOMAXPROCS(runtime.NumCPU())
		}
		// the time built-ins follow $TZ: a different zone each round, set while nothing runs
		zone := []string{"", "Europe/Helsinki", "America/New_York", "Asia/Kolkata", "UTC", "Australia/Lord_Howe"}[round%6]
		os.Setenv("TZ", zone)
		loc := time.UTC
		if zone != "" {
			if l, err := time.LoadLocation(zone); err == nil {
				loc = l
			}
		}
		sharedLabels := map[string]interface{}{}
		for q := 0; q < 400; q++ {
			sharedLabels[fmt.Sprintf("k%d", q)] = q
		}
		sharedNested := map[string]interface{}{"inner": sharedLabels}
		// script values made by the host once and given to many evaluators (SetVariable):
		// scripts only read them, for the first time while other evaluators do the same
		hostHash := &object.Hash{Pairs: map[object.HashKey]object.HashPair{}}
		var hostKeys []string
		for q := 0; q < 60; q++ {
			k := &object.String{Value: fmt.Sprintf("key%02d", (q*37)%60)}
			hostHash.Pairs[k.HashKey()] = object.HashPair{Key: k, Value: &object.Integer{Value: int64(q)}}
			hostKeys = append(hostKeys, k.Value)
		}
		sort.Strings(hostKeys)
		wantKeys := "[" + strings.Join(hostKeys, ", ") + "]"
		hostArray := &object.Array{Elements: []object.Object{&object.Integer{Value: 3}, &object.String{Value: "b"}, &object.String{Value: "a"}, hostHash}}
		// rounds on few processors are far slower (sixteen goroutines hand one lock around
		// under the race detector): they get a third of the runs
		runsEach := runsEachFull
		if runtime.GOMAXPROCS(0) < 12 {
			runsEach = runsEachFull / 3
		}
		N := G * runsEach
		objs := make([]c11Obj, N)
		for i := range objs {
			objs[i] = c11MakeObj(r, i)
		}
		// sequential reference verdicts (fresh evaluator, one at a time) - taken after the
		// concurrent phase, so that the first use of anything zone- or pattern-dependent
		// in a round happens under concurrency
		ref := make([]bool, N)
		refErr := make([]bool, N)
		sequentialReference := func() bool {
			refE := evalfilter.New(c11SharedScript)
			refE.AddFunction("note", func(a []object.Object) object.Object { return &object.Void{} })
			refE.SetVariable("n", &object.Integer{Value: 0})
			if err := refE.Prepare(); err != nil {
				res.Errors = append(res.Errors, "prepare: "+err.Error())
				return false
			}
			for i := range objs {
				b, err := refE.Run(objs[i])
				if (err != nil) != (objs[i].Div == 0) {
					res.Errors = append(res.Errors, fmt.Sprintf("sequential run of %+v: err=%v", objs[i], err))
				}
				ref[i], refErr[i] = b, err != nil
			}
			return true
		}
		// shared evaluator
		type noteRec struct {
			id int
			n  int64
			g  int
		}
		var noteMu sync.Mutex
		var notes []noteRec
		outN := make([]int64, N)
		gOf := make([]int32, N)
		shared := evalfilter.New(c11SharedScript)
		shared.AddFunction("note", func(a []object.Object) object.Object {
			id := int(a[0].(*object.Integer).Value)
			n := a[1].(*object.Integer).Value
			noteMu.Lock()
			notes = append(notes, noteRec{id, n, int(atomic.LoadInt32(&gOf[id]))})
			noteMu.Unlock()
			atomic.StoreInt64(&outN[id], n)
			return &object.Void{}
		})
		shared.SetVariable("n", &object.Integer{Value: 0})
		if err := shared.Prepare(); err != nil {
			res.Errors = append(res.Errors, "prepare: "+err.Error())
			break
		}
		// widen interleavings: yield at seeded instructions (the hook runs at
		// the VM's own suspension point, under the evaluator's own lock)
		yr := rand.New(rand.NewSource(seed + int64(round)))
		var yMu sync.Mutex
		shared.VerifMachine().VerifSetStepHook(func(m *vm.VM, ip int, op code.Opcode) error {
			yMu.Lock()
			k := yr.Intn(40)
			yMu.Unlock()
			if k == 0 {
				atomic.AddInt64(&yields, 1)
				runtime.Gosched()
			} else if k == 1 {
				time.Sleep(time.Microsecond)
			}
			return nil
		})
		t0 := time.Now()
		ops := make([]porcupine.Operation, N)
		got := make([]bool, N)
		errs := make([]error, N)
		var wg sync.WaitGroup
		ownMismatch := make([][]string, G)
		// W2 / W3: other goroutines prepare and run their own evaluators over
		// many distinct regexps at the same time
		stopOwn := make(chan struct{})
		// per-goroutine counters, summed after the goroutines have ended: an atomic counter
		// shared by the workers would order their runs for the race detector and so hide
		// races between them
		ownRunsBy := make([]int64, G)
		var wgOwn sync.WaitGroup
		for g := 0; g < G; g++ {
			wgOwn.Add(1)
			go func(g int) {
				defer wgOwn.Done()
				rr := rand.New(rand.NewSource(seed*77 + int64(round*100+g)))
				for k := 0; ; k++ {
					select {
					case <-stopOwn:
						return
					default:
					}
					if k > 60 || (k > 12 && runtime.GOMAXPROCS(0) < 12) {
						// the first scripts of a round run flat out (first uses of everything
						// happen there); afterwards leave most of the processors to the
						// goroutines that share the evaluator
						time.Sleep(time.Duration(300*16/runtime.GOMAXPROCS(0)) * time.Microsecond)
					}
					pat := fmt.Sprintf("^w%d_%d[a-z]*%d$", g, k%50, rr.Intn(1000))
					word := fmt.Sprintf("w%d_%dabc%s", g, k%50, pat[strings.LastIndex(pat, "*")+1:len(pat)-1])
					script := fmt.Sprintf("c = c + 1; if (Word ~= /%s/ && match(Word, /^w/) && replace(Word, /[0-9]+/, \"\") !~ /[0-9]/ && replace(Word, /q|w|_[0-9]/, \"\") !~ /^w/ && match(Word, /q|w|_[0-9]/) && Word ~= /abc|abcd/ && %d + %d == %d && %d * 3 - 1 == %d && 60000 / %d == %d) { return c; } return 0 - c;", pat, g*100+k%97, 7, g*100+k%97+7, g*11+k%13, (g*11+k%13)*3-1, 1+g, 60000/(1+g))
					if k%5 == 4 {
						// a pattern that fails to compile at run time (distinct per goroutine
						// and round): match() reports false, the script still counts
						bad := fmt.Sprintf("(w%d_%d_%d[", g, k, rr.Intn(1000000))
						script = fmt.Sprintf("c = c + 1; if (match(Word, \"%s\") || replace(Word, \"%s\", \"x\") == true) { return 0 - c; } return c;", bad, bad)
					}
					if (g%2 == 0 && k%5 == 0) || (g%2 == 1 && k%5 == 3) {
						// time built-ins against Go's own calendar arithmetic in this round's zone
						// (half of the goroutines start each round with them)
						ts := rr.Int63n(4102444800)
						tm := time.Unix(ts, 0).In(loc)
						script = fmt.Sprintf("c = c + 1; if (hour(%d) == %d && minute(%d) == %d && seconds(%d) == %d && day(%d) == %d && month(%d) == %d && year(%d) == %d && weekday(%d) == \"%s\" && now() > 0) { return c; } return 0 - c;",
							ts, tm.Hour(), ts, tm.Minute(), ts, tm.Second(), ts, tm.Day(), ts, int(tm.Month()), ts, tm.Year(), ts, tm.Weekday().String())
					}
					if k%10 == 6 {
						// deep recursion in many evaluators at the same moment: every machine has
						// its own call depth (sixteen of these together are far beyond any limit
						// one machine has)
						script = "c = c + 1; function down(n) { if (n <= 0) { return 0; } return 1 + down(n - 1); } if (down(2500) == 2500 && Word ~= /^w/) { return c; } return 0 - c;"
					}
					if k%5 == 1 {
						// host objects of different evaluators may share sub-structures (one
						// labels / configuration map referenced from many records)
						script = "c = c + 1; if (len(Labels) == 400 && Labels[\"k7\"] == 7 && Labels.k399 == 399 && len(Nested.inner) == 400 && Word ~= /^w/) { return c; } return 0 - c;"
					}
					if k%5 == 2 {
						script = fmt.Sprintf("c = c + 1; n = 0; foreach kk, vv in HostHash { n++; } if (string(keys(HostHash)) == %q && n == 60 && len(string(HostHash)) > 600 && string(sort(keys(HostArr[3]))) == %q && HostArr[0] == 3 && len(HostArr) == 4 && Word ~= /^w/) { return c; } return 0 - c;", wantKeys, wantKeys)
					}
					if k%7 == 3 {
						// an evaluator of its own whose run fails inside the call machinery (wrong
						// argument count from the main program / from inside a function, unknown
						// function, a fault in mid-call): whatever it leaves behind is its own
						bad := []string{
							"function two(a, b) { return a + b; } x = two(1); return x;",
							"function two(a, b) { return a + b; } function wrap(n) { return 1 + two(n); } return wrap(2) + 1;",
							"function two(a, b) { return a + b; } return two(1, 2, 3);",
							"function f(n) { return missing_fn(n) + 1; } return f(1);",
							"function f(n) { return [1, 2, n / ZERO]; } return 1 + f(1)[0];",
						}[(k/7+g)%5]
						pe := evalfilter.New(bad)
						if err := pe.Prepare(); err != nil {
							ownMismatch[g] = append(ownMismatch[g], "prepare of a failing script: "+err.Error())
						} else if out, err := pe.Execute(map[string]interface{}{"ZERO": 0}); err == nil {
							ownMismatch[g] = append(ownMismatch[g], fmt.Sprintf("own evaluator %s gave %v without an error", bad, out.Inspect()))
						}
						ownRunsBy[g]++
					}
					// (every script also goes through a few calls of its own functions)
					script = fmt.Sprintf("function idf(x) { return x; } function add3(a, b, cc) { return idf(a) + idf(b) + cc; } if (add3(%d, 2, idf(3)) != %d) { return 0; } ", k, k+5) +
						// ... and through the built-ins that work on strings and arrays, with this record's own word
						"if (min(Word, \"zzzz\") != Word || max(Word, \"\") != Word || min(\"a\", Word) != \"a\" || max(\"a\" + Word, Word) != Word || join(sort([Word, \"a\" + Word]), \",\") != \"a\" + Word + \",\" + Word || lower(upper(Word)) != Word || trim(\" \" + Word + \" \") != Word || reverse([1, Word])[0] != Word || !(Word in [1, Word]) || len(split(Word + \",x\", \",\")) != 2 || sprintf(\"%s|%d\", Word, 7) != Word + \"|7\" || keys({Word: 1})[0] != Word) { return 0; } " + script
					e := evalfilter.New(script)
					e.SetVariable("c", &object.Integer{Value: 0})
					e.SetVariable("HostHash", hostHash)
					e.SetVariable("HostArr", hostArray)
					if err := e.Prepare(); err != nil {
						ownMismatch[g] = append(ownMismatch[g], "prepare: "+err.Error())
						return
					}
					for j := 1; j <= 3; j++ {
						obj := map[string]interface{}{"Word": word}
						if k%5 == 1 {
							obj["Labels"], obj["Nested"] = sharedLabels, sharedNested
						}
						out, err := e.Execute(obj)
						ownRunsBy[g]++
						if err != nil || out.Inspect() != fmt.Sprint(j) {
							ownMismatch[g] = append(ownMismatch[g], fmt.Sprintf("own evaluator %s run %d gave %v err=%v", script, j, out.Inspect(), err))
						}
					}
				}
			}(g)
		}
		for g := 0; g < G; g++ {
			wg.Add(1)
			go func(g int) {
				defer wg.Done()
				for k := 0; k < runsEach; k++ {
					i := g*runsEach + k
					atomic.StoreInt32(&gOf[i], int32(g))
					call := time.Since(t0).Nanoseconds()
					b, err := shared.Run(objs[i])
					ret := time.Since(t0).Nanoseconds()
					got[i], errs[i] = b, err
					ops[i] = porcupine.Operation{ClientId: g, Input: i, Call: call, Output: atomic.LoadInt64(&outN[i]), Return: ret}
				}
			}(g)
		}
		wg.Wait()
		close(stopOwn)
		wgOwn.Wait()
		if !sequentialReference() {
			break
		}
		res.SharedRuns += N
		for _, n := range ownRunsBy {
			res.OwnRuns += int(n)
		}
		for g := range ownMismatch {
			res.OwnMismatch = append(res.OwnMismatch, ownMismatch[g]...)
		}
		for i := range objs {
			if (errs[i] != nil) != refErr[i] {
				res.Errors = append(res.Errors, fmt.Sprintf("round %d object %+v: concurrent run err=%v, sequential run failed=%v", round, objs[i], errs[i], refErr[i]))
			} else if errs[i] != nil && !strings.Contains(errs[i].Error(), "division by zero") {
				res.Errors = append(res.Errors, fmt.Sprintf("round %d object %+v: concurrent run failed with %v, sequentially it fails with a division by zero", round, objs[i], errs[i]))
			} else if got[i] != ref[i] {
				res.VerdictMismatch = append(res.VerdictMismatch, fmt.Sprintf("round %d object %+v: concurrent verdict %v, sequential verdict %v", round, objs[i], got[i], ref[i]))
			}
		}
		// conservation / exactly-once: every value 1..N noted exactly once, n == N
		seen := map[int64]int{}
		for _, nr := range notes {
			seen[nr.n]++
		}
		for v := int64(1); v <= int64(N); v++ {
			if seen[v] != 1 {
				res.Conservation = append(res.Conservation, fmt.Sprintf("round %d: counter value %d noted %d times (N=%d)", round, v, seen[v], N))
				if len(res.Conservation) > 20 {
					break
				}
			}
		}
		if fin := shared.GetVariable("n").Inspect(); fin != fmt.Sprint(N) {
			res.Conservation = append(res.Conservation, fmt.Sprintf("round %d: persistent counter is %s after %d runs (lost updates)", round, fin, N))
		}
		// linearizability of the counter history
		model := porcupine.Model{
			Init: func() interface{} { return int64(0) },
			Step: func(state, input, output interface{}) (bool, interface{}) {
				o := output.(int64)
				return o == state.(int64)+1, o
			},
			Equal: func(a, b interface{}) bool { return a.(int64) == b.(int64) },
		}
		switch porcupine.CheckOperationsTimeout(model, ops, 60*time.Second) {
		case porcupine.Ok:
			res.PorcupineOK++
		case porcupine.Illegal:
			res.Porcupine = append(res.Porcupine, fmt.Sprintf("round %d: history of %d Run calls is not linearizable against the counter model", round, N))
		default:
			res.PorcupineUnknown++
		}
		// interleavings actually seen
		var ord strings.Builder
		for k, nr := range notes {
			if k > 0 && notes[k-1].g != nr.g {
				res.Switches++
			}
			if k < 64 {
				fmt.Fprintf(&ord, "%x", nr.g%16)
			}
		}
		orders[ord.String()] = true
		if round < 2 {
			res.Samples = append(res.Samples, "first acquisitions by goroutine: "+ord.String())
		}
	}
	// struct types the process has never seen, met by several evaluators at the same moment
	// (anything the library remembers per type is filled in under concurrency)
	{
		const workers = 8
		evals := make([]*evalfilter.Eval, workers)
		for w := range evals {
			evals[w] = evalfilter.New(`return F0 == 1 && F7 == 8 && F39 == 40 && Name == "rec" && len(Tags) == 2;`)
			if err := evals[w].Prepare(); err != nil {
				res.Errors = append(res.Errors, "prepare: "+err.Error())
			}
		}
		var mmu sync.Mutex
		for tn := 0; tn < min(150*rounds, 900); tn++ {
			fields := []reflect.StructField{{Name: "Name", Type: reflect.TypeOf("")}, {Name: "Tags", Type: reflect.TypeOf([]string{})}, {Name: fmt.Sprintf("Only%d_%d", seed, tn), Type: reflect.TypeOf(0)}}
			for f := 0; f < 40; f++ {
				fields = append(fields, reflect.StructField{Name: fmt.Sprintf("F%d", f), Type: reflect.TypeOf(0)})
			}
			// ... and fields of kinds the engine cannot convert, of types never seen before either
			// (an array type of a length of its own, a pointer to it, small integers, raw bytes)
			rawT := reflect.ArrayOf(1+tn+int(seed%7)*1000, reflect.TypeOf(uint8(0)))
			fields = append(fields, reflect.StructField{Name: "Raw", Type: rawT}, reflect.StructField{Name: "RawPtr", Type: reflect.PointerTo(rawT)},
				reflect.StructField{Name: "Small", Type: reflect.TypeOf(uint16(0))}, reflect.StructField{Name: "Blob", Type: reflect.TypeOf([]byte{})}, reflect.StructField{Name: "Pair", Type: reflect.ArrayOf(2, reflect.SliceOf(rawT))})
			typ := reflect.StructOf(fields)
			objs := make([]interface{}, workers)
			for w := range objs {
				v := reflect.New(typ).Elem()
				v.Field(0).SetString("rec")
				v.Field(1).Set(reflect.ValueOf([]string{"a", "b"}))
				for f := 0; f < 40; f++ {
					v.Field(3 + f).SetInt(int64(f + 1))
				}
				if w%2 == 0 {
					objs[w] = v.Interface()
				} else {
					objs[w] = v.Addr().Interface()
				}
			}
			start := make(chan struct{})
			var wgT sync.WaitGroup
			for w := 0; w < workers; w++ {
				wgT.Add(1)
				go func(w int) {
					defer wgT.Done()
					<-start
					ok, err := evals[w].Run(objs[w])
					if err != nil || !ok {
						mmu.Lock()
						res.OwnMismatch = append(res.OwnMismatch, fmt.Sprintf("fresh struct type #%d, evaluator %d: Run gives %v err=%v (expected true)", tn, w, ok, err))
						mmu.Unlock()
					}
				}(w)
			}
			close(start)
			wgT.Wait()
			res.OwnRuns += workers
			if len(res.OwnMismatch) > 20 {
				break
			}
		}
	}
	// script values the host made and nobody has read yet (a Hash, an Array), given to eight
	// evaluators and read by all of them at the same moment - in order (keys, string, foreach),
	// sorted, reversed: whatever a value computes and keeps on first use is computed under
	// concurrency (released through a barrier, as the struct types above)
	{
		const workers = 8
		evals := make([]*evalfilter.Eval, workers)
		for w := range evals {
			evals[w] = evalfilter.New(`n = 0; foreach kk, vv in H { n = n + vv; } return string(keys(H)) == W && n == Sum && len(string(H)) > 100 && string(sort(A)) == SA && len(reverse(A)) == len(A) && ("k3" in keys(H));`)
			if err := evals[w].Prepare(); err != nil {
				res.Errors = append(res.Errors, "prepare: "+err.Error())
			}
		}
		var mmu sync.Mutex
		for tn := 0; tn < min(120*rounds, 720); tn++ {
			h := &object.Hash{Pairs: map[object.HashKey]object.HashPair{}}
			var ks []string
			sum := 0
			for q := 0; q < 30; q++ {
				key := &object.String{Value: fmt.Sprintf("k%d", q)}
				h.Pairs[key.HashKey()] = object.HashPair{Key: key, Value: &object.Integer{Value: int64(q + tn)}}
				ks = append(ks, key.Value)
				sum += q + tn
			}
			sort.Strings(ks)
			arr := &object.Array{}
			var as []string
			for q := 0; q < 20; q++ {
				arr.Elements = append(arr.Elements, &object.String{Value: fmt.Sprintf("e%02d", (q*7+tn)%20)})
				as = append(as, fmt.Sprintf("e%02d", (q*7+tn)%20))
			}
			sort.Strings(as)
			for w := range evals {
				evals[w].SetVariable("H", h)
				evals[w].SetVariable("A", arr)
				evals[w].SetVariable("W", &object.String{Value: "[" + strings.Join(ks, ", ") + "]"})
				evals[w].SetVariable("SA", &object.String{Value: "[" + strings.Join(as, ", ") + "]"})
				evals[w].SetVariable("Sum", &object.Integer{Value: int64(sum)})
			}
			start := make(chan struct{})
			var wgT sync.WaitGroup
			for w := 0; w < workers; w++ {
				wgT.Add(1)
				go func(w int) {
					defer wgT.Done()
					<-start
					ok, err := evals[w].Run(nil)
					if err != nil || !ok {
						mmu.Lock()
						res.OwnMismatch = append(res.OwnMismatch, fmt.Sprintf("fresh host values #%d, evaluator %d: Run gives %v err=%v (expected true)", tn, w, ok, err))
						mmu.Unlock()
					}
				}(w)
			}
			close(start)
			wgT.Wait()
			res.OwnRuns += workers
			if len(res.OwnMismatch) > 20 {
				break
			}
		}
	}
	// deep recursion in eight evaluators at the same moment: 8 x 4000 nested calls is far
	// beyond the limit one machine has, and every machine has its own
	{
		const workers = 8
		evals := make([]*evalfilter.Eval, workers)
		for w := range evals {
			evals[w] = evalfilter.New(`function down(n) { if (n <= 0) { return 0; } return 1 + down(n - 1); } return down(Depth) == Depth;`)
			if err := evals[w].Prepare(); err != nil {
				res.Errors = append(res.Errors, "prepare: "+err.Error())
			}
		}
		var mmu sync.Mutex
		for rep := 0; rep < 10*rounds; rep++ {
			start := make(chan struct{})
			var wgT sync.WaitGroup
			for w := 0; w < workers; w++ {
				wgT.Add(1)
				go func(w int) {
					defer wgT.Done()
					<-start
					ok, err := evals[w].Run(map[string]interface{}{"Depth": 4000 + w})
					if err != nil || !ok {
						mmu.Lock()
						res.OwnMismatch = append(res.OwnMismatch, fmt.Sprintf("eight evaluators recursing 4000 deep at once, evaluator %d: Run gives %v err=%v (expected true)", w, ok, err))
						mmu.Unlock()
					}
				}(w)
			}
			close(start)
			wgT.Wait()
			res.OwnRuns += workers
			if len(res.OwnMismatch) > 20 {
				break
			}
		}
	}
	res.DistinctOrders = len(orders)
	res.Yields = yields
	b, _ := json.Marshal(res)
	real.Write(b)
	real.Write([]byte("\n"))
}

var raceFrameRe = regexp.MustCompile(`(github\.com/skx/evalfilter/v2[^\s(]*)`)

func c11(c *ev.Ctx) {
	c.SetRule("Go race detector (-race build, GORACE halt_on_error=0 with log files) + history checkers over a child process: W1 16 goroutines x 200 Run calls on one shared evaluator (fields, variables, ~=, switch on regexps, sort/split/replace, user function) with seeded Gosched/sleep injected through the step hook; W2/W3 16 more goroutines concurrently preparing and running their own evaluators over distinct regexps. Oracles: no race report with a library frame and no fatal runtime error; every concurrent verdict equals the sequential verdict of a fresh evaluator; the persistent counter noted by a thread-safe host function takes every value 1..N exactly once and ends at N; the recorded {call, return, n} history is linearizable against a counter model (porcupine, 60 s timeout => inconclusive). Distinct = distinct round (seeded objects, GOMAXPROCS); non-trivial = the note log shows goroutine switches.")
	rounds := c.Pick(5, 100)
	G, runsEach := 16, c.Pick(120, 200)
	work := filepath.Join(ev.Root, "work", fmt.Sprintf("c11-%d", os.Getpid()))
	os.MkdirAll(work, 0o755)
	defer os.RemoveAll(work)
	self, _ := os.Executable()
	logBase := filepath.Join(work, "race.log")
	// several child processes (the race detector's report set varies from run to run)
	procs := c.Pick(2, 5)
	per := (rounds + procs - 1) / procs
	var total c11Result
	raceReports := map[string]int{}
	nRace := 0
	for p := 0; p < procs; p++ {
		cmd := exec.Command("timeout", "-s", "QUIT", fmt.Sprint(c.Pick(299, 3000)), self, "worker", "c11", fmt.Sprint(c.Seed*100+int64(p)), fmt.Sprint(per), fmt.Sprint(G), fmt.Sprint(runsEach))
		cmd.Env = append(os.Environ(), fmt.Sprintf("GORACE=halt_on_error=0 log_path=%s.%d", logBase, p))
		errf, _ := os.Create(filepath.Join(work, fmt.Sprintf("stderr.%d", p)))
		cmd.Stderr = errf
		out, err := cmd.Output()
		errf.Close()
		var res c11Result
		if jerr := json.Unmarshal(out, &res); jerr != nil {
			eb, _ := os.ReadFile(filepath.Join(work, fmt.Sprintf("stderr.%d", p)))
			head := clip(string(eb), 1500)
			full := string(eb)
			blocked := strings.Count(full, "sync.(*Mutex).Lock")
			running := strings.Count(full, "vm.(*VM).Run(")
			// the wider picture: of the goroutines that are inside the library, how many are
			// parked on a lock (Mutex or RWMutex) and how many can still make progress?
			libWaiting, libActive := 0, 0
			for _, g := range strings.Split(full, "\n\n") {
				if !strings.HasPrefix(g, "goroutine ") || !strings.Contains(g, "github.com/skx/evalfilter/v2") {
					continue
				}
				hdr := strings.SplitN(g, "\n", 2)[0]
				if strings.Contains(hdr, "sync.Mutex.Lock") || strings.Contains(hdr, "sync.RWMutex") || strings.Contains(hdr, "semacquire") {
					libWaiting++
				} else {
					libActive++
				}
			}
			if strings.Contains(full, "SIGQUIT") && libWaiting >= G && libActive == 0 {
				c.Violation(fmt.Sprintf("proc/%d", p), "deadlock under concurrent use", map[string]interface{}{"summary": fmt.Sprintf("the workload stopped making progress: all %d goroutines that are inside the library are parked on a lock and none can release it", libWaiting), "stderr": clip(full, 6000)})
			} else if strings.Contains(full, "SIGQUIT") && blocked >= G-2 && running == 0 {
				// state-based verdict, not a time-based one: every worker goroutine waits for
				// the evaluator's lock and nobody is inside the machine
				c.Violation(fmt.Sprintf("proc/%d", p), "deadlock under concurrent use", map[string]interface{}{"summary": fmt.Sprintf("the workload stopped making progress: %d goroutines are blocked in Mutex.Lock and none is executing the machine (the evaluator's lock was never released)", blocked), "stderr": clip(full, 6000)})
			} else if strings.Contains(head, "fatal error") || strings.Contains(head, "panic:") {
				c.Violation(fmt.Sprintf("proc/%d", p), "process died under concurrent use", map[string]interface{}{"summary": "the workload process died: " + head, "stderr": clip(string(eb), 6000)})
			} else {
				c.Inconclusive(fmt.Sprintf("workload process %d gave no result (err=%v): %s", p, err, clip(head, 300)))
			}
			continue
		}
		total.SharedRuns += res.SharedRuns
		total.OwnRuns += res.OwnRuns
		total.PorcupineOK += res.PorcupineOK
		total.PorcupineUnknown += res.PorcupineUnknown
		total.Switches += res.Switches
		total.DistinctOrders += res.DistinctOrders
		total.Yields += res.Yields
		total.Rounds += res.Rounds
		total.Samples = append(total.Samples, res.Samples...)
		for _, m := range res.VerdictMismatch {
			c.Violation(fmt.Sprintf("proc/%d", p), "concurrent verdict differs from sequential", map[string]interface{}{"summary": m})
		}
		for _, m := range res.Conservation {
			c.Violation(fmt.Sprintf("proc/%d", p), "lost or duplicated update", map[string]interface{}{"summary": m})
		}
		for _, m := range res.Porcupine {
			c.Violation(fmt.Sprintf("proc/%d", p), "history not linearizable", map[string]interface{}{"summary": m})
		}
		for _, m := range res.OwnMismatch {
			c.Violation(fmt.Sprintf("proc/%d", p), "private evaluator disturbed", map[string]interface{}{"summary": m})
		}
		for _, m := range res.Errors {
			c.Violation(fmt.Sprintf("proc/%d", p), "unexpected error under concurrency", map[string]interface{}{"summary": m})
		}
		// race reports of this process
		logs, _ := filepath.Glob(fmt.Sprintf("%s.%d.*", logBase, p))
		for _, lf := range logs {
			data, _ := os.ReadFile(lf)
			for _, block := range strings.Split(string(data), "==================") {
				if !strings.Contains(block, "WARNING: DATA RACE") {
					continue
				}
				frames := raceFrameRe.FindAllString(block, -1)
				if len(frames) == 0 {
					c.Count("race_reports_without_library_frame", 1)
					continue
				}
				nRace++
				key := frames[0]
				if len(frames) > 1 {
					key += " / " + frames[len(frames)/2]
				}
				if raceReports[key] == 0 {
					c.Violation(fmt.Sprintf("proc/%d", p), "data race "+key, map[string]interface{}{"summary": "race detector: " + clip(block, 1800), "report": clip(block, 8000)})
				}
				raceReports[key]++
			}
		}
		c.Case(fmt.Sprintf("proc %d seed %d", p, c.Seed), res.Switches > 0)
		for r := 0; r < res.Rounds; r++ {
			c.Case(fmt.Sprintf("proc %d round %d", p, r), res.Switches > 0)
		}
	}
	c.Evals(total.SharedRuns + total.OwnRuns)
	keys := []string{}
	for k := range raceReports {
		keys = append(keys, k)
	}
	sort.Strings(keys)
	c.Extra("race_reports", nRace)
	c.Extra("race_report_classes", keys)
	c.Extra("shared_evaluator_runs", total.SharedRuns)
	c.Extra("private_evaluator_runs", total.OwnRuns)
	c.Extra("goroutine_switches_in_lock_acquisition_log", total.Switches)
	c.Extra("distinct_acquisition_order_prefixes", total.DistinctOrders)
	c.Extra("yields_injected", total.Yields)
	c.Extra("porcupine_histories_ok", total.PorcupineOK)
	c.Extra("porcupine_histories_unknown", total.PorcupineUnknown)
	for _, s := range total.Samples {
		c.Sample(s)
	}
	if total.PorcupineUnknown > 0 {
		c.Inconclusive(fmt.Sprintf("%d histories: linearizability checker timed out", total.PorcupineUnknown))
	}
	if total.SharedRuns == 0 || total.Switches == 0 {
		c.Inconclusive("no concurrent interleaving was observed (no goroutine switches in the acquisition log)")
	}
}
