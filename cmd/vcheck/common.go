package main

import (
	"fmt"
	"strings"

	"verif/internal/eng"
	"verif/internal/ev"
	"verif/internal/gast"
	"verif/internal/model"
)

// verdictOf compares the model's outcome with the engine's observation.
// skip is true when the case is outside what is specified (don't-care) or the
// run was cut by the budget / memory guard.
func verdictOf(m model.Outcome, o eng.Obs) (agree bool, skip string) {
	if m.DontCare != "" {
		return true, "dontcare: " + m.DontCare
	}
	if o.Budget {
		return true, "budget"
	}
	if o.Panicked || o.Nil {
		return false, ""
	}
	if m.Err {
		return o.Err != nil, ""
	}
	if o.Err != nil {
		return false, ""
	}
	return m.Val.Describe() == o.Desc(), ""
}

func dcClass(s string) string {
	s = strings.TrimPrefix(s, "dontcare: ")
	if i := strings.Index(s, ":"); i > 0 {
		s = s[:i]
	}
	return "skipped/" + s
}

func errText(err error) string {
	if err == nil {
		return ""
	}
	return err.Error()
}

func describeFields(f map[string]model.Value) map[string]string {
	out := map[string]string{}
	for k, v := range f {
		out[k] = v.Describe()
	}
	return out
}

func traceEq(a, b []string) bool {
	if len(a) != len(b) {
		return false
	}
	for i := range a {
		if a[i] != b[i] {
			return false
		}
	}
	return true
}

// exprScript is `return <expr>;`.
func exprScript(e gast.Expr, mode gast.ParenMode) string {
	p := &gast.Printer{Mode: mode}
	return "return " + gast.Join(p.ExprTokens(e)) + ";"
}

// runExprCase evaluates `return e;` in the engine against vars / fields and in
// the model, and reports a violation on disagreement.
func runExprCase(c *ev.Ctx, id, class string, e gast.Expr, vars, fields map[string]model.Value, noOpt bool) {
	script := exprScript(e, gast.Minimal)
	in := model.NewInterp(gast.Program{})
	for k, v := range vars {
		in.Globals[k] = v
	}
	mo := in.EvalExpr(e, fields)
	obj, _ := eng.FieldsToMap(fields)
	evr, err := eng.New(script, eng.Options{NoOptimize: noOpt, Vars: vars})
	if err != nil {
		c.Violation(id, class+"/prepare", map[string]interface{}{
			"summary": fmt.Sprintf("Prepare rejected a valid expression: %s: %v", script, err),
			"script":  script,
		})
		return
	}
	o := evr.Exec(obj)
	ok, skip := verdictOf(mo, o)
	if skip != "" {
		c.Count(dcClass(skip), 1)
		return
	}
	if !ok {
		c.Violation(id, class, map[string]interface{}{
			"summary":     fmt.Sprintf("%s  (vars=%v fields=%v noopt=%v): model %s, engine %s %s", script, describeFields(vars), describeFields(fields), noOpt, mo, o.Desc(), errText(o.Err)),
			"script":      script,
			"vars":        describeFields(vars),
			"fields":      describeFields(fields),
			"no_optimize": noOpt,
			"expected":    mo.String(),
			"observed":    o.Desc(),
			"engine_err":  errText(o.Err),
		})
	}
}
