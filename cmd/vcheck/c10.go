package main

import (
	"bufio"
	"context"
	"encoding/json"
	"fmt"
	"math/rand"
	"os"
	"os/exec"
	"path/filepath"
	"regexp"
	"sort"
	"strings"
	"syscall"
	"time"

	evalfilter "github.com/skx/evalfilter/v2"
	"github.com/skx/evalfilter/v2/code"
	"github.com/skx/evalfilter/v2/object"
	"github.com/skx/evalfilter/v2/vm"

	"verif/internal/eng"
	"verif/internal/ev"
	"verif/internal/gast"
	"verif/internal/gen"
	"verif/internal/model"
)

func init() {
	register("C10", "exploration", c10)
	workers["c10"] = c10Worker
}

const markerRoot = "/__verif_marker__/"

func marker(s string) {
	var st syscall.Stat_t
	syscall.Stat(markerRoot+s, &st)
}

type c10Report struct {
	Functions    []string         `json:"functions"`
	Calls        int              `json:"builtin_calls"`
	Scripts      int              `json:"scripts"`
	OpHist       map[string]int64 `json:"opcode_histogram"`
	MissingOps   []string         `json:"opcodes_never_dispatched"`
	ZonesUsed    []string         `json:"zones"`
	ErrorsSample []string         `json:"errors_sample"`
}

// c10Tempting is a host record whose methods create, remove and sync files, start a
// process and open a connection. No script may bring them to run.
type c10Tempting struct {
	Count int
	Path  string
}

func (t c10Tempting) Archive() error { return os.WriteFile(t.Path+".archived", []byte("x"), 0o644) }
func (t c10Tempting) Remove() error  { return os.Remove(t.Path) }
func (t c10Tempting) Spawn() error   { return exec.Command("/bin/true").Run() }
func (t *c10Tempting) Dial() error {
	// (raw system calls: the net package would bring the C resolver into the worker)
	fd, err := syscall.Socket(syscall.AF_INET, syscall.SOCK_STREAM, 0)
	if err != nil {
		return err
	}
	err = syscall.Connect(fd, &syscall.SockaddrInet4{Port: 9, Addr: [4]byte{127, 0, 0, 1}})
	syscall.Close(fd)
	return err
}
func (t *c10Tempting) Sync() string {
	f, err := os.OpenFile(t.Path+".synced", os.O_CREATE|os.O_WRONLY, 0o644)
	if err != nil {
		return err.Error()
	}
	f.Sync()
	f.Close()
	return "synced"
}

// hostile argument matrix: path-, URL- and command-like strings and other types
func c10Args(canary string) []object.Object {
	strs := []string{"VERIF_A", "VERIF_B", "VERIF_C", "VERIF_D", "VERIF_B_FILE", "VERIF_A_FILE", "/etc/passwd", canary, canary + ".new", "file:///etc/passwd", "file://" + canary, "127.0.0.1:1", "http://127.0.0.1:1/x", "|id", "; touch " + canary + ".cmd", "$(id)", "`id`",
		"../../etc/passwd", "../../../etc/hostname", "../../../../etc/passwd", "../../.." + canary, "Europe/../../../.." + canary, "UTC", "Europe/Helsinki", "/dev/null", "/proc/self/environ", "HOME", "PATH", "TZ", "%s%s%s%n", "%v", "", "a", "(", "[a-", "*", "\\\\host\\share", "-rf /", "> " + canary + ".redir", "/tmp"}
	var out []object.Object
	for _, s := range strs {
		out = append(out, &object.String{Value: s})
	}
	out = append(out, &object.Integer{Value: 0}, &object.Integer{Value: 1700000000}, &object.Integer{Value: -1}, &object.Float{Value: 1.5}, &object.Boolean{Value: true}, &object.Null{},
		&object.Array{Elements: []object.Object{&object.String{Value: "/etc/passwd"}, &object.String{Value: canary}}},
		eng.ToObject(model.Hash(model.HashEnt{Key: model.Str(canary), Val: model.Str("/etc/shadow")})), &object.Regexp{Value: "/etc/.*"}, &object.Regexp{Value: canary})
	return out
}

// c10Worker: vcheck worker c10 <seed> <nscripts> <canary>
func c10Worker(args []string) {
	var seed int64
	var nscripts int
	fmt.Sscan(args[0], &seed)
	fmt.Sscan(args[1], &nscripts)
	canary := args[2]
	// keep the report channel, then point file descriptor 1 itself at /dev/null so
	// that what the engine prints really goes to "standard output" at the syscall level
	saved, _ := syscall.Dup(1)
	real := os.NewFile(uintptr(saved), "report")
	dn, _ := os.OpenFile(os.DevNull, os.O_WRONLY, 0)
	syscall.Dup2(int(dn.Fd()), 1)
	dn.Close()
	rep := c10Report{OpHist: map[string]int64{}}
	var hist [64]int64
	r := rand.New(rand.NewSource(seed))
	zones := []string{"UTC", "Europe/Helsinki", "America/New_York", "Asia/Kolkata", "Nowhere/Invalid", ""}
	rep.ZonesUsed = zones

	// the very first evaluator of the process gets a host function that writes a file;
	// evaluators created later with only the built-ins must not be able to reach it
	hostWrote := canary + ".hostwrite"
	first := evalfilter.New("return verif_hostwrite(1);")
	first.AddFunction("verif_hostwrite", func(a []object.Object) object.Object {
		os.WriteFile(hostWrote, []byte("x"), 0o644)
		return &object.Boolean{Value: true}
	})
	first.Prepare()
	probe, err := eng.New("return 1;", eng.Options{})
	if err != nil {
		fmt.Fprintln(os.Stderr, "prepare failed:", err)
		os.Exit(2)
	}
	// the live registry: a built-in added later is exercised without being named here
	var fns []string
	for _, f := range probe.E.VerifEnvironment().VerifFunctionNames() {
		if f != "t" && f != "v" {
			fns = append(fns, f)
		}
	}
	rep.Functions = fns
	argv := c10Args(canary)
	corpus := loadCorpus() // read by the harness, before the judged window opens
	// a hostile environment: variables (and "sibling" variables of unset names) whose
	// values are paths, URLs and commands - reading the environment is allowed,
	// acting on what it says is not
	os.Setenv("VERIF_A", canary)
	os.Setenv("VERIF_A_FILE", canary)
	os.Setenv("VERIF_B_FILE", canary)
	os.Setenv("VERIF_B_PATH", canary)
	os.Setenv("VERIF_B_DIR", filepath.Dir(canary))
	os.Setenv("VERIF_C_URL", "http://127.0.0.1:1/x")
	os.Setenv("VERIF_C", "file://"+canary)
	os.Setenv("VERIF_D_CMD", "touch "+canary+".cmd")
	os.Setenv("VERIF_D", "|touch "+canary+".cmd2")

	// one representative of every type for the leading argument, so that every hostile
	// string also meets every built-in as second / third argument of a call whose first
	// argument has the type that built-in wants
	firsts := []object.Object{&object.Integer{Value: 1700000000}, &object.String{Value: "abc"}, &object.Float{Value: 1.5}, &object.Boolean{Value: true}, &object.Null{},
		&object.Array{Elements: []object.Object{&object.String{Value: "b"}, &object.String{Value: "a"}}}, eng.ToObject(model.Hash(model.HashEnt{Key: model.Str("k"), Val: model.Int(1)})), &object.Regexp{Value: "a"}}
	var hostileStrs []object.Object
	for _, a := range argv {
		if _, ok := a.(*object.String); ok {
			hostileStrs = append(hostileStrs, a)
		}
	}
	marker("BEGIN")
	for _, fn := range fns {
		for k := 0; k <= 4; k++ {
			reps := 1
			if k > 0 {
				reps = len(argv)
			}
			if k >= 2 {
				reps = len(argv) + len(firsts)*len(hostileStrs)
			}
			names := make([]string, k)
			for j := range names {
				names[j] = fmt.Sprintf("a%d", j)
			}
			script := "return " + fn + "(" + strings.Join(names, ", ") + ");"
			for q := 0; q < reps; q++ {
				vars := map[string]object.Object{}
				for j := range names {
					if q < len(argv) && j == 0 {
						vars[names[j]] = argv[(q)%len(argv)]
					} else {
						vars[names[j]] = argv[r.Intn(len(argv))]
					}
				}
				if q >= len(argv) {
					// systematic part: (type of the first argument) x (hostile string second)
					p := q - len(argv)
					vars[names[0]] = firsts[p/len(hostileStrs)]
					vars[names[1]] = hostileStrs[p%len(hostileStrs)]
					for j := 2; j < k; j++ {
						vars[names[j]] = hostileStrs[r.Intn(len(hostileStrs))]
					}
				}
				os.Setenv("TZ", zones[r.Intn(len(zones))])
				evr, err := eng.New(script, eng.Options{ObjVars: vars, Budget: 100000})
				if err != nil {
					continue
				}
				evr.OpHist = &hist
				marker("CALL/" + fn + "/" + fmt.Sprint(k))
				envBefore := strings.Join(os.Environ(), "\x00")
				o := evr.Exec(map[string]interface{}{"Path": canary})
				if envAfter := strings.Join(os.Environ(), "\x00"); envAfter != envBefore && len(rep.ErrorsSample) < 20 {
					rep.ErrorsSample = append(rep.ErrorsSample, "LEAK: the environment of the process changed during "+script+": "+envDiff(envBefore, envAfter))
				}
				rep.Calls++
				if o.Err != nil && len(rep.ErrorsSample) < 5 {
					rep.ErrorsSample = append(rep.ErrorsSample, fn+": "+o.Err.Error())
				}
			}
		}
	}
	// a plain evaluator (New + Prepare, nothing added): its registry is the built-in set
	plain := evalfilter.New("x = verif_hostwrite(\"" + canary + "\"); return t(1);")
	plainErr := plain.Prepare()
	if plainErr == nil {
		marker("CALL/plain-evaluator/0")
		_, runErr := plain.Execute(map[string]interface{}{})
		if runErr == nil {
			rep.ErrorsSample = append(rep.ErrorsSample, "LEAK: a plain evaluator could call a host function given to another evaluator")
		}
		for _, f := range plain.VerifEnvironment().VerifFunctionNames() {
			if f == "verif_hostwrite" || f == "t" || f == "v" {
				rep.ErrorsSample = append(rep.ErrorsSample, "LEAK: the registry of a plain evaluator contains the host function "+f+" of another evaluator")
			}
		}
	}
	marker("SCRIPTS")
	// generated scripts of every kind, plus random built-in calls with hostile strings
	for i := 0; i < nscripts; i++ {
		rr := rand.New(rand.NewSource(seed*7919 + int64(i)))
		env := gen.NewEnv(rr)
		var script string
		noOpt := rr.Intn(2) == 0
		switch rr.Intn(5) {
		case 0:
			script = corpus[rr.Intn(len(corpus))]
		case 1:
			fn := fns[rr.Intn(len(fns))]
			g := &gen.ExprGen{R: rr, Env: env, Calls: true, IllTyped: 10}
			var as []string
			for j := 0; j < rr.Intn(4); j++ {
				if rr.Intn(2) == 0 {
					as = append(as, gast.EncodeString([]string{"/etc/passwd", canary, "|id", "file://" + canary}[rr.Intn(4)], '"', nil))
				} else {
					as = append(as, gast.ExprText(g.Any(1, false)))
				}
			}
			script = "x = " + fn + "(" + strings.Join(as, ", ") + "); return [x, len(string(x))];"
		default:
			pg := &gen.ProgGen{R: rr, E: &gen.ExprGen{R: rr, Env: env, Calls: true, IllTyped: 5}, CondFields: 2, MaxDepth: 3, MaxStmts: 4, Funcs: rr.Intn(3), Mutators: true, Faults: rr.Intn(3) == 0, ConstHeavy: rr.Intn(3) == 0}
			script = gast.Text(pg.Program())
		}
		evr, err := eng.New(script, eng.Options{NoOptimize: noOpt, Vars: env.Vars, Budget: 200000, TraceCap: 1 << 20})
		if err != nil {
			continue
		}
		evr.OpHist = &hist
		fields := condObject(env.Fields, 2, rr.Intn(4), rr)
		fields["ZERO"] = model.Int(0)
		fields["Path"] = model.Str(canary)
		obj, _ := eng.FieldsToMap(fields)
		evr.Exec(obj)
		evr.RunBool(obj)
		if i%8 == 0 {
			evr.E.Dump()
		}
		rep.Scripts++
	}
	// objects with fields the engine cannot convert (its diagnostics go to standard output,
	// which is allowed - and nowhere else)
	marker("CALL/unconvertible-objects/0")
	oscripts := c08ObjectScripts([]string{"F0", "F1", "A", "M"})
	hostile := gen.HostileValues()
	for i := 0; i < 4*len(hostile); i++ {
		obj := hostile[i%len(hostile)]
		if evr, err := eng.New(oscripts[(i*7)%len(oscripts)], eng.Options{Budget: 100000, NoOptimize: i%2 == 0, TraceCap: 1 << 20}); err == nil {
			evr.Exec(obj)
			evr.RunBool(obj)
			rep.Calls++
		}
	}
	for i := 0; i < 300; i++ {
		rr := rand.New(rand.NewSource(seed*104729 + int64(i)))
		obj := gen.RandStruct(rr, 1+rr.Intn(8), 45, 20).Obj
		if evr, err := eng.New(oscripts[rr.Intn(len(oscripts))], eng.Options{Budget: 100000, TraceCap: 1 << 20}); err == nil {
			evr.Exec(obj)
			rep.Calls++
		}
	}
	// unusually large (but valid) values: million-element ranges, megabyte strings, deep
	// recursion - run without the harness's allocation guard
	marker("CALL/large-values/0")
	for i, script := range []string{`return len(1..1200000);`, `function f(n) { return len(0..n); } return f(1300000);`, `n = 0; foreach e in -600000..600000 { n = e; } return n;`,
		`s = "0123456789abcdef"; i = 0; while (i < 17) { s = s + s; i++; } return [len(s), len(upper(s)), len(replace(s, /f/, "")), s ~= /ff$/];`,
		`function down(n) { if (n <= 0) { return 0; } return 1 + down(n - 1); } return down(9999);`, `a = 1..300000; h = {}; return [len(reverse(a)), len(string(a)), 299999 in a, max(1, 2)];`} {
		if evr, err := eng.New(script, eng.Options{NoHook: true, NoOptimize: i%2 == 0}); err == nil {
			evr.Exec(map[string]interface{}{"Path": canary})
			rep.Calls++
		}
	}
	// records holding instants in named time zones, with TZ unset, empty and set: the
	// environment of the process is read, never written (whatever zone the data are in)
	marker("CALL/instants-in-named-zones/0")
	{
		type stamped struct {
			When  time.Time
			Label string
			Whens []time.Time
		}
		saved, had := os.LookupEnv("TZ")
		for zi, zone := range []string{"Europe/Helsinki", "America/New_York", "Asia/Kolkata", "Australia/Lord_Howe", "UTC"} {
			loc, err := time.LoadLocation(zone)
			if err != nil {
				continue
			}
			at := time.Date(2021, 3, 4, 5, 6, 7, 0, loc)
			for ti, tz := range []string{"", "unset", "Pacific/Auckland"} {
				if tz == "unset" {
					os.Unsetenv("TZ")
				} else {
					os.Setenv("TZ", tz)
				}
				for si, script := range []string{`return [When, hour(When), weekday(When), Label];`, `n = 0; foreach w in Whens { n = n + minute(w); } return [n, year(When), month(When), day(When), seconds(When)];`, `return Label;`} {
					for oi, obj := range []interface{}{stamped{When: at, Label: "l", Whens: []time.Time{at, at.Add(time.Hour)}}, &stamped{When: at, Label: "l"}, map[string]interface{}{"When": at, "Label": "l", "Whens": []interface{}{at}}} {
						evr, err := eng.New(script, eng.Options{Budget: 100000, NoOptimize: (zi+ti+si+oi)%2 == 0})
						if err != nil {
							continue
						}
						envBefore := strings.Join(os.Environ(), "\x00")
						evr.Exec(obj)
						evr.RunBool(obj)
						if envAfter := strings.Join(os.Environ(), "\x00"); envAfter != envBefore && len(rep.ErrorsSample) < 20 {
							rep.ErrorsSample = append(rep.ErrorsSample, "LEAK: the environment of the process changed during "+script+" over a record with an instant in "+zone+": "+envDiff(envBefore, envAfter))
							if tz == "unset" {
								os.Unsetenv("TZ")
							} else {
								os.Setenv("TZ", tz)
							}
						}
						rep.Calls++
					}
				}
			}
		}
		if had {
			os.Setenv("TZ", saved)
		} else {
			os.Unsetenv("TZ")
		}
	}
	// objects whose type has methods that reach the outside world: a script can name them
	// (they are no fields: the names read as null), nothing the host did not register runs
	marker("CALL/objects-with-methods/0")
	for i, script := range []string{
		`return [Archive, Remove, Spawn, Dial, Sync, Count];`, `if (Count > 0 && Archive) { return 1; } return 0;`, `x = Spawn; y = Dial; return [x, y];`,
		`foreach m in [Archive, Remove, Spawn] { z = m; } return z;`, `function f(a) { return a; } return [f(Archive), f($Remove), Path.Remove, len(Sync)];`, `switch (Spawn) { case Dial { return 1; } default { return Remove; } }`,
	} {
		for _, obj := range []interface{}{c10Tempting{Count: 2, Path: canary}, &c10Tempting{Count: 2, Path: canary}} {
			if evr, err := eng.New(script, eng.Options{Budget: 100000, NoOptimize: i%2 == 0}); err == nil {
				evr.Exec(obj)
				evr.RunBool(obj)
				rep.Calls++
			}
		}
	}
	// thousands of different patterns, strings and keys in one process (whatever the engine
	// caches or interns as it goes along, it does so quietly): patterns built at run time for
	// match / replace / split / ~= / regexp case arms, in one script and spread over many
	marker("CALL/many-distinct-patterns/0")
	for i, script := range []string{
		`n = 0; foreach i in 1..2600 { if (match("id-" + string(i), "^id-" + string(i) + "$")) { n++; } } return n;`,
		`n = 0; foreach i in 1..1500 { s = replace("a" + string(i) + "b", "[0-9]+x{0," + string(i % 900) + "}b" + string(i) + "?", "-"); if (("k" + string(i)) ~= ("^k" + string(i))) { n++; } } return n;`,
		`n = 0; foreach i in 1..1200 { p = split("a" + string(i) + "b", string(i)); switch ("v" + string(i)) { case "w" { n = 0; } default { n++; } } h = {}; } return n;`,
	} {
		if evr, err := eng.New(script, eng.Options{NoHook: true, NoOptimize: i%2 == 0}); err == nil {
			evr.Exec(map[string]interface{}{"Path": canary})
			rep.Calls++
		}
	}
	for i := 0; i < 1500; i++ {
		script := fmt.Sprintf("a = Path ~= /^q%dz[a-f]*$/i; b = match(\"n%d\", \"^n%d$\"); switch (\"s%d\") { case /^s%d$/ { return b; } } return a;", i, i, i, i, i)
		if evr, err := eng.New(script, eng.Options{Budget: 100000, NoOptimize: i%2 == 0}); err == nil {
			evr.Exec(map[string]interface{}{"Path": canary})
			rep.Calls++
		}
	}
	// scripts stopped by their context (expired before the run, cancelled in mid-run, inside
	// a user function): an error comes back, and that is all that happens
	marker("CALL/stopped-by-context/0")
	for i, script := range []string{`while (true) { x = 1; }`, `function spin() { while (true) { y = 2; } } spin(); return 1;`, `foreach i in 1..100000 { z = i; } return z;`, `print("a"); while (true) { printf("%d", 1); }`} {
		for variant := 0; variant < 3; variant++ {
			ctx, cancel := context.WithCancel(context.Background())
			switch variant {
			case 0:
				cancel() // done before the run starts
			case 1:
				ctx, cancel = context.WithTimeout(context.Background(), time.Millisecond)
			}
			if evr, err := eng.New(script, eng.Options{Ctx: ctx, Budget: 2000000, NoOptimize: (i+variant)%2 == 0}); err == nil {
				if variant == 2 {
					evr.OnStep = func(m *vm.VM, ip int, op code.Opcode) error {
						if evr.Steps() == 300 {
							cancel()
						}
						return nil
					}
				}
				evr.Exec(map[string]interface{}{"Path": canary})
				evr.RunBool(map[string]interface{}{"Path": canary})
				rep.Calls++
			}
			cancel()
		}
	}
	// standard output that cannot be written to (a full disk): output is lost, and nothing
	// else happens - in particular nothing is written anywhere else. The descriptor switch
	// is the harness's doing and sits between PAUSE / RESUME markers.
	marker("PAUSE")
	if full, err := os.OpenFile("/dev/full", os.O_WRONLY, 0); err == nil {
		devnull, _ := syscall.Dup(1)
		syscall.Dup2(int(full.Fd()), 1)
		full.Close()
		marker("RESUME")
		marker("CALL/standard-output-on-a-full-disk/0")
		for i, script := range []string{`print("a", 1, [2]); printf("%s %d\n", "x", 3); return 1;`, `foreach i in 1..3 { print(i, "\n"); } printf("%v", {"a": 1}); return true;`, `DEBUG = true; x = 1 + 2; return x;`, `print(); printf("no newline"); return print("z");`} {
			if evr, err := eng.New(script, eng.Options{Budget: 100000, NoOptimize: i%2 == 0}); err == nil {
				evr.Exec(map[string]interface{}{"Path": canary})
				evr.E.Prepare()
				evr.RunBool(map[string]interface{}{"Path": canary})
				rep.Calls++
			}
		}
		marker("PAUSE")
		syscall.Dup2(devnull, 1)
		syscall.Close(devnull)
	}
	marker("RESUME")
	// variables with special-looking names holding paths, URLs and commands: set by the
	// host before Prepare, and by the script itself followed by another Prepare (which
	// is when the engine looks at DEBUG / OPTIMIZE) and further runs
	special := []string{"DEBUG", "OPTIMIZE", "TRACE", "LOG", "LOGFILE", "OUTPUT", "VERBOSE", "DUMP", "PROFILE", "TZ", "HOME", "PATH", "TMPDIR", "ZONEINFO", "INCLUDE"}
	hostileVals := []object.Object{&object.String{Value: canary}, &object.String{Value: canary + ".new"}, &object.String{Value: "file://" + canary}, &object.String{Value: "|touch " + canary + ".cmd3"},
		&object.String{Value: "127.0.0.1:1"}, &object.Boolean{Value: true}, &object.Integer{Value: 2}, &object.Array{Elements: []object.Object{&object.String{Value: canary + ".arr"}}}}
	for ni, name := range special {
		for vi, val := range hostileVals {
			marker(fmt.Sprintf("CALL/special-variable-%s/%d", name, vi))
			if evr, err := eng.New(`x = len("abc") + 1; foreach c in "ab" { x++; } return x == 6;`, eng.Options{ObjVars: map[string]object.Object{name: val}, Budget: 100000, NoOptimize: (ni+vi)%2 == 0}); err == nil {
				evr.Exec(map[string]interface{}{"Path": canary})
				evr.RunBool(map[string]interface{}{"Path": canary})
				rep.Calls++
			}
			lit := val.Inspect()
			if sv, ok := val.(*object.String); ok {
				lit = gast.EncodeString(sv.Value, '"', nil)
			}
			script := name + " = " + lit + "; y = lower(\"AB\"); return y == \"ab\";"
			if evr, err := eng.New(script, eng.Options{Budget: 100000, NoOptimize: (ni+vi)%2 == 1}); err == nil {
				evr.Exec(map[string]interface{}{"Path": canary})
				if (ni+vi)%2 == 1 {
					evr.E.Prepare([]byte{evalfilter.NoOptimize})
				} else {
					evr.E.Prepare()
				}
				evr.Exec(map[string]interface{}{"Path": canary})
				evr.RunBool(map[string]interface{}{"Path": canary})
				evr.E.Dump()
				rep.Calls++
			}
		}
	}
	marker("END")
	for op := code.Opcode(0); op <= code.OpRange; op++ {
		rep.OpHist[code.String(op)] = hist[op]
		if hist[op] == 0 && op != code.OpNop {
			rep.MissingOps = append(rep.MissingOps, code.String(op))
		}
	}
	b, _ := json.Marshal(rep)
	real.Write(b)
	real.Write([]byte("\n"))
}

// envDiff names the variables that differ between two NUL-joined environment snapshots.
func envDiff(a, b string) string {
	am, bm := map[string]string{}, map[string]string{}
	for _, kv := range strings.Split(a, "\x00") {
		if i := strings.Index(kv, "="); i > 0 {
			am[kv[:i]] = kv[i+1:]
		}
	}
	for _, kv := range strings.Split(b, "\x00") {
		if i := strings.Index(kv, "="); i > 0 {
			bm[kv[:i]] = kv[i+1:]
		}
	}
	var out []string
	for k, v := range bm {
		if am[k] != v {
			out = append(out, fmt.Sprintf("%s: %q -> %q", k, am[k], v))
		}
	}
	for k := range am {
		if _, ok := bm[k]; !ok {
			out = append(out, k+" removed")
		}
	}
	sort.Strings(out)
	return strings.Join(out, "; ")
}

var straceLine = regexp.MustCompile(`^(\d+)\s+([a-z_0-9]+)\((.*)$`)
var straceResumed = regexp.MustCompile(`^(\d+)\s+<\.\.\. ([a-z_0-9]+) resumed>(.*)$`)

var tzPrefixes = []string{"/usr/share/zoneinfo", "/usr/lib/locale/TZ", "/usr/share/lib/zoneinfo", "/etc/localtime", "/etc/zoneinfo"}

func c10(c *ev.Ctx) {
	c.SetRule("trace monitor over an OS-level event log: a worker process is run under `strace -f -e trace=%file,%network,%process`; between in-band BEGIN/END markers (stat calls on a marker path) it enumerates the live function registry and calls every registered function with arities 0-4 over a hostile argument matrix (paths incl. a canary file, file:// and http:// URLs, host:port, shell fragments, format strings, arrays / hashes / regexps of those) under several TZ values, then runs generated and shipped scripts (Execute, Run, Dump). The offline checker rejects any network or process-creating syscall, any open with write/create/truncate/append flags, any unlink/rename/mkdir/chmod/..., and any read-only open outside the time-zone database; the canary file and its directory must be unchanged. Gates (else inconclusive): every registered function called, every opcode dispatched, at least one zoneinfo read seen. Distinct = distinct (function, arity) and script; non-trivial = all.")
	work := filepath.Join(ev.Root, "work", fmt.Sprintf("c10-%d", os.Getpid()))
	os.MkdirAll(filepath.Join(work, "jail"), 0o755)
	defer os.RemoveAll(work)
	canary := filepath.Join(work, "jail", "canary.txt")
	os.WriteFile(canary, []byte("canary-content-1\n"), 0o644)
	self, _ := os.Executable()
	logf := filepath.Join(work, "strace.log")
	nscripts := c.Pick(2000, 40000)
	cmd := exec.Command("timeout", "-s", "KILL", "3000", "strace", "-f", "--seccomp-bpf", "-qq", "-s", "300", "-o", logf, "-e", "trace=%file,%network,%process,write,writev,pwrite64,pwritev,pwritev2,sendfile,eventfd2,eventfd,pipe,pipe2,dup,dup2,dup3,close", self, "worker", "c10", fmt.Sprint(c.Seed), fmt.Sprint(nscripts), canary)
	cmd.Env = append(os.Environ(), "ZONEINFO=")
	// (the worker's current directory is the canary's directory: a file made through a relative
	// path would land there, where it is seen - not in the tree the checks live in)
	cmd.Dir = filepath.Dir(canary)
	errPath := filepath.Join(work, "worker-stderr.txt")
	errFile, _ := os.Create(errPath)
	cmd.Stderr = errFile
	out, err := cmd.Output()
	errFile.Close()
	var rep c10Report
	if jerr := json.Unmarshal(out, &rep); jerr != nil {
		c.Inconclusive(fmt.Sprintf("traced worker gave no report (err=%v): strace unusable here or the worker died: %s", err, clip(string(out), 200)))
		return
	}
	f, ferr := os.Open(logf)
	if ferr != nil {
		c.Inconclusive("no strace log: " + ferr.Error())
		return
	}
	defer f.Close()
	sc := bufio.NewScanner(f)
	sc.Buffer(make([]byte, 1<<20), 1<<24)
	inside, sawEnd := false, false
	current := "(start)"
	events, tzReads, threads := 0, 0, 0
	classes := map[string]int{}
	// file descriptors the Go runtime itself creates (wake-up pipes / eventfds): writes
	// to them are not the library's doing
	runtimeFds := map[string]bool{}
	fdOf := func(rest string) string {
		if i := strings.IndexAny(rest, ",)"); i > 0 {
			return strings.TrimSpace(rest[:i])
		}
		return ""
	}
	retOf := func(rest string) string {
		if i := strings.LastIndex(rest, "= "); i >= 0 {
			return strings.Fields(rest[i+2:])[0]
		}
		return ""
	}
	writes := 0
	judge := func(name, rest, line string) string {
		switch name {
		case "write", "writev", "pwrite64", "pwritev", "pwritev2", "sendfile":
			writes++
			fd := fdOf(rest)
			if fd == "1" || runtimeFds[fd] {
				return ""
			}
			return "writes to file descriptor " + fd + " (only standard output is allowed)"
		case "close":
			return ""
		case "dup", "dup2", "dup3":
			return "duplicates a file descriptor"
		case "stat", "lstat", "newfstatat", "fstatat64", "statx", "access", "faccessat", "faccessat2", "readlink", "readlinkat", "getcwd", "chdir":
			// looking is not touching; only reads of file *contents* and changes count
			if name == "chdir" {
				return "changes directory"
			}
			return ""
		case "open", "openat", "openat2", "creat":
			if name == "creat" || regexp.MustCompile(`O_WRONLY|O_RDWR|O_CREAT|O_TRUNC|O_APPEND|O_TMPFILE`).MatchString(rest) {
				return "opens a file for writing / creation"
			}
			m := regexp.MustCompile(`"([^"]*)"`).FindStringSubmatch(rest)
			path := ""
			if m != nil {
				path = m[1]
			}
			for _, p := range tzPrefixes {
				if strings.HasPrefix(path, p) {
					tzReads++
					return ""
				}
			}
			if strings.HasSuffix(path, "/lib/time/zoneinfo.zip") {
				// the Go runtime's own copy of the time-zone database ($GOROOT/lib/time), tried
				// by time.LoadLocation after the system locations
				tzReads++
				return ""
			}
			if strings.Contains(rest, "ENOENT") && strings.Contains(path, "zoneinfo") {
				tzReads++
				return ""
			}
			return "opens a file outside the time-zone database: " + path
		case "clone", "clone3":
			if strings.Contains(rest, "CLONE_THREAD") {
				threads++
				return ""
			}
			return "creates a process"
		case "fork", "vfork", "execve", "execveat":
			return "creates a process / executes a program"
		case "exit", "exit_group", "wait4", "waitid", "kill", "tgkill", "tkill", "getpid", "gettid", "getppid", "rt_sigreturn", "arch_prctl", "prctl", "set_tid_address", "sched_yield":
			if name == "kill" {
				return "sends a signal"
			}
			return ""
		case "socket", "connect", "bind", "listen", "accept", "accept4", "sendto", "sendmsg", "sendmmsg", "recvfrom", "recvmsg", "recvmmsg", "getsockopt", "setsockopt", "getsockname", "getpeername", "socketpair", "shutdown":
			return "uses the network"
		}
		return "file-system / process syscall " + name
	}
	for sc.Scan() {
		line := sc.Text()
		m := straceLine.FindStringSubmatch(line)
		if m == nil {
			// the second half of a call strace had to split (`<... eventfd2 resumed>) = 6`):
			// what matters here is the descriptor the runtime got for its own wake-ups
			if rm := straceResumed.FindStringSubmatch(line); rm != nil {
				switch rm[2] {
				case "eventfd", "eventfd2", "epoll_create1", "epoll_create":
					runtimeFds[retOf(rm[3])] = true
				case "pipe", "pipe2":
					if a, b := strings.Index(rm[3], "["), strings.Index(rm[3], "]"); a >= 0 && b > a {
						for _, f := range strings.Split(rm[3][a+1:b], ",") {
							runtimeFds[strings.TrimSpace(f)] = true
						}
					}
				}
			}
			continue
		}
		name, rest := m[2], m[3]
		switch name {
		case "eventfd", "eventfd2", "epoll_create1":
			runtimeFds[retOf(rest)] = true
		case "pipe", "pipe2":
			if a, b := strings.Index(rest, "["), strings.Index(rest, "]"); a >= 0 && b > a {
				for _, f := range strings.Split(rest[a+1:b], ",") {
					runtimeFds[strings.TrimSpace(f)] = true
				}
			}
		case "close":
			delete(runtimeFds, fdOf(rest))
		}
		if name == "eventfd" || name == "eventfd2" || name == "pipe" || name == "pipe2" {
			continue
		}
		if strings.Contains(rest, markerRoot) {
			switch {
			case strings.Contains(rest, markerRoot+"BEGIN"):
				inside = true
			case strings.Contains(rest, markerRoot+"END"):
				inside, sawEnd = false, true
			case strings.Contains(rest, markerRoot+"PAUSE"):
				inside = false
			case strings.Contains(rest, markerRoot+"RESUME"):
				inside = true
			default:
				if mm := regexp.MustCompile(regexp.QuoteMeta(markerRoot) + `([^"]*)"`).FindStringSubmatch(rest); mm != nil {
					current = mm[1]
				}
			}
			continue
		}
		if !inside {
			continue
		}
		events++
		classes[name]++
		if why := judge(name, rest, line); why != "" {
			c.Violation("syscall/"+current, "confinement: "+why, map[string]interface{}{
				"summary": fmt.Sprintf("while running %s the library %s:\n  %s", current, why, clip(line, 400)), "syscall_line": line, "during": current})
		}
	}
	// nothing may reach standard error (the worker itself writes there only when it fails)
	if data, _ := os.ReadFile(errPath); len(data) > 0 {
		c.Violation("stderr", "writes to standard error", map[string]interface{}{"summary": "the library wrote to standard error (only standard output is allowed): " + clip(string(data), 400)})
	}
	c.Extra("write_syscalls_judged", writes)
	// canary
	if data, err := os.ReadFile(canary); err != nil || string(data) != "canary-content-1\n" {
		c.Violation("canary", "canary file changed", map[string]interface{}{"summary": fmt.Sprintf("the canary file was changed or removed: %q err=%v", data, err)})
	}
	ents, _ := os.ReadDir(filepath.Join(work, "jail"))
	if len(ents) != 1 {
		var names []string
		for _, e := range ents {
			names = append(names, e.Name())
		}
		c.Violation("canary", "files created next to the canary", map[string]interface{}{"summary": fmt.Sprintf("directory of the canary now holds %v", names)})
	}
	for _, e := range rep.ErrorsSample {
		if strings.HasPrefix(e, "LEAK:") {
			c.Violation("registry", "host function leaks between evaluators", map[string]interface{}{"summary": e})
		}
	}
	for _, fn := range rep.Functions {
		for k := 0; k <= 4; k++ {
			c.Case(fmt.Sprintf("%s/%d", fn, k), true)
		}
	}
	c.Evals(rep.Calls + rep.Scripts)
	for i := 0; i < rep.Scripts; i += 1 {
		if i%50 == 0 {
			c.Case(fmt.Sprintf("script-batch/%d", i), true)
		}
	}
	sort.Strings(rep.Functions)
	c.Extra("functions_in_registry", rep.Functions)
	c.Extra("builtin_calls", rep.Calls)
	c.Extra("scripts_run", rep.Scripts)
	c.Extra("syscalls_judged", events)
	c.Extra("syscall_classes_seen", classes)
	c.Extra("zoneinfo_reads_seen", tzReads)
	c.Extra("thread_creations_seen", threads)
	c.Extra("opcode_histogram", rep.OpHist)
	c.Sample(map[string]interface{}{"call": "return getenv(a0); with a0 = \"PATH\"", "kind": "registry call"})
	c.Sample(map[string]interface{}{"errors_seen": rep.ErrorsSample})
	if !sawEnd {
		c.Inconclusive("END marker not found in the strace log (tracer lost the worker?)")
	}
	if len(rep.MissingOps) > 0 {
		c.Inconclusive(fmt.Sprintf("opcodes never dispatched by the workload: %v", rep.MissingOps))
	}
	if tzReads == 0 {
		c.Inconclusive("no read of the time-zone database was observed: the tracer does not see file events of the worker")
	}
	if len(rep.Functions) < 20 {
		c.Inconclusive(fmt.Sprintf("function registry has only %d entries", len(rep.Functions)))
	}
	_ = rand.Int
}
