package main

import (
	"context"
	"fmt"
	"math"
	"runtime"
	"sort"
	"strings"
	"time"

	"github.com/skx/evalfilter/v2/code"
	"github.com/skx/evalfilter/v2/object"
	"github.com/skx/evalfilter/v2/vm"

	"verif/internal/eng"
	"verif/internal/ev"
)

func init() { register("C09", "exploration", c09) }

// looping / long-running shapes; every one runs (practically) forever
var c09Loops = []struct{ name, script string }{
	{"while-true", `while (true) { x = 1; }`},
	{"for-true", `for (1) { x = x; }`},
	{"while-counter", `i = 0; while (i >= 0) { i = i + 1; }`},
	{"empty-while", `while (true) { }`},
	{"nested-while", `while (true) { j = 0; while (j < 1000) { j++; } }`},
	{"foreach-range-inner-loop", `foreach i in 1..10000 { while (true) { y = i; } }`},
	{"foreach-big-ranges", `foreach i in 1..100000 { foreach j in 1..100000 { k = i + j; } } return 1;`},
	{"loop-in-function-depth-1", `function spin() { while (true) { z = 1; } } spin(); return 1;`},
	{"loop-in-function-depth-3", `function a() { b(); } function b() { c(); } function c() { while (true) { z = 1; } } a(); return 1;`},
	{"loop-in-function-depth-5", `function f1() { return f2(); } function f2() { return f3(); } function f3() { return f4(); } function f4() { return f5(); } function f5() { for (true) { q = 2; } return 1; } return f1();`},
	{"loop-calls-function", `function step(n) { return n + 1; } n = 0; while (true) { n = step(n); }`},
	{"function-in-foreach-in-function", `function inner() { while (1) { w = 1; } } function outer() { foreach e in [1,2,3] { inner(); } } while (true) { outer(); }`},
	{"loop-in-switch-arm", `switch (1) { case 1 { while (true) { s = 1; } } default { return 0; } }`},
	{"loop-in-default-arm", `switch (2) { case 1 { return 0; } default { while (true) { s = 1; } } }`},
	{"ternary-selected-call", `function spin() { while (true) { t1 = 1; } return 1; } r = C ? spin() : spin(); return r;`},
	{"loop-with-builtins", `while (true) { s = upper(lower("Abc")) + string(len("x")); m = match(s, /a/i); }`},
	{"loop-with-host-call", `while (true) { t(1); v(2); }`},
	{"direct-recursion-with-loop", `function r(n) { if (n > 50) { while (true) { n = n; } } return r(n + 1); } return r(0);`},
	{"mutual-recursion-with-loop", `function ping(n) { if (n > 30) { for (true) { n = n; } } return pong(n + 1); } function pong(n) { return ping(n + 1); } return ping(0);`},
	{"tree-recursion-fib", `function fib(n) { if (n < 2) { return n; } return fib(n - 1) + fib(n - 2); } return fib(60);`},
	{"tree-recursion-three-way", `function tri(n) { if (n <= 0) { return 1; } return tri(n - 1) + tri(n - 2) + tri(n - 3); } return tri(90);`},
	{"mutual-tree-recursion", `function ev(n) { if (n <= 0) { return 1; } return od(n - 1) + od(n - 2); } function od(n) { if (n <= 0) { return 0; } return ev(n - 1) + ev(n - 1); } return ev(80);`},
	{"short-calls-from-short-calls", `function leaf(a) { return a + 1; } function mid(n) { if (n <= 0) { return leaf(n); } return mid(n - 1) + mid(n - 1) + leaf(n); } return mid(70);`},
	{"recursion-in-foreach", `function walk(n) { if (n <= 0) { return 0; } foreach i in 1..3 { z = walk(n - 1); } return n; } return walk(40);`},
	{"loop-in-else-branch", `if (false) { return 1; } else { while (true) { e = 1; } }`},
	{"loop-after-work", `s = ""; foreach c in "abcdef" { s = s + c; } while (len(s) > 0) { s = s + ""; }`},
	{"loop-with-array-work", `a = 1..50; while (true) { foreach e in a { x = e; } }`},
	{"loop-with-arithmetic-on-negative-and-float-operands", `a = 0 - 3; b = 2; f = 2.5; while (true) { x = b ** a; y = a ** b; z = b ** b; w = f ** a; u = a % b; q = a / b; p = a * a - b + f; m = (0 - 7) % 3; e = 0 ** a; o = 1 ** a; g = (0 - 1) ** a; }`},
	{"loop-with-every-kind-of-built-in", `while (true) { s = sprintf("%d %s", 3, "x"); l = len(split("a,b,c", ",")); m = min(1, 2) + max(3, 4); k = keys({"a": 1}); q = sort([3, 1, 2]); r = reverse(q); j = join(r, "-"); i = int("12") + float("1.5"); u = upper(trim(" a ")) + lower("B") + string(3) + type(1.5); b = between(2, 1, 3) && match("abc", "b") && ("x" in ["x"]); h = string(hour(1700000000)) + weekday(0) + string(now() > 0); d = replace("aXb", /x/i, "-"); }`},
	{"spin-inside-a-trailing-call", `function spin() { while (true) { y = 1; } } spin();`},
	{"spin-inside-nested-trailing-calls", `function inner() { for (true) { z = 2; } } function outer() { inner(); } outer();`},
	{"spin-inside-a-call-that-ends-a-block", `function spin(n) { while (n) { n = n + 0; } } if (C) { spin(1); }`},
	{"spin-inside-a-call-that-ends-a-loop-body", `function spin(n) { while (n) { n = n + 0; } } foreach e in [1, 2] { spin(e); }`},
	{"spin-after-a-completed-call", `function inc(x) { return x + 1; } i = inc(0); while (i > 0) { i++; }`},
	{"spin-in-a-function-after-a-completed-call", `function inc(x) { return x + 1; } function spin() { n = inc(0); while (n > 0) { n++; } } spin(); return 1;`},
	{"spin-after-a-loop-of-calls", `function inc(x) { return x + 1; } foreach e in [1, 2, 3] { q = inc(e); } while (true) { q = q; }`},
	{"spin-after-a-failed-call-was-caught-by-nothing", `function two(a, b) { return a; } x = two(1, 2); y = len("abc") + hour(0); for (x) { y = y + 0; }`},
	{"spin-in-foreach-after-calls", `function inc(x) { return x + 1; } foreach e in [1] { z = inc(e); z = inc(z); while (z) { z = z + 0; } }`},
	{"loop-with-patterns-built-at-run-time", `n = 0; while (true) { n++; a = match("item-" + string(n), "^item-" + string(n) + "$"); b = ("x" + string(n)) ~= /x[0-9]+/; c = replace("a1b", "[0-9]" + string(n % 7), "-"); d = split("a,b", string(n % 3)); }`},
	{"loop-with-indexing-and-strings", `s = "héllo wörld"; a = [1, [2, 3], {"k": "v"}]; while (true) { c1 = s[1] + string(s[-1]) + string(s[100]); e = string(a[1][0]) + a[2]["k"] + string(a[9]) + string(a[-1]); t1 = s + s[0]; n = len(s) + len(a); h = {"a": 1, 2: "b", 1.5: [3]}; v1 = h[2] + string(h[1.5]) + string(h["zz"]); }`},
	{"loop-with-hash-work", `h = {"a":1,"b":2}; while (true) { foreach k, v1 in h { x = v1; } }`},
}

// scripts that finish quickly: must be unaffected by a live context
var c09Finite = []struct{ script, want string }{
	{`return 1 + 2;`, "INTEGER:3"},
	{`s = 0; foreach i in 1..100 { s = s + i; } return s;`, "INTEGER:5050"},
	{`function f(n) { if (n <= 0) { return 0; } return n + f(n - 1); } return f(20);`, "INTEGER:210"},
	{`i = 0; while (i < 500) { i++; } return i;`, "INTEGER:500"},
}

const c09Bound = 65536

func c09(c *ev.Ctx) {
	c.SetRule("step-hook monitor in logical time: a real context (SetContext before Prepare) is cancelled from the hook at exactly instruction K of a non-terminating script (23 looping shapes: top level, functions at call depth 1-5, nested loops, switch arms, ternary-selected calls, recursion, loops doing built-in / host / container work) for K in {0,1,2,3,10,100,1k,10k,50k, seeded}; afterwards the VM may dispatch at most 65,536 further instructions and must return an error; an already-expired context (cancelled, deadline in the past) must execute no instruction and no host call; finite scripts under a live context are unaffected; Run and Execute, optimised and NoOptimize. Wall-clock latencies of real WithTimeout deadlines are reported, not judged. Distinct = distinct (script, K, api, optimizer); all non-trivial.")
	ks := []int64{0, 1, 2, 3, 10, 100, 1000, 10000, 50000}
	type job struct {
		li    int
		k     int64
		run   bool
		noOpt bool
	}
	var jobs []job
	for li := range c09Loops {
		for _, k := range ks {
			for _, run := range []bool{false, true} {
				for _, noOpt := range []bool{false, true} {
					jobs = append(jobs, job{li, k, run, noOpt})
				}
			}
		}
		extra := c.Pick(2, 200)
		for e := 0; e < extra; e++ {
			r := c.Rng(fmt.Sprintf("k%d", li), e)
			jobs = append(jobs, job{li, int64(r.Intn(200000)), r.Intn(2) == 0, r.Intn(2) == 0})
		}
	}
	var after []int
	c.ParFor(len(jobs), func(i int) {
		j := jobs[i]
		lp := c09Loops[j.li]
		id := fmt.Sprintf("cancel/%s/%d/%v/%v", lp.name, j.k, j.run, j.noOpt)
		if !c.Want(id) {
			return
		}
		// every way a context can be cancelled while the script runs: plain cancel,
		// cancel of a context that also has a (distant) deadline, cancel of a parent
		var ctx context.Context
		var cancel context.CancelFunc
		switch i % 4 {
		case 0:
			ctx, cancel = context.WithCancel(context.Background())
		case 1:
			ctx, cancel = context.WithTimeout(context.Background(), time.Hour)
		case 2:
			ctx, cancel = context.WithDeadline(context.Background(), time.Now().Add(24*time.Hour))
		default:
			parent, pc := context.WithCancel(context.Background())
			child, cc := context.WithTimeout(parent, time.Hour)
			ctx, cancel = child, func() { pc(); cc() }
		}
		defer cancel()
		evr, err := eng.New(lp.script, eng.Options{Ctx: ctx, NoOptimize: j.noOpt, Budget: j.k + c09Bound + 10, PrePrepare: i%3 == 2})
		if err != nil {
			c.Violation(id, "prepare", map[string]interface{}{"summary": "Prepare failed: " + err.Error(), "script": lp.script})
			return
		}
		cancelled := int64(-1)
		var stepsAfter int64
		evr.OnStep = func(m *vm.VM, ip int, op code.Opcode) error {
			if cancelled >= 0 {
				stepsAfter++
			}
			if cancelled < 0 && evr.Steps() > j.k {
				cancelled = evr.Steps()
				cancel()
			}
			return nil
		}
		obj := map[string]interface{}{"C": true}
		var callErr error
		var budget, panicked bool
		if j.run {
			_, e, p, _ := evr.RunBool(obj)
			callErr, panicked = e, p
			budget = e != nil && strings.Contains(e.Error(), eng.ErrBudget.Error())
		} else {
			o := evr.Exec(obj)
			callErr, panicked, budget = o.Err, o.Panicked, o.Budget
		}
		c.Case(id, true)
		if cancelled < 0 {
			c.Violation(id, "script ended before instruction K", map[string]interface{}{"summary": fmt.Sprintf("%s: the looping script ended after %d instructions (err=%v) before the cancellation point %d", lp.name, evr.Steps(), callErr, j.k), "script": lp.script})
			return
		}
		if budget || stepsAfter > c09Bound {
			c.Violation(id, "not stopped after cancellation: "+lp.name, map[string]interface{}{
				"summary": fmt.Sprintf("%s (%s, noopt=%v): context cancelled at instruction %d, the machine dispatched more than %d further instructions and did not stop\n  script: %s", lp.name, apiName(j.run), j.noOpt, cancelled, c09Bound, lp.script), "script": lp.script})
			return
		}
		if panicked || callErr == nil {
			c.Violation(id, "no error after cancellation: "+lp.name, map[string]interface{}{
				"summary": fmt.Sprintf("%s (%s): cancelled at instruction %d, call returned err=%v panic=%v", lp.name, apiName(j.run), cancelled, callErr, panicked), "script": lp.script})
			return
		}
		// and once more on the same evaluator: the context is done, nothing runs, and the
		// call comes back (an earlier failing call must not have left anything locked)
		if j.run {
			_, e2, p2, _ := evr.RunBool(obj)
			if e2 == nil || p2 || evr.Steps() != 0 {
				c.Violation(id, "second call after cancellation: "+lp.name, map[string]interface{}{"summary": fmt.Sprintf("%s: Run again after the cancelled Run gave err=%v panic=%v and dispatched %d instructions (an error and no execution expected)", lp.name, e2, p2, evr.Steps()), "script": lp.script})
				return
			}
		} else if o2 := evr.Exec(obj); o2.Err == nil || o2.Steps != 0 {
			c.Violation(id, "second call after cancellation: "+lp.name, map[string]interface{}{"summary": fmt.Sprintf("%s: Execute again after the cancelled Execute gave %s and dispatched %d instructions (an error and no execution expected)", lp.name, o2.Desc(), o2.Steps), "script": lp.script})
			return
		}
		c.Count("instructions_after_cancel_total", int(stepsAfter))
		if i%97 == 0 {
			c.Sample(map[string]interface{}{"script": lp.script, "cancel_at_instruction": cancelled, "instructions_dispatched_after_cancel": stepsAfter, "api": apiName(j.run)})
		}
		_ = after
	})

	// already-expired contexts: nothing executes
	for li, lp := range append(c09Loops, struct{ name, script string }{"finite-with-host-call", `t(1); return v(2);`}) {
		for variant := 0; variant < 3; variant++ {
			for _, noOpt := range []bool{false, true} {
				id := fmt.Sprintf("expired/%d/%d/%v", li, variant, noOpt)
				if !c.Want(id) {
					continue
				}
				var ctx context.Context
				var cancel context.CancelFunc
				switch variant {
				case 0:
					ctx, cancel = context.WithCancel(context.Background())
					cancel()
				case 1:
					ctx, cancel = context.WithDeadline(context.Background(), time.Unix(1, 0))
				default:
					ctx, cancel = context.WithTimeout(context.Background(), -time.Second)
				}
				evr, err := eng.New(lp.script, eng.Options{Ctx: ctx, NoOptimize: noOpt, Budget: 100000, PrePrepare: (li+variant)%2 == 0})
				if err != nil {
					cancel()
					continue
				}
				o := evr.Exec(map[string]interface{}{"C": true})
				cancel()
				c.Case(id, true)
				if o.Err == nil || o.Steps != 0 || len(o.Trace) != 0 || o.Panicked {
					c.Violation(id, "expired context still executes: "+lp.name, map[string]interface{}{
						"summary": fmt.Sprintf("%s with an already-expired context: %d instructions dispatched, host calls %v, result %s (an error and no execution expected)", lp.name, o.Steps, o.Trace, o.Desc()), "script": lp.script})
				}
				b, e, p, _ := evr.RunBool(nil)
				if e == nil || b || p {
					c.Violation(id, "expired context: Run", map[string]interface{}{"summary": fmt.Sprintf("%s: Run with an expired context gave %v err=%v", lp.name, b, e), "script": lp.script})
				}
			}
		}
	}
	// a much-used evaluator whose context then expires: still nothing executes (any
	// polling scheme must not depend on what earlier runs did)
	for fi, f := range []string{`t(1); x = v(2); return x;`, `s = 0; foreach i in 1..7 { s = s + i; t(i); } return s;`, `function g(a) { t(a); return a + 1; } return g(g(g(1)));`, `i = 0; while (i < 37) { i++; } t(i); return i;`} {
		for prior := 1; prior <= c.Pick(6, 40); prior++ {
			for _, noOpt := range []bool{false, true} {
				id := fmt.Sprintf("expired-after-use/%d/%d/%v", fi, prior, noOpt)
				if !c.Want(id) {
					continue
				}
				ctx, cancel := context.WithCancel(context.Background())
				evr, err := eng.New(f, eng.Options{Ctx: ctx, NoOptimize: noOpt})
				if err != nil {
					cancel()
					continue
				}
				ok := true
				for k := 0; k < prior; k++ {
					if o := evr.Exec(nil); o.Err != nil {
						ok = false
					}
				}
				cancel()
				o := evr.Exec(nil)
				c.Case(id, true)
				if !ok || o.Err == nil || o.Steps != 0 || len(o.Trace) != 0 {
					c.Violation(id, "expired context still executes on a used evaluator", map[string]interface{}{
						"summary": fmt.Sprintf("%q run %d times under a live context, then the context was cancelled: the next run dispatched %d instructions, made host calls %v and returned %s (an error and no execution expected)", f, prior, o.Steps, o.Trace, o.Desc()), "script": f})
				}
			}
		}
	}
	c09WorkAfterCancel(c)
	c09StraightLine(c)
	c09ObjectsWithContext(c)
	c09AfterPanic(c)
	// finite scripts under a live context are unaffected
	// (every kind of live context: no deadline at all, deadlines from a minute to the end of
	// what a time.Time or a Duration can hold, a child of a live parent, a context carrying values)
	type ctxKey string
	liveContexts := []struct {
		name string
		mk   func() (context.Context, context.CancelFunc)
	}{
		{"one hour", func() (context.Context, context.CancelFunc) {
			return context.WithTimeout(context.Background(), time.Hour)
		}},
		{"one minute", func() (context.Context, context.CancelFunc) {
			return context.WithTimeout(context.Background(), time.Minute)
		}},
		{"background", func() (context.Context, context.CancelFunc) { return context.Background(), func() {} }},
		{"cancellable, not cancelled", func() (context.Context, context.CancelFunc) { return context.WithCancel(context.Background()) }},
		{"the longest duration", func() (context.Context, context.CancelFunc) {
			return context.WithTimeout(context.Background(), time.Duration(math.MaxInt64))
		}},
		{"a hundred years", func() (context.Context, context.CancelFunc) {
			return context.WithTimeout(context.Background(), 100*365*24*time.Hour)
		}},
		{"year 2262", func() (context.Context, context.CancelFunc) {
			return context.WithDeadline(context.Background(), time.Date(2262, 4, 11, 23, 47, 16, 0, time.UTC))
		}},
		{"year 2263", func() (context.Context, context.CancelFunc) {
			return context.WithDeadline(context.Background(), time.Date(2263, 1, 1, 0, 0, 0, 0, time.UTC))
		}},
		{"year 2400", func() (context.Context, context.CancelFunc) {
			return context.WithDeadline(context.Background(), time.Date(2400, 1, 1, 0, 0, 0, 0, time.UTC))
		}},
		{"year 9999", func() (context.Context, context.CancelFunc) {
			return context.WithDeadline(context.Background(), time.Date(9999, 12, 31, 23, 59, 59, 999999999, time.UTC))
		}},
		{"year 200000", func() (context.Context, context.CancelFunc) {
			return context.WithDeadline(context.Background(), time.Date(200000, 1, 1, 0, 0, 0, 0, time.UTC))
		}},
		{"deadline in another zone", func() (context.Context, context.CancelFunc) {
			return context.WithDeadline(context.Background(), time.Now().Add(time.Hour).In(time.FixedZone("far", -11*3600)))
		}},
		{"child of a live parent", func() (context.Context, context.CancelFunc) {
			parent, pc := context.WithTimeout(context.Background(), 2*time.Hour)
			child, cc := context.WithCancel(context.WithValue(parent, ctxKey("k"), "v"))
			return child, func() { cc(); pc() }
		}},
	}
	for fi, f := range c09Finite {
		for ci, lc := range liveContexts {
			for _, noOpt := range []bool{false, true} {
				for _, run := range []bool{false, true} {
					id := fmt.Sprintf("finite/%d/%d/%v/%v", fi, ci, noOpt, run)
					if !c.Want(id) {
						continue
					}
					ctx, cancel := lc.mk()
					evr, err := eng.New(f.script, eng.Options{Ctx: ctx, NoOptimize: noOpt})
					got := "prepare error"
					if err == nil {
						if run {
							b, e, p, _ := evr.RunBool(nil)
							got = fmt.Sprintf("Run: %v err=%v panic=%v", b, e, p)
							if e == nil && !p && b {
								got = f.want // (every finite script returns a true value)
							}
						} else {
							got = evr.Exec(nil).Desc()
						}
					}
					cancel()
					c.Case(id, true)
					if got != f.want {
						c.Violation(id, "finite script affected by a live context", map[string]interface{}{"summary": fmt.Sprintf("%s under a live context (%s; %s) gives %s, expected %s", f.script, lc.name, apiName(run), got, f.want), "script": f.script})
					}
				}
			}
		}
	}
	// wall-clock report (evidence only): real deadlines 1..200 ms
	var lat []float64
	for _, ms := range []int{1, 5, 20, 50, 100, 200} {
		for li := 0; li < len(c09Loops); li += 4 {
			ctx, cancel := context.WithTimeout(context.Background(), time.Duration(ms)*time.Millisecond)
			evr, err := eng.New(c09Loops[li].script, eng.Options{Ctx: ctx, NoHook: true})
			if err != nil {
				cancel()
				continue
			}
			t0 := time.Now()
			done := make(chan error, 1)
			go func() { _, e := evr.E.Execute(map[string]interface{}{"C": true}); done <- e }()
			select {
			case e := <-done:
				over := time.Since(t0).Seconds()*1000 - float64(ms)
				if e != nil {
					lat = append(lat, over)
				}
			case <-time.After(20 * time.Second):
				c.Inconclusive(fmt.Sprintf("wall-clock report: %s did not return within 20 s of a %d ms deadline (the logical oracle decides; this is only reported)", c09Loops[li].name, ms))
			}
			cancel()
		}
	}
	sort.Float64s(lat)
	if len(lat) > 0 {
		c.Extra("wallclock_report_ms_over_deadline", map[string]interface{}{"runs": len(lat), "median": lat[len(lat)/2], "max": lat[len(lat)-1], "note": "reported, not judged"})
	}
}

func apiName(run bool) string {
	if run {
		return "Run"
	}
	return "Execute"
}

// c09HeavyLoops spin while large values are live - on the stack (the collection a foreach
// iterates over), in variables, as arguments of the running function.
var c09HeavyLoops = []struct{ name, script string }{
	{"foreach-over-big-array", `a = 1..100000; b = [a, a, a, a, a, a, a, a]; foreach x in b { while (true) { y = 1; } }`},
	{"foreach-over-big-array-in-function", `function spin(v) { foreach x in v { while (true) { y = 1; } } return 0; } a = 1..100000; return spin([a, a, a, a, a, a, a, a]);`},
	{"nested-foreach-over-big-arrays", `a = 1..100000; b = [a, a, a, a]; foreach x in b { foreach y in x { while (true) { z = 1; } } }`},
	{"big-hash-on-the-stack", `a = 1..100000; h = {"p": a, "q": a, "r": a, "s": a}; foreach k, v1 in h { while (true) { z = 1; } }`},
	{"big-values-in-variables-only", `a = 1..100000; b = [a, a, a, a, a, a, a, a]; while (true) { y = 1; }`},
	{"spinning-nine-thousand-calls-deep", `function down_through_many_frames_with_a_long_name(n) { if (n <= 0) { while (true) { } } return down_through_many_frames_with_a_long_name(n - 1); } return down_through_many_frames_with_a_long_name(9000);`},
	{"spinning-deep-in-mutual-recursion", `function ping(n) { if (n <= 0) { for (true) { } } return pong(n - 1); } function pong(n) { return ping(n - 1) + 0; } return ping(9000);`},
	{"big-argument-of-spinning-call", `function spin(v, w) { while (true) { y = 1; } return 0; } a = 1..100000; return spin([a, a, a, a, a, a, a, a], a);`},
}

// c09AllocBound: bytes the engine may allocate between the cancellation and its return.
// Work after cancellation is judged in logical units - instructions (above) and allocated
// bytes (here) - never in wall-clock time; the values that are live hold 4-6 MB of
// integers, printing them once would allocate well over this bound.
const c09AllocBound = 4 << 20

func c09WorkAfterCancel(c *ev.Ctx) {
	var maxSeen uint64
	for li, lp := range c09HeavyLoops {
		for _, k := range []int64{200, 2000, 30000, 200000} {
			if (k == 200000) != strings.HasPrefix(lp.name, "spinning-") {
				continue // the deep shapes are cancelled once they spin at the bottom, the others earlier
			}
			for _, noOpt := range []bool{false, true} {
				for _, run := range []bool{false, true} {
					id := fmt.Sprintf("work-after-cancel/%s/%d/%v/%v", lp.name, k, noOpt, run)
					if !c.Want(id) {
						continue
					}
					var ctx context.Context
					var cancel context.CancelFunc
					if (li+int(k))%2 == 0 {
						ctx, cancel = context.WithCancel(context.Background())
					} else {
						ctx, cancel = context.WithTimeout(context.Background(), time.Hour)
					}
					evr, err := eng.New(lp.script, eng.Options{Ctx: ctx, NoOptimize: noOpt, Budget: k + c09Bound + 10})
					if err != nil {
						cancel()
						c.Violation(id, "prepare", map[string]interface{}{"summary": "Prepare failed: " + err.Error(), "script": lp.script})
						continue
					}
					var atCancel uint64
					cancelled := false
					evr.OnStep = func(m *vm.VM, ip int, op code.Opcode) error {
						if !cancelled && evr.Steps() > k {
							cancelled = true
							var ms runtime.MemStats
							runtime.ReadMemStats(&ms)
							atCancel = ms.TotalAlloc
							cancel()
						}
						return nil
					}
					var callErr error
					if run {
						_, callErr, _, _ = evr.RunBool(nil)
					} else {
						callErr = evr.Exec(nil).Err
					}
					var ms runtime.MemStats
					runtime.ReadMemStats(&ms)
					cancel()
					c.Case(id, true)
					if !cancelled || callErr == nil {
						c.Violation(id, "heavy loop not cancelled", map[string]interface{}{"summary": fmt.Sprintf("%s: cancelled=%v err=%v", lp.name, cancelled, callErr), "script": lp.script})
						continue
					}
					delta := ms.TotalAlloc - atCancel
					if delta > maxSeen {
						maxSeen = delta
					}
					if delta > c09AllocBound {
						c.Violation(id, "work after cancellation: "+lp.name, map[string]interface{}{
							"summary": fmt.Sprintf("%s (%s, noopt=%v): after the context was cancelled at instruction %d the engine allocated %d bytes before it returned (bound %d): the return is delayed by work proportional to the values that happen to be live\n  script: %s", lp.name, apiName(run), noOpt, k, delta, c09AllocBound, lp.script), "script": lp.script})
					}
				}
			}
		}
	}
	c.Extra("max_bytes_allocated_after_cancel", maxSeen)
}

// c09StraightLine: long scripts without a single backward jump - thousands of statements
// one after the other (built-in calls, ranges, patterns, hashes, forward-jumping if /
// ternary / switch), at top level, as the body of a function, and three calls deep. A
// live context lets them finish; cancelled at instruction K, long before the end, they
// must stop: at most a few further instructions and an error, not the script's result.
func c09StraightLine(c *ev.Ctx) {
	stmts := []string{
		`a%d = %d + len("abc");`, `s = upper("abc") + lower("DEF") + string(%d + %d);`, `r = 1..40; k = %d - %d;`,
		`m = match("item-%d", /^item-[0-9]+$/) && %d >= 0;`, `h = {"k": %d, "j": [1, 2, %d]};`, `q = sort([3, %d, 2, %d]);`,
		`tern = C ? %d : 0 - %d;`, `if (C) { z = %d; } else { z = 0 - %d; }`, `switch (%d) { case 1 { y = 1; } case %d { y = 3; } default { y = 2; } }`,
		`w = replace("x%dy", /[0-9]+/, "-") + string(%d %% 7);`,
	}
	var body strings.Builder
	for i := 0; i < 1900; i++ {
		body.WriteString(fmt.Sprintf(stmts[i%len(stmts)], i, i))
		body.WriteString(" ")
	}
	shapes := []struct{ name, script string }{
		{"top-level", body.String() + "return 7;"},
		{"function-body", "function big() { " + body.String() + "return 7; } return big();"},
		{"three-calls-deep", "function big() { " + body.String() + "return 7; } function mid() { x = big(); return x; } function outer() { return mid(); } return outer();"},
	}
	for _, sh := range shapes {
		for _, noOpt := range []bool{false, true} {
			// live context: the script finishes, and tells how long it is
			live, cancelLive := context.WithTimeout(context.Background(), time.Hour)
			ref, err := eng.New(sh.script, eng.Options{Ctx: live, NoOptimize: noOpt})
			id0 := fmt.Sprintf("straight-line/%s/%v/live", sh.name, noOpt)
			if err != nil {
				cancelLive()
				c.Violation(id0, "prepare", map[string]interface{}{"summary": "Prepare failed: " + err.Error(), "script": sh.script[:300]})
				continue
			}
			o := ref.Exec(map[string]interface{}{"C": true})
			cancelLive()
			total := o.Steps
			if c.Want(id0) {
				c.Case(id0, true)
				if o.Desc() != "INTEGER:7" || total < 8000 {
					c.Violation(id0, "straight-line script under a live context", map[string]interface{}{"summary": fmt.Sprintf("%s: a long script without loops gave %s %s after %d instructions under a context that is still live (INTEGER:7 expected)", sh.name, o.Desc(), errText(o.Err), total), "script": sh.script[:300]})
					continue
				}
			}
			ks := []int64{0, 1, 2, 5, 100, 1000, total / 2, total - 2000}
			for e := 0; e < c.Pick(3, 40); e++ {
				ks = append(ks, int64(c.Rng("straight-k/"+sh.name, e).Intn(int(total-2000))))
			}
			for _, k := range ks {
				for _, run := range []bool{false, true} {
					id := fmt.Sprintf("straight-line/%s/%v/%d/%v", sh.name, noOpt, k, run)
					if !c.Want(id) {
						continue
					}
					ctx, cancel := context.WithCancel(context.Background())
					evr, err := eng.New(sh.script, eng.Options{Ctx: ctx, NoOptimize: noOpt})
					if err != nil {
						cancel()
						continue
					}
					cancelled := int64(-1)
					var stepsAfter int64
					evr.OnStep = func(m *vm.VM, ip int, op code.Opcode) error {
						if cancelled >= 0 {
							stepsAfter++
						}
						if cancelled < 0 && evr.Steps() > k {
							cancelled = evr.Steps()
							cancel()
						}
						return nil
					}
					obj := map[string]interface{}{"C": true}
					var callErr error
					var panicked bool
					if run {
						_, callErr, panicked, _ = evr.RunBool(obj)
					} else {
						ob := evr.Exec(obj)
						callErr, panicked = ob.Err, ob.Panicked
					}
					cancel()
					c.Case(id, true)
					c.Count("instructions_after_cancel_total", int(stepsAfter))
					if cancelled < 0 || panicked || callErr == nil || stepsAfter > 64 {
						c.Violation(id, "straight-line script not stopped: "+sh.name, map[string]interface{}{
							"summary": fmt.Sprintf("%s (%s, noopt=%v): a script of %d instructions without a backward jump, context cancelled at instruction %d: %d further instructions were dispatched, err=%v panic=%v (an error after at most a few instructions expected)", sh.name, apiName(run), noOpt, total, cancelled, stepsAfter, callErr, panicked),
							"script":  sh.script[:300] + " ..."})
					}
				}
			}
		}
	}
}

// c09Request is a host record that carries a context of its own, as an *http.Request does.
type c09Request struct {
	Path string
	Hits int
	ctx  context.Context
}

// Context returns the record's own context - the host's business, not the evaluator's.
func (r *c09Request) Context() context.Context { return r.ctx }

// c09ObjectsWithContext: the context that stops a script is the one given to the evaluator
// before Prepare - whatever the object of a run is, also a record that carries a context
// of its own (live for ever, or long over): a spinning script stops when the evaluator's
// context is cancelled, and a finite script under a live evaluator context runs, in this
// run and in the runs that follow.
func c09ObjectsWithContext(c *ev.Ctx) {
	over, cancelOver := context.WithCancel(context.Background())
	cancelOver()
	spins := []string{`while (Hits >= 0) { x = 1; }`, `function spin() { while (true) { y = Path; } } spin(); return 1;`, `foreach i in 1..100000 { foreach j in 1..100000 { z = Hits; } } return 1;`}
	for si, script := range spins {
		for oi, mk := range []func() interface{}{
			func() interface{} { return &c09Request{Path: "/", Hits: 1, ctx: context.Background()} },
			func() interface{} { return &c09Request{Path: "/", Hits: 1, ctx: over} },
			func() interface{} { return c09Request{Path: "/", Hits: 1, ctx: context.Background()} },
		} {
			for _, run := range []bool{false, true} {
				id := fmt.Sprintf("object-context/spin/%d/%d/%v", si, oi, run)
				if !c.Want(id) {
					continue
				}
				ctx, cancel := context.WithCancel(context.Background())
				evr, err := eng.New(script, eng.Options{Ctx: ctx, NoOptimize: (si+oi)%2 == 0, Budget: 1000 + c09Bound + 10})
				if err != nil {
					cancel()
					continue
				}
				cancelled := false
				var stepsAfter int64
				evr.OnStep = func(m *vm.VM, ip int, op code.Opcode) error {
					if cancelled {
						stepsAfter++
					} else if evr.Steps() > 1000 {
						cancelled = true
						cancel()
					}
					return nil
				}
				var callErr error
				var budget bool
				if run {
					_, callErr, _, _ = evr.RunBool(mk())
					budget = callErr != nil && strings.Contains(callErr.Error(), eng.ErrBudget.Error())
				} else {
					o := evr.Exec(mk())
					callErr, budget = o.Err, o.Budget
				}
				cancel()
				c.Case(id, true)
				if oi == 1 && !cancelled && callErr != nil {
					c.Violation(id, "a record's own context stopped the script", map[string]interface{}{"summary": fmt.Sprintf("%s over a record whose own context is over, evaluator context live: %s returned %v after %d instructions (the script should spin until the evaluator's context ends)", script, apiName(run), callErr, evr.Steps()), "script": script})
					continue
				}
				if !cancelled || budget || callErr == nil || stepsAfter > c09Bound {
					c.Violation(id, "not stopped by the evaluator's context", map[string]interface{}{"summary": fmt.Sprintf("%s over a record with a Context() method (%s): evaluator context cancelled=%v at instruction 1000, %d further instructions, err=%v", script, apiName(run), cancelled, stepsAfter, callErr), "script": script})
				}
			}
		}
	}
	// finite scripts: a record whose own context is over, then plain records, under a live evaluator context
	for fi, f := range c09Finite {
		id := fmt.Sprintf("object-context/finite/%d", fi)
		if !c.Want(id) {
			continue
		}
		ctx, cancel := context.WithTimeout(context.Background(), time.Hour)
		evr, err := eng.New(f.script, eng.Options{Ctx: ctx, NoOptimize: fi%2 == 0})
		if err == nil {
			for step, obj := range []interface{}{&c09Request{Path: "/a", ctx: over}, map[string]interface{}{"Path": "/b"}, &c09Request{Path: "/c", ctx: context.Background()}, nil, &c09Request{Path: "/d", ctx: over}} {
				got := evr.Exec(obj).Desc()
				c.Case(fmt.Sprint(id, step), true)
				if got != f.want {
					c.Violation(id, "finite script affected by a record's own context", map[string]interface{}{"summary": fmt.Sprintf("%s, run %d over %T under a live evaluator context gives %s, expected %s", f.script, step+1, obj, got, f.want), "script": f.script})
					break
				}
			}
		}
		cancel()
	}
}

// c09AfterPanic: the context given before Prepare keeps stopping scripts after runs that
// ended in a run-time error or a Go-level panic (a remainder by zero, panic(), a host function
// that panics): a spinning run that follows is stopped when the context is cancelled, and
// once the context is over nothing executes.
func c09AfterPanic(c *ev.Ctx) {
	script := `if (Mode == 1) { return 1 % Zero; } if (Mode == 2) { panic("p"); } if (Mode == 3) { return boom(1); } if (Mode == 4) { return [1, 2][Zero - 1 + "x"]; } if (Mode == 9) { while (true) { x = 1; } } function spin() { for (true) { y = 2; } } if (Mode == 8) { spin(); } return 7;`
	for fault := 1; fault <= 4; fault++ {
		for _, spinMode := range []int{9, 8} {
			for _, run := range []bool{false, true} {
				id := fmt.Sprintf("after-panic/%d/%d/%v", fault, spinMode, run)
				if !c.Want(id) {
					continue
				}
				ctx, cancel := context.WithCancel(context.Background())
				evr, err := eng.New(script, eng.Options{Ctx: ctx, NoOptimize: (fault+spinMode)%2 == 0, Budget: 2000 + c09Bound + 10,
					Funcs: map[string]func(args []object.Object) object.Object{"boom": func(args []object.Object) object.Object { panic("host function panics") }}})
				if err != nil {
					cancel()
					c.Violation(id, "prepare", map[string]interface{}{"summary": "Prepare failed: " + err.Error(), "script": script})
					continue
				}
				call := func(mode int) (error, bool) {
					obj := map[string]interface{}{"Mode": mode, "Zero": 0}
					if run {
						_, e, _, _ := evr.RunBool(obj)
						return e, e != nil && strings.Contains(e.Error(), eng.ErrBudget.Error())
					}
					o := evr.Exec(obj)
					return o.Err, o.Budget
				}
				c.Case(id, true)
				if e, _ := call(0); e != nil {
					c.Violation(id, "finite run fails", map[string]interface{}{"summary": fmt.Sprintf("a finite run under a live context fails: %v", e), "script": script})
					cancel()
					continue
				}
				if e, _ := call(fault); e == nil {
					c.Violation(id, "faulting run gives no error", map[string]interface{}{"summary": fmt.Sprintf("the run with Mode=%d gives no error", fault), "script": script})
					cancel()
					continue
				}
				cancelled := false
				var stepsAfter int64
				evr.OnStep = func(m *vm.VM, ip int, op code.Opcode) error {
					if cancelled {
						stepsAfter++
					} else if evr.Steps() > 1000 {
						cancelled = true
						cancel()
					}
					return nil
				}
				e, budget := call(spinMode)
				evr.OnStep = nil
				if !cancelled || budget || e == nil || stepsAfter > c09Bound {
					c.Violation(id, "not stopped after an earlier run panicked", map[string]interface{}{"summary": fmt.Sprintf("after a run that ended in a fault (Mode=%d) a spinning run (Mode=%d, %s): context cancelled=%v at instruction 1000, %d further instructions, err=%v - the context given before Prepare no longer stops the script", fault, spinMode, apiName(run), cancelled, stepsAfter, e), "script": script})
					cancel()
					continue
				}
				// the context is over now: after one more fault nothing may execute either
				call(fault)
				if e, _ := call(0); e == nil || evr.Steps() != 0 {
					c.Violation(id, "an expired context executes after a fault", map[string]interface{}{"summary": fmt.Sprintf("context over, a faulting call, then a finite call: err=%v after %d instructions (an error and no execution expected)", e, evr.Steps()), "script": script})
				}
				cancel()
			}
		}
	}
}
