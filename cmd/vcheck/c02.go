package main

import (
	"fmt"
	"math/rand"
	"strings"
	"unicode/utf8"

	"github.com/skx/evalfilter/v2/object"

	"verif/internal/eng"
	"verif/internal/ev"
	"verif/internal/gast"
	"verif/internal/gen"
	"verif/internal/model"
)

func init() { register("C02", "exploration", c02) }

// truthy / falsy representatives of several types for condition fields
var truthyVals = []model.Value{model.Bool(true), model.Int(1), model.Int(7), model.Float(0.5), model.Str("a"), model.Arr(model.Int(0))}
var falsyVals = []model.Value{model.Bool(false), model.Int(0), model.Int(-1), model.Float(0), model.Float(-2.5), model.Str(""), model.Arr(), model.Null()}

func condObject(base map[string]model.Value, k int, mask int, r *rand.Rand) map[string]model.Value {
	o := map[string]model.Value{}
	for n, v := range base {
		o[n] = v
	}
	for i := 0; i < k; i++ {
		name := fmt.Sprintf("C%d", i+1)
		if mask&(1<<i) != 0 {
			o[name] = truthyVals[r.Intn(len(truthyVals))]
		} else {
			o[name] = falsyVals[r.Intn(len(falsyVals))]
		}
	}
	return o
}

func c02(c *ev.Ctx) {
	c.SetRule("random structured programs (if/else-if/else, while/for, foreach over array/string/hash/range/variable with optional index, switch with literal/expression/regexp/multi-value arms and default in any position, ternary, return at any depth); every program is run under every truth assignment of its condition fields C1..Ck (fresh evaluator per assignment), optimised and NoOptimize; compared with the reference model on result, host-call trace (unique ids per trace call) and variables left. Distinct = distinct (program, assignment); non-trivial = model defines the outcome and the trace is non-empty or the result non-null.")
	c.Assume("reference model internal/model; value-yielding expression statements inside foreach bodies are a known finding and excluded by the generator")
	n := c.Pick(1000, 40000)
	c.ParFor(n, func(i int) {
		id := fmt.Sprintf("prog/%d", i)
		if !c.Want(id) {
			return
		}
		r := c.Rng("prog", i)
		env := gen.NewEnv(r)
		k := 1 + r.Intn(c.Pick(4, 6))
		pg := &gen.ProgGen{R: r, E: &gen.ExprGen{R: r, Env: env}, CondFields: k, MaxDepth: 2 + r.Intn(c.Pick(2, 4)), MaxStmts: 4, Mutators: r.Intn(3) == 0}
		p := pg.Program()
		script := gast.Text(p)
		noOpt := r.Intn(2) == 0
		if gast.ProgramHasSqrtOfIntConst(p) {
			noOpt = true
		}
		for mask := 0; mask < 1<<k; mask++ {
			obj := condObject(env.Fields, k, mask, r)
			judged := checkProgramAgainstModel(c, id, "structured program", p, env.Vars, []map[string]model.Value{obj}, noOpt)
			mv := modelRuns(p, env.Vars, []map[string]model.Value{obj})
			nontrivial := judged > 0 && (len(mv[0].Trace) > 0 || mv[0].Res != "NULL:null")
			c.Case(fmt.Sprintf("%s|%d|%v", script, mask, noOpt), nontrivial)
			if judged > 0 {
				c.Count("trace_events_checked", len(mv[0].Trace))
			}
		}
		// the same assignments as one history on a single evaluator (variables persist by
		// design; the model carries them too): earlier runs must not disturb later ones
		var seq []map[string]model.Value
		for _, mask := range r.Perm(1 << k) {
			seq = append(seq, condObject(env.Fields, k, mask, r))
		}
		if judged := checkProgramAgainstModel(c, id+"/sequence", "structured program, run sequence on one evaluator", p, env.Vars, seq, noOpt); judged > 0 {
			c.Count("sequence_runs_judged", judged)
		}
		c.SampleEvery(i, func() interface{} { return map[string]interface{}{"script": script, "cond_fields": k} })
	})

	// operand-byte sweep: the last instruction of a branch / loop body / case arm carries
	// an operand that runs through every opcode value (constant-pool position, argument
	// count, literal); exactly the selected statements must still run
	id := func(n string) gast.Expr { return gast.Ident{Name: n} }
	il := func(v int64) gast.Expr { return gast.IntLit{V: v} }
	tr := func(a ...gast.Expr) gast.Stmt { return gast.ExprStmt{X: gast.Call{Fn: "t", Args: a}} }
	type sweep struct {
		name string
		p    gast.Program
	}
	var sweeps []sweep
	for n := 0; n <= 60; n++ {
		var pre []gast.Stmt
		for k := 0; k < n; k++ {
			pre = append(pre, gast.Assign{Name: fmt.Sprintf("k%d", k), X: il(0)})
		}
		args := make([]gast.Expr, n)
		for k := range args {
			args[k] = il(int64(k))
		}
		tails := map[string]gast.Stmt{
			"incdec": gast.IncDec{Name: "cnt", Op: "++"},
			"call":   gast.ExprStmt{X: gast.Call{Fn: "t", Args: args}},
			"lit":    gast.ExprStmt{X: il(int64(n))},
			"assign": gast.Assign{Name: "last", X: il(int64(n))},
			"lookup": gast.ExprStmt{X: id("cnt")},
		}
		for tn, tail := range tails {
			mk := func(body ...gast.Stmt) []gast.Stmt {
				return append(append([]gast.Stmt{}, pre...), append([]gast.Stmt{gast.Assign{Name: "cnt", X: il(5)}}, body...)...)
			}
			sweeps = append(sweeps,
				sweep{fmt.Sprintf("if-else/%s/%d", tn, n), gast.Program{Stmts: mk(gast.If{C: id("Flag"), Then: []gast.Stmt{tr(il(1)), tail}, HasElse: true, Else: []gast.Stmt{tr(il(2)), gast.Assign{Name: "missed", X: gast.BoolLit{V: true}}}}, tr(il(3), id("cnt")), gast.Return{X: id("cnt")})}},
				sweep{fmt.Sprintf("else-if/%s/%d", tn, n), gast.Program{Stmts: mk(gast.If{C: id("Flag"), Then: []gast.Stmt{tail}, HasElse: true, ElseIf: true, Else: []gast.Stmt{gast.If{C: id("Other"), Then: []gast.Stmt{tr(il(2)), tail}, HasElse: true, Else: []gast.Stmt{tr(il(4))}}}}, tr(il(3), id("cnt")))}},
				sweep{fmt.Sprintf("while/%s/%d", tn, n), gast.Program{Stmts: mk(gast.Assign{Name: "w", X: il(2)}, gast.While{C: gast.Infix{Op: ">", L: id("w"), R: il(0)}, Body: []gast.Stmt{gast.IncDec{Name: "w", Op: "--"}, tr(id("w")), tail}}, tr(il(3), id("cnt")))}},
				sweep{fmt.Sprintf("switch/%s/%d", tn, n), gast.Program{Stmts: mk(gast.Switch{X: id("Sel"), Cases: []gast.Case{{Exprs: []gast.Expr{il(1), il(2)}, Body: []gast.Stmt{tr(il(1)), tail}}, {Default: true, Body: []gast.Stmt{tr(il(9)), tail}}, {Exprs: []gast.Expr{il(3)}, Body: []gast.Stmt{tr(il(2)), tail}}}}, tr(il(3), id("cnt")))}},
				sweep{fmt.Sprintf("function/%s/%d", tn, n), gast.Program{Stmts: append([]gast.Stmt{gast.FuncDef{Name: "fn", Params: []string{"q"}, Body: []gast.Stmt{gast.If{C: id("q"), Then: []gast.Stmt{tr(il(1)), tail}, HasElse: true, Else: []gast.Stmt{tr(il(2))}}, tr(il(5))}}}, mk(gast.ExprStmt{X: gast.Call{Fn: "fn", Args: []gast.Expr{id("Flag")}}}, tr(il(3), id("cnt")))...)}})
			if tn != "lit" && tn != "lookup" {
				sweeps = append(sweeps, sweep{fmt.Sprintf("foreach/%s/%d", tn, n), gast.Program{Stmts: mk(gast.Foreach{Idx: "i", Var: "e", It: gast.ArrayLit{Els: []gast.Expr{il(7), il(8)}}, Body: []gast.Stmt{tr(id("i"), id("e")), tail}}, tr(il(3), id("cnt")))}})
			}
		}
	}
	c.ParFor(len(sweeps), func(i int) {
		sw := sweeps[i]
		sid := "opbyte/" + sw.name
		if !c.Want(sid) {
			return
		}
		objs := []map[string]model.Value{
			{"Flag": model.Bool(true), "Other": model.Bool(false), "Sel": model.Int(2)},
			{"Flag": model.Bool(false), "Other": model.Bool(true), "Sel": model.Int(3)},
			{"Flag": model.Int(0), "Other": model.Int(0), "Sel": model.Int(7)}}
		for _, noOpt := range []bool{false, true} {
			judged := checkProgramAgainstModel(c, sid, "operand byte equal to an opcode (control flow)", sw.p, nil, objs, noOpt)
			c.Case(gast.Text(sw.p)+fmt.Sprint(noOpt), judged > 0)
		}
	})
	c02ConstantConditions(c)
	c02ExitHistories(c)
	c02StringElements(c)
	// a hash whose keys print alike (1 and "1", 1.5 and "1.5") is visited entry by entry, each
	// exactly once - the order among such keys is free (oracle shared with C16)
	for ti, h := range c16TieHashes() {
		for prov := 0; prov < 2; prov++ {
			if id := fmt.Sprintf("ties/%d/%d", ti, prov); c.Want(id) {
				c16TieCheck(c, id, h, prov)
			}
		}
	}
	// fixed regression / probe cases
	c02Probes(c)
}

// c02ExitHistories: loops that are left early (return, run-time error) in one run, then
// runs on the same evaluator whose next loop at that depth mentions the abandoned loop's
// names without binding them. Few names, so the roles clash all the time.
func c02ExitHistories(c *ev.Ctx) {
	names := []string{"x", "e", "i", "k"}
	id := func(n string) gast.Expr { return gast.Ident{Name: n} }
	il := func(v int64) gast.Expr { return gast.IntLit{V: v} }
	n := c.Pick(300, 6000)
	c.ParFor(n, func(i int) {
		cid := fmt.Sprintf("exit-history/%d", i)
		if !c.Want(cid) {
			return
		}
		r := c.Rng("exit-history", i)
		tid := int64(0)
		tr := func(a ...gast.Expr) gast.Stmt {
			tid++
			return gast.ExprStmt{X: gast.Call{Fn: "t", Args: append([]gast.Expr{il(tid)}, a...)}}
		}
		container := func() gast.Expr {
			switch r.Intn(4) {
			case 0:
				return gast.ArrayLit{Els: []gast.Expr{il(7), gast.StrLit{V: "s"}, il(9)}}
			case 1:
				return gast.StrLit{V: "héy"}
			case 2:
				return gast.Infix{Op: "..", L: il(1), R: il(3)}
			}
			return gast.HashLit{Keys: []gast.Expr{gast.StrLit{V: "a"}, gast.StrLit{V: "b"}}, Vals: []gast.Expr{il(1), il(2)}}
		}
		loop := func(depth int, leaving bool) gast.Stmt {
			var mk func(d int) gast.Stmt
			mk = func(d int) gast.Stmt {
				f := gast.Foreach{Var: names[r.Intn(len(names))], It: container()}
				if r.Intn(2) == 0 {
					f.Idx = names[r.Intn(len(names))]
					if f.Idx == f.Var {
						f.Idx = ""
					}
				}
				// what the body mentions: any name of the pool, bound here or not
				a, b := names[r.Intn(len(names))], names[r.Intn(len(names))]
				f.Body = append(f.Body, tr(id(a), id(b)))
				if r.Intn(3) == 0 {
					f.Body = append(f.Body, gast.Assign{Name: names[r.Intn(len(names))], X: il(int64(40 + r.Intn(5)))})
				}
				if d > 1 {
					f.Body = append(f.Body, mk(d-1))
				} else if leaving {
					var exit gast.Stmt = gast.Return{X: id(f.Var)}
					if r.Intn(3) == 0 {
						exit = gast.Assign{Name: "boom", X: gast.Infix{Op: "/", L: il(1), R: id("ZERO")}}
					}
					cond := gast.Infix{Op: "&&", L: id("Leave"), R: gast.Infix{Op: "==", L: id("n"), R: il(int64(r.Intn(3)))}}
					f.Body = append(f.Body, gast.If{C: cond, Then: []gast.Stmt{exit}})
				}
				f.Body = append(f.Body, gast.Assign{Name: "n", X: gast.Infix{Op: "+", L: id("n"), R: il(1)}})
				return f
			}
			return mk(depth)
		}
		var p gast.Program
		body := []gast.Stmt{gast.Assign{Name: "n", X: il(0)}}
		d1 := 1 + r.Intn(2)
		if first := loop(d1, true); r.Intn(3) > 0 {
			// a later run may skip the loop that an earlier run abandoned
			body = append(body, gast.If{C: id("Take"), Then: []gast.Stmt{first}})
		} else {
			body = append(body, first)
		}
		body = append(body, tr(id(names[r.Intn(len(names))])))
		body = append(body, loop(1+r.Intn(2), false))
		for _, nm := range names {
			body = append(body, tr(id(nm)))
		}
		if r.Intn(3) == 0 {
			// the loops live in a function called from the top level (or from a loop)
			p.Stmts = append(p.Stmts, gast.FuncDef{Name: "walk", Params: []string{names[r.Intn(len(names))]}, Body: append(body, gast.Return{X: id("n")})})
			call := gast.Assign{Name: "res", X: gast.Call{Fn: "walk", Args: []gast.Expr{il(3)}}}
			if r.Intn(2) == 0 {
				p.Stmts = append(p.Stmts, gast.Foreach{Var: names[r.Intn(len(names))], It: gast.ArrayLit{Els: []gast.Expr{il(1), il(2)}}, Body: []gast.Stmt{call}}, gast.Return{X: id("res")})
			} else {
				p.Stmts = append(p.Stmts, call, gast.Return{X: id("res")})
			}
		} else {
			p.Stmts = append(body, gast.Return{X: id("n")})
		}
		var seq []map[string]model.Value
		for k := 0; k < 5; k++ {
			seq = append(seq, map[string]model.Value{"Leave": model.Bool(k%2 == 0 || r.Intn(3) == 0), "Take": model.Bool(k%2 == 0 || r.Intn(3) == 0), "ZERO": model.Int(0)})
		}
		noOpt := r.Intn(2) == 0
		judged := checkProgramAgainstModel(c, cid, "loop left early, later runs on the same evaluator", p, nil, seq, noOpt)
		c.Case(gast.Text(p)+fmt.Sprint(noOpt), judged > 0)
		if judged > 0 {
			c.Count("exit_history_runs_judged", judged)
		}
		c.SampleEvery(i, func() interface{} { return map[string]interface{}{"script": gast.Text(p), "kind": "exit history"} })
	})
}

func c02Probes(c *ev.Ctx) {
	// known finding: a value-yielding expression statement inside a foreach body
	// breaks the loop (the discarded value is taken for the iterable next round)
	if c.Want("probe:foreach-residue") {
		script := `foreach x in [1,2] { len(x); } return 1;`
		evr, err := eng.New(script, eng.Options{})
		fails, got := err != nil, "prepare error"
		if err == nil {
			o := evr.Exec(nil)
			got = o.Desc() + " " + errText(o.Err)
			fails = o.Desc() != "INTEGER:1"
		}
		c.Probe("foreach-residue", fails, "`"+script+"` should return 1 but gives "+got, map[string]interface{}{"script": script})
	}
	// regression: nested iteration over the same container (D9)
	for i, script := range []string{
		`n = 0; foreach a in "ab" { foreach b in "ab" { n = n + 1; } } return n;`,
		`s = [1,2,3]; n = 0; foreach a in s { foreach b in s { n = n + 1; } } return n;`,
	} {
		id := fmt.Sprintf("regress:nested-same-container/%d", i)
		if !c.Want(id) {
			continue
		}
		want := []string{"INTEGER:4", "INTEGER:9"}[i]
		evr, err := eng.New(script, eng.Options{})
		got := "prepare error"
		if err == nil {
			got = evr.Exec(nil).Desc()
		}
		c.Case(id, true)
		if got != want {
			c.Violation(id, "nested iteration over one container", map[string]interface{}{"summary": fmt.Sprintf("%s gives %s, expected %s", script, got, want), "script": script})
		}
	}
}

// c02ConstantConditions: the same control-flow shapes with conditions the optimizer can
// decide (true, false, 1 == 1, 2 < 1, a folded sum), returns in one arm / both / none, at
// top level and inside a function, with and without an earlier conditional jump.
func c02ConstantConditions(c *ev.Ctx) {
	objs := []map[string]model.Value{{"Flag": model.Bool(true), "Other": model.Bool(false)}, {"Flag": model.Bool(false), "Other": model.Bool(true)}}
	for _, cp := range constCondPrograms() {
		if !c.Want(cp.id) {
			continue
		}
		for _, noOpt := range []bool{false, true} {
			judged := checkProgramAgainstModel(c, cp.id, "control flow under a constant condition", cp.p, nil, objs, noOpt)
			c.Case(gast.Text(cp.p)+fmt.Sprint(noOpt), judged > 0)
		}
	}
}

type constCondProgram struct {
	id string
	p  gast.Program
}

// constCondPrograms builds the constant-condition family (also verified structurally by C18).
func constCondPrograms() []constCondProgram {
	var out []constCondProgram
	id := func(n string) gast.Expr { return gast.Ident{Name: n} }
	il := func(v int64) gast.Expr { return gast.IntLit{V: v} }
	tr := func(k int64, a ...gast.Expr) gast.Stmt {
		return gast.ExprStmt{X: gast.Call{Fn: "t", Args: append([]gast.Expr{il(k)}, a...)}}
	}
	conds := []gast.Expr{gast.BoolLit{V: true}, gast.BoolLit{V: false}, gast.Infix{Op: "==", L: il(1), R: il(1)}, gast.Infix{Op: "<", L: il(2), R: il(1)},
		gast.Infix{Op: "==", L: gast.Infix{Op: "+", L: il(1), R: il(1)}, R: il(2)}, il(1), il(0), gast.Prefix{Op: "!", X: gast.BoolLit{V: true}}, gast.StrLit{V: "x"}, id("Flag")}
	type arm struct {
		name       string
		then, els  []gast.Stmt
		hasElse    bool
		elseIfCond gast.Expr
	}
	ret := func(v int64) gast.Stmt { return gast.Return{X: il(v)} }
	arms := []arm{
		{"return-in-then", []gast.Stmt{tr(1), ret(10)}, []gast.Stmt{tr(2)}, true, nil},
		{"return-in-else", []gast.Stmt{tr(1)}, []gast.Stmt{tr(2), ret(20)}, true, nil},
		{"return-in-both", []gast.Stmt{tr(1), ret(10)}, []gast.Stmt{tr(2), ret(20)}, true, nil},
		{"return-in-neither", []gast.Stmt{tr(1)}, []gast.Stmt{tr(2)}, true, nil},
		{"no-else", []gast.Stmt{tr(1), ret(10)}, nil, false, nil},
		{"no-else-no-return", []gast.Stmt{tr(1)}, nil, false, nil},
		{"empty-then", nil, []gast.Stmt{tr(2), ret(20)}, true, nil},
		{"else-if", []gast.Stmt{tr(1)}, []gast.Stmt{tr(2), ret(20)}, true, id("Other")},
	}
	for ci, cond := range conds {
		for _, a := range arms {
			for variant := 0; variant < 6; variant++ {
				cid := fmt.Sprintf("const-cond/%d/%s/%d", ci, a.name, variant)
				ifs := gast.If{C: cond, Then: a.then, HasElse: a.hasElse, Else: a.els}
				if a.elseIfCond != nil {
					ifs.ElseIf = true
					ifs.Else = []gast.Stmt{gast.If{C: a.elseIfCond, Then: a.els, HasElse: true, Else: []gast.Stmt{tr(5)}}}
				}
				tail := []gast.Stmt{tr(3, id("seen")), gast.Return{X: gast.StrLit{V: "end"}}}
				var body []gast.Stmt
				switch variant {
				case 0: // the if comes first
					body = append([]gast.Stmt{ifs}, tail...)
				case 1: // after plain statements
					body = append([]gast.Stmt{gast.Assign{Name: "seen", X: il(7)}, tr(0), ifs}, tail...)
				case 2: // after an earlier conditional jump
					body = append([]gast.Stmt{gast.If{C: id("Flag"), Then: []gast.Stmt{tr(8)}}, ifs}, tail...)
				case 3: // inside a loop that is left by the return
					body = append([]gast.Stmt{gast.Assign{Name: "w", X: il(2)}, gast.While{C: gast.Infix{Op: ">", L: id("w"), R: il(0)}, Body: []gast.Stmt{gast.IncDec{Name: "w", Op: "--"}, ifs}}}, tail...)
				case 4: // nested in a constant-true if
					body = append([]gast.Stmt{gast.If{C: gast.BoolLit{V: true}, Then: []gast.Stmt{ifs, tr(6)}}}, tail...)
				case 5: // a ternary with the same condition in front
					body = append([]gast.Stmt{gast.Assign{Name: "seen", X: gast.Ternary{C: cond, A: il(1), B: il(2)}}, ifs}, tail...)
				}
				out = append(out, constCondProgram{cid + "/main", gast.Program{Stmts: body}},
					constCondProgram{cid + "/function", gast.Program{Stmts: []gast.Stmt{gast.FuncDef{Name: "fn", Params: []string{"q"}, Body: body}, gast.Assign{Name: "r", X: gast.Call{Fn: "fn", Args: []gast.Expr{il(1)}}}, tr(9, id("r")), gast.Return{X: id("r")}}}})
			}
		}
	}
	return out
}

// c02StringElements: foreach over a string visits every character once, in order, whatever
// the characters are: the replacement character written out, bytes that are not UTF-8
// (one element each, as len and indexing count them), NUL, characters of four bytes and
// combining marks -- given as a literal, a variable, a field and a host function result.
func c02StringElements(c *ev.Ctx) {
	subjects := []string{"", "a", "a\uFFFDb", "\uFFFD", "\uFFFDxyz", "ab\uFFFD", "\uFFFD\uFFFD", "a\xffb", "\xff\xfe", "x\xe2\x82", "\xe2\x82y", "a\x00b",
		"\x00", "🦊x", "e\u0301", "狐犬\uFFFD狐", "\uFFFE", "\U0010FFFF!", "\xc0\x80", "\xed\xa0\x80z", "ok\xf0\x9f\xa6", "tab\there\uFFFDnl\n."}
	for si, s := range subjects {
		for form := 0; form < 4; form++ {
			for _, withIdx := range []bool{false, true} {
				for _, noOpt := range []bool{false, true} {
					id := fmt.Sprintf("string-elements/%d/%d/%v/%v", si, form, withIdx, noOpt)
					if !c.Want(id) {
						continue
					}
					src := "S"
					opt := eng.Options{NoOptimize: noOpt}
					var obj interface{}
					switch form {
					case 0: // literal
						if !utf8.ValidString(s) || strings.ContainsRune(s, 0) {
							continue
						}
						var lit gast.Expr = gast.StrLit{V: s}
						src = gast.ExprText(lit)
					case 1:
						opt.ObjVars = map[string]object.Object{"S": &object.String{Value: s}}
					case 2:
						obj = map[string]interface{}{"S": s}
					case 3:
						src = "give()"
						opt.Funcs = map[string]func(args []object.Object) object.Object{"give": func(args []object.Object) object.Object { return &object.String{Value: s} }}
					}
					loop := "foreach ch in " + src
					call := "t(ch);"
					if withIdx {
						loop = "foreach i, ch in " + src
						call = "t(i, ch);"
					}
					script := "n = 0; " + loop + " { " + call + " n = n + 1; } t(\"end\"); return n;"
					var want []string
					k := 0
					for _, r := range s {
						if withIdx {
							want = append(want, fmt.Sprintf("t(INTEGER:%d, STRING:%s)", k, string(r)))
						} else {
							want = append(want, fmt.Sprintf("t(STRING:%s)", string(r)))
						}
						k++
					}
					want = append(want, "t(STRING:end)")
					wantRes := fmt.Sprintf("INTEGER:%d", k)
					evr, err := eng.New(script, opt)
					c.Case(id, true)
					if err != nil {
						c.Violation(id, "foreach over a string", map[string]interface{}{"summary": fmt.Sprintf("Prepare rejected %q: %v", script, err), "script": script})
						continue
					}
					o := evr.Exec(obj)
					c.Count("string_elements_expected", k)
					if o.Desc() != wantRes || strings.Join(o.Trace, "|") != strings.Join(want, "|") {
						c.Violation(id, "foreach over a string", map[string]interface{}{
							"summary": fmt.Sprintf("foreach over the string %q (form %d, index %v, noopt %v): result %s %s, visits %q; expected %s, visits %q", s, form, withIdx, noOpt, o.Desc(), errText(o.Err), o.Trace, wantRes, want),
							"script":  script, "subject": fmt.Sprintf("%q", s)})
					}
				}
			}
		}
	}
}
