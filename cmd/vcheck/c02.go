package main

import (
	"fmt"
	"math/rand"

	"verif/internal/eng"
	"verif/internal/ev"
	"verif/internal/gast"
	"verif/internal/gen"
	"verif/internal/model"
)

func init() { register("C02", "exploration", c02) }

// truthy / falsy representatives of several types for condition fields
var truthyVals = []model.Value{model.Bool(true), model.Int(1), model.Int(7), model.Float(0.5), model.Str("a"), model.Arr(model.Int(0))}
var falsyVals = []model.Value{model.Bool(false), model.Int(0), model.Int(-1), model.Float(0), model.Float(-2.5), model.Str(""), model.Arr(), model.Null()}

func condObject(base map[string]model.Value, k int, mask int, r *rand.Rand) map[string]model.Value {
	o := map[string]model.Value{}
	for n, v := range base {
		o[n] = v
	}
	for i := 0; i < k; i++ {
		name := fmt.Sprintf("C%d", i+1)
		if mask&(1<<i) != 0 {
			o[name] = truthyVals[r.Intn(len(truthyVals))]
		} else {
			o[name] = falsyVals[r.Intn(len(falsyVals))]
		}
	}
	return o
}

func c02(c *ev.Ctx) {
	c.SetRule("random structured programs (if/else-if/else, while/for, foreach over array/string/hash/range/variable with optional index, switch with literal/expression/regexp/multi-value arms and default in any position, ternary, return at any depth); every program is run under every truth assignment of its condition fields C1..Ck (fresh evaluator per assignment), optimised and NoOptimize; compared with the reference model on result, host-call trace (unique ids per trace call) and variables left. Distinct = distinct (program, assignment); non-trivial = model defines the outcome and the trace is non-empty or the result non-null.")
	c.Assume("reference model internal/model; value-yielding expression statements inside foreach bodies are a known finding and excluded by the generator")
	n := c.Pick(500, 20000)
	c.ParFor(n, func(i int) {
		id := fmt.Sprintf("prog/%d", i)
		if !c.Want(id) {
			return
		}
		r := c.Rng("prog", i)
		env := gen.NewEnv(r)
		k := 1 + r.Intn(c.Pick(4, 6))
		pg := &gen.ProgGen{R: r, E: &gen.ExprGen{R: r, Env: env}, CondFields: k, MaxDepth: 2 + r.Intn(c.Pick(2, 4)), MaxStmts: 4, Mutators: r.Intn(3) == 0}
		p := pg.Program()
		script := gast.Text(p)
		noOpt := r.Intn(2) == 0
		if gast.ProgramHasSqrtOfIntConst(p) {
			noOpt = true
		}
		for mask := 0; mask < 1<<k; mask++ {
			obj := condObject(env.Fields, k, mask, r)
			judged := checkProgramAgainstModel(c, id, "structured program", p, env.Vars, []map[string]model.Value{obj}, noOpt)
			mv := modelRuns(p, env.Vars, []map[string]model.Value{obj})
			nontrivial := judged > 0 && (len(mv[0].Trace) > 0 || mv[0].Res != "NULL:null")
			c.Case(fmt.Sprintf("%s|%d|%v", script, mask, noOpt), nontrivial)
			if judged > 0 {
				c.Count("trace_events_checked", len(mv[0].Trace))
			}
		}
		// the same assignments as one history on a single evaluator (variables persist by
		// design; the model carries them too): earlier runs must not disturb later ones
		var seq []map[string]model.Value
		for _, mask := range r.Perm(1 << k) {
			seq = append(seq, condObject(env.Fields, k, mask, r))
		}
		if judged := checkProgramAgainstModel(c, id+"/sequence", "structured program, run sequence on one evaluator", p, env.Vars, seq, noOpt); judged > 0 {
			c.Count("sequence_runs_judged", judged)
		}
		c.SampleEvery(i, func() interface{} { return map[string]interface{}{"script": script, "cond_fields": k} })
	})

	// fixed regression / probe cases
	c02Probes(c)
}

func c02Probes(c *ev.Ctx) {
	// known finding: a value-yielding expression statement inside a foreach body
	// breaks the loop (the discarded value is taken for the iterable next round)
	if c.Want("probe:foreach-residue") {
		script := `foreach x in [1,2] { len(x); } return 1;`
		evr, err := eng.New(script, eng.Options{})
		fails, got := err != nil, "prepare error"
		if err == nil {
			o := evr.Exec(nil)
			got = o.Desc() + " " + errText(o.Err)
			fails = o.Desc() != "INTEGER:1"
		}
		c.Probe("foreach-residue", fails, "`"+script+"` should return 1 but gives "+got, map[string]interface{}{"script": script})
	}
	// regression: nested iteration over the same container (D9)
	for i, script := range []string{
		`n = 0; foreach a in "ab" { foreach b in "ab" { n = n + 1; } } return n;`,
		`s = [1,2,3]; n = 0; foreach a in s { foreach b in s { n = n + 1; } } return n;`,
	} {
		id := fmt.Sprintf("regress:nested-same-container/%d", i)
		if !c.Want(id) {
			continue
		}
		want := []string{"INTEGER:4", "INTEGER:9"}[i]
		evr, err := eng.New(script, eng.Options{})
		got := "prepare error"
		if err == nil {
			got = evr.Exec(nil).Desc()
		}
		c.Case(id, true)
		if got != want {
			c.Violation(id, "nested iteration over one container", map[string]interface{}{"summary": fmt.Sprintf("%s gives %s, expected %s", script, got, want), "script": script})
		}
	}
}
