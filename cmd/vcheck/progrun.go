package main

import (
	"fmt"
	"sort"
	"strings"

	"verif/internal/eng"
	"verif/internal/ev"
	"verif/internal/gast"
	"verif/internal/model"
)

// runView is what one run of a program showed: result, host-call trace and
// the variables left.
type runView struct {
	Res     string
	Trace   []string
	Globals string
	Skip    string // non-empty: don't-care / budget from this run on
	Steps   int64
	Scope   int
	Panic   bool
}

func (v runView) String() string {
	return fmt.Sprintf("result=%s trace=[%s] vars={%s}", v.Res, strings.Join(v.Trace, " "), v.Globals)
}

func globalsString(g map[string]model.Value) string {
	keys := make([]string, 0, len(g))
	for k := range g {
		keys = append(keys, k)
	}
	sort.Strings(keys)
	var b strings.Builder
	for _, k := range keys {
		b.WriteString(k + "=" + g[k].Describe() + ";")
	}
	return b.String()
}

// modelRuns runs the program once per object on one model evaluator.
func modelRuns(p gast.Program, vars map[string]model.Value, objs []map[string]model.Value) []runView {
	in := model.NewInterp(p)
	for k, v := range vars {
		in.Globals[k] = v
	}
	out := make([]runView, 0, len(objs))
	dead := ""
	for _, o := range objs {
		if dead != "" {
			out = append(out, runView{Skip: dead})
			continue
		}
		in.Trace = nil
		mo := in.Run(p, o)
		if mo.DontCare != "" {
			dead = "dontcare: " + mo.DontCare
			out = append(out, runView{Skip: dead})
			continue
		}
		for _, gv := range in.Globals {
			if gv.DeepHasKeyTies() {
				dead = "dontcare: printing a hash with keys that print alike"
			}
		}
		if dead != "" {
			out = append(out, runView{Skip: dead})
			continue
		}
		rv := runView{Trace: append([]string{}, in.Trace...), Globals: globalsString(in.Globals)}
		if mo.Err {
			rv.Res = "error"
		} else {
			rv.Res = mo.Val.Describe()
		}
		out = append(out, rv)
	}
	return out
}

// engineRuns prepares the script once and runs it once per object.
func engineRuns(script string, opt eng.Options, objs []map[string]model.Value) (views []runView, prepErr error) {
	evr, err := eng.New(script, opt)
	if err != nil {
		return nil, err
	}
	return engineRunsOn(evr, objs), nil
}

func engineRunsOn(evr *eng.Evaluator, objs []map[string]model.Value) []runView {
	var views []runView
	dead := ""
	for _, o := range objs {
		if dead != "" {
			views = append(views, runView{Skip: dead})
			continue
		}
		obj, _ := eng.FieldsToMap(o)
		ob := evr.Exec(obj)
		if ob.Budget {
			dead = "budget"
			views = append(views, runView{Skip: dead})
			continue
		}
		views = append(views, runView{Res: ob.Desc(), Trace: ob.Trace, Globals: evr.GlobalsString(), Steps: ob.Steps, Scope: evr.ScopeDepth(), Panic: ob.Panicked || ob.Nil})
	}
	return views
}

// sameView compares result, trace and variables.
func sameView(a, b runView) bool {
	return a.Res == b.Res && traceEq(a.Trace, b.Trace) && a.Globals == b.Globals
}

// checkProgramAgainstModel runs a program on model and engine over a sequence
// of objects and reports the first disagreement.
func checkProgramAgainstModel(c *ev.Ctx, id, class string, p gast.Program, vars map[string]model.Value, objs []map[string]model.Value, noOpt bool) (judged int) {
	script := gast.Text(p)
	mv := modelRuns(p, vars, objs)
	evs, err := engineRuns(script, eng.Options{NoOptimize: noOpt, Vars: vars}, objs)
	if err != nil {
		c.Violation(id, class+"/prepare", map[string]interface{}{
			"summary": fmt.Sprintf("Prepare rejected a valid program: %v\n%s", err, script), "script": script})
		return 0
	}
	for i := range objs {
		if mv[i].Skip != "" {
			c.Count(dcClass(mv[i].Skip), 1)
			break
		}
		if evs[i].Skip != "" {
			c.Count("skipped/budget", 1)
			break
		}
		judged++
		if !sameView(mv[i], evs[i]) {
			c.Violation(id, class, map[string]interface{}{
				"summary":     fmt.Sprintf("run %d of %d differs from the language definition (noopt=%v)\n  script:   %s\n  object:   %v\n  vars:     %v\n  expected: %s\n  observed: %s", i+1, len(objs), noOpt, script, describeFields(objs[i]), describeFields(vars), mv[i], evs[i]),
				"script":      script,
				"object":      describeFields(objs[i]),
				"vars":        describeFields(vars),
				"run_index":   i,
				"no_optimize": noOpt,
				"expected":    mv[i].String(),
				"observed":    evs[i].String(),
			})
			break
		}
	}
	return judged
}
