package main

import (
	"bytes"
	"encoding/json"
	"fmt"
	"math/rand"
	"os"
	"os/exec"
	"path/filepath"
	"runtime"
	"strings"
	"sync"
	"sync/atomic"
	"time"

	evalfilter "github.com/skx/evalfilter/v2"
	"github.com/skx/evalfilter/v2/object"

	"verif/internal/eng"
	"verif/internal/ev"
	"verif/internal/gast"
	"verif/internal/gen"
	"verif/internal/model"
)

func init() { register("C20", "exploration", c20) }

// value matrix: one object of every type (and interesting values)
func c20Values() []object.Object {
	return []object.Object{
		&object.Integer{Value: 0}, &object.Integer{Value: -7}, &object.Integer{Value: 70000}, &object.Float{Value: 1.5}, &object.Float{Value: 0},
		&object.String{Value: ""}, &object.String{Value: "héllo\n"}, &object.Boolean{Value: true}, &object.Boolean{Value: false}, &object.Null{},
		&object.Array{Elements: []object.Object{}}, &object.Array{Elements: []object.Object{&object.Integer{Value: 1}, &object.String{Value: "a"}}},
		&object.Hash{Pairs: map[object.HashKey]object.HashPair{}},
		eng.ToObject(model.Hash(model.HashEnt{Key: model.Str("k"), Val: model.Int(1)}, model.HashEnt{Key: model.Int(2), Val: model.Str("v")})),
		&object.Regexp{Value: "^a"}, &object.Regexp{Value: ""},
	}
}

func c20(c *ev.Ctx) {
	c.SetRule("front-end differential: (1) Run vs truth of Execute on fresh evaluators for generated scripts/objects; (2) SetVariable / GetVariable round trips for a value of every type; (3) host functions of arity 0-6 and every return type incl. void: called exactly once per call, arguments in order, result is the call's value; (4) NoOptimize switches optimisation off and (via C03's differential, repeated here on a sample) nothing else; (5) random API call orders {SetVariable, AddFunction, Prepare, Run, Execute, GetVariable} against a canonical-order fresh evaluator; (6) the command-line driver built from /repo/cmd/evalfilter: `run [-json f] [-no-optimizer] [-timeout d]` output parsed and compared with Execute on the same decoded JSON document; lex / parse / bytecode / run on hostile scripts and JSON files must terminate by themselves without panic traces. Distinct = distinct case text; all non-trivial.")
	c20RunVsExecute(c)
	c20RunSequences(c)
	c20Variables(c)
	c20HostFunctions(c)
	c20NoOptimize(c)
	c20Orders(c)
	c20RePrepare(c)
	c20CLI(c)
}

func c20RunVsExecute(c *ev.Ctx) {
	n := c.Pick(1500, 60000)
	c.ParFor(n, func(i int) {
		id := fmt.Sprintf("run-exec/%d", i)
		if !c.Want(id) {
			return
		}
		r := c.Rng("runexec", i)
		env := gen.NewEnv(r)
		var script string
		if r.Intn(2) == 0 {
			g := &gen.ExprGen{R: r, Env: env, IllTyped: 10, Calls: true}
			script = exprScript(g.Any(1+r.Intn(3), false), gast.Minimal)
		} else {
			pg := &gen.ProgGen{R: r, E: &gen.ExprGen{R: r, Env: env, Calls: true}, CondFields: 2, MaxDepth: 2, MaxStmts: 3, Funcs: r.Intn(2), Faults: r.Intn(3) == 0}
			script = gast.Text(pg.Program())
		}
		noOpt := r.Intn(2) == 0
		fields := condObject(env.Fields, 2, r.Intn(4), r)
		fields["ZERO"] = model.Int(0)
		for f := 1; f <= 5; f++ {
			fields[fmt.Sprintf("F%d", f)] = model.Bool(r.Intn(5) == 0)
		}
		obj, _ := eng.FieldsToMap(fields)
		a, e1 := eng.New(script, eng.Options{NoOptimize: noOpt, Vars: env.Vars})
		b, e2 := eng.New(script, eng.Options{NoOptimize: noOpt, Vars: env.Vars})
		if e1 != nil || e2 != nil {
			return
		}
		c.Case(script+fmt.Sprint(obj), true)
		res, err := b.E.Execute(obj)
		if strings.Contains(fmt.Sprint(err), eng.ErrBudget.Error()) {
			return
		}
		got, rerr, pan, msg := a.RunBool(obj)
		if pan {
			c.Violation(id, "Run panicked", map[string]interface{}{"summary": "Run panicked: " + msg + "\n  script: " + script, "script": script})
			return
		}
		if (err != nil) != (rerr != nil) {
			c.Violation(id, "Run and Execute disagree on failure", map[string]interface{}{"summary": fmt.Sprintf("Execute err=%v, Run err=%v\n  script: %s", err, rerr, script), "script": script})
			return
		}
		if err == nil {
			want, _ := truthOfObj(res)
			if got != want {
				c.Violation(id, "Run is not the truth of Execute", map[string]interface{}{"summary": fmt.Sprintf("Execute gave %s (truth %v), Run gave %v\n  script: %s", eng.Describe(res), want, got, script), "script": script})
			}
		}
	})
}

func c20Variables(c *ev.Ctx) {
	for vi, v := range c20Values() {
		for _, noOpt := range []bool{false, true} {
			id := fmt.Sprintf("vars/%d/%v", vi, noOpt)
			if !c.Want(id) {
				continue
			}
			c.Case(id, true)
			// SetVariable -> script reads it
			evr, err := eng.New(`y = x; return x;`, eng.Options{NoOptimize: noOpt, ObjVars: map[string]object.Object{"x": eng.CloneObject(v)}})
			if err != nil {
				continue
			}
			o := evr.Exec(nil)
			if o.Desc() != eng.Describe(v) || evr.Var("y") != eng.Describe(v) || evr.Var("x") != eng.Describe(v) {
				c.Violation(id, "SetVariable value not read back", map[string]interface{}{"summary": fmt.Sprintf("SetVariable(x, %s): script returned %s, GetVariable(y)=%s", eng.Describe(v), o.Desc(), evr.Var("y"))})
			}
			// the same when the object has fields of those names: whatever value the variable
			// holds (null, false, empty ...), it is the variable the script reads
			for oi, obj := range []interface{}{map[string]interface{}{"x": "field-x", "y": "field-y"}, struct{ x, X, y string }{"fx", "fX", "fy"}, &struct{ X int }{7}} {
				evr2, err := eng.New(`y = x; return x;`, eng.Options{NoOptimize: noOpt, ObjVars: map[string]object.Object{"x": eng.CloneObject(v)}})
				if err != nil {
					continue
				}
				if o := evr2.Exec(obj); o.Desc() != eng.Describe(v) || evr2.Var("y") != eng.Describe(v) || evr2.Var("x") != eng.Describe(v) {
					c.Violation(id, "SetVariable value not read when the object has a field of that name", map[string]interface{}{"summary": fmt.Sprintf("SetVariable(x, %s), object #%d with a field x: script returned %s, GetVariable(y)=%s GetVariable(x)=%s", eng.Describe(v), oi, o.Desc(), evr2.Var("y"), evr2.Var("x"))})
				}
				b, _, _, _ := evr2.RunBool(obj)
				if want := v.True(); b != want {
					c.Violation(id, "Run differs from the truth of the variable", map[string]interface{}{"summary": fmt.Sprintf("SetVariable(x, %s), object #%d with a field x: Run gives %v, the variable's truth is %v", eng.Describe(v), oi, b, want)})
				}
			}
			if evr.Var("never") != "NULL:null" {
				c.Violation(id, "GetVariable of an unassigned name", map[string]interface{}{"summary": "GetVariable(never) = " + evr.Var("never")})
			}
			// SetVariable after Prepare is seen by the next run; it also overrides a field
			evr.E.SetVariable("x", &object.Integer{Value: 41})
			if got := evr.Exec(map[string]interface{}{"x": "field"}).Desc(); got != "INTEGER:41" {
				c.Violation(id, "SetVariable after Prepare", map[string]interface{}{"summary": "SetVariable after Prepare not visible: " + got})
			}
		}
	}
	// GetVariable returns what the script last assigned
	n := c.Pick(500, 20000)
	c.ParFor(n, func(i int) {
		id := fmt.Sprintf("getvar/%d", i)
		if !c.Want(id) {
			return
		}
		r := c.Rng("getvar", i)
		env := gen.NewEnv(r)
		g := &gen.ExprGen{R: r, Env: env, Calls: true}
		e := g.Any(1+r.Intn(2), false)
		if gast.HasSqrtOfIntConst(e) {
			return
		}
		et := gast.ExprText(e)
		a, e1 := eng.New("return "+et+";", eng.Options{Vars: env.Vars})
		b, e2 := eng.New("res = "+et+"; res2 = res; res = 1; res = "+et+"; return 0;", eng.Options{Vars: env.Vars})
		if e1 != nil || e2 != nil {
			return
		}
		obj, _ := eng.FieldsToMap(env.Fields)
		oa, ob := a.Exec(obj), b.Exec(obj)
		if oa.Err != nil || ob.Err != nil {
			return
		}
		c.Case(et, true)
		if b.Var("res") != oa.Desc() || b.Var("res2") != oa.Desc() {
			c.Violation(id, "GetVariable differs from the assigned value", map[string]interface{}{"summary": fmt.Sprintf("res = %s: Execute gives %s, GetVariable(res) gives %s", et, oa.Desc(), b.Var("res")), "script": et})
		}
	})
}

func c20HostFunctions(c *ev.Ctx) {
	rets := append(c20Values(), &object.Void{})
	for arity := 0; arity <= 6; arity++ {
		for ri, ret := range rets {
			for _, noOpt := range []bool{false, true} {
				id := fmt.Sprintf("hostfn/%d/%d/%v", arity, ri, noOpt)
				if !c.Want(id) {
					continue
				}
				c.Case(id, true)
				var mu sync.Mutex
				var calls [][]string
				hf := func(args []object.Object) object.Object {
					mu.Lock()
					defer mu.Unlock()
					row := make([]string, len(args))
					for i, a := range args {
						row[i] = eng.Describe(a)
					}
					calls = append(calls, row)
					return eng.CloneObject(ret)
				}
				var args, want []string
				for k := 0; k < arity; k++ {
					switch k % 3 {
					case 0:
						args = append(args, fmt.Sprint(10+k))
						want = append(want, fmt.Sprintf("INTEGER:%d", 10+k))
					case 1:
						args = append(args, fmt.Sprintf("\"s%d\"", k))
						want = append(want, fmt.Sprintf("STRING:s%d", k))
					default:
						args = append(args, fmt.Sprintf("A%d", k))
						want = append(want, fmt.Sprintf("FLOAT:%d.5", k))
					}
				}
				call := "hf(" + strings.Join(args, ", ") + ")"
				obj := map[string]interface{}{"A2": 2.5, "A5": 5.5}
				isVoid := ret.Type() == object.VOID
				script := "x = " + call + "; return x;"
				wantRes := eng.Describe(ret)
				if isVoid {
					script = call + "; " + call + "; return 5;"
					wantRes = "INTEGER:5"
				}
				evr, err := eng.New(script, eng.Options{NoOptimize: noOpt, Funcs: map[string]func([]object.Object) object.Object{"hf": hf}})
				if err != nil {
					c.Violation(id, "host function script rejected", map[string]interface{}{"summary": err.Error(), "script": script})
					continue
				}
				o := evr.Exec(obj)
				wantCalls := 1
				if isVoid {
					wantCalls = 2
				}
				ok := o.Desc() == wantRes && len(calls) == wantCalls
				for _, row := range calls {
					if strings.Join(row, ",") != strings.Join(want, ",") {
						ok = false
					}
				}
				if !ok {
					c.Violation(id, "host function call", map[string]interface{}{"summary": fmt.Sprintf("%s: result %s (want %s), calls %v (want %d x %v)", script, o.Desc(), wantRes, calls, wantCalls, want), "script": script})
				}
			}
		}
	}
	// a host function may keep the slice it was given (return it inside an array, log it):
	// later calls must not overwrite it
	if c.Want("hostfn/retained-arguments") {
		for _, noOpt := range []bool{false, true} {
			var kept [][]object.Object
			keep := func(args []object.Object) object.Object {
				kept = append(kept, args)
				return &object.Array{Elements: args}
			}
			script := `a = keep(1, 2); b = keep(3, 4); c2 = keep("p", "q"); d = keep(5); e = keep(len("xyz"), upper("u")); f = uf(7, 8); return [a, b, c2, d, e, f]; function uf(m, n) { return keep(m, n); }`
			evr, err := eng.New(script, eng.Options{NoOptimize: noOpt, Funcs: map[string]func([]object.Object) object.Object{"keep": keep}})
			c.Case("hostfn/retained-arguments"+fmt.Sprint(noOpt), true)
			if err != nil {
				continue
			}
			got := evr.Exec(nil).Desc()
			want := "ARRAY:[[1, 2], [3, 4], [p, q], [5], [3, U], [7, 8]]"
			var log []string
			for _, k := range kept {
				log = append(log, eng.Describe(&object.Array{Elements: k}))
			}
			wantLog := "ARRAY:[1, 2] ARRAY:[3, 4] ARRAY:[p, q] ARRAY:[5] ARRAY:[3, U] ARRAY:[7, 8]"
			if got != want || strings.Join(log, " ") != wantLog {
				c.Violation("hostfn/retained-arguments", "arguments of an earlier call overwritten", map[string]interface{}{"summary": fmt.Sprintf("%s (noopt=%v) gives %s, expected %s; the argument lists the host function kept now read %s", script, noOpt, got, want, strings.Join(log, " ")), "script": script})
			}
		}
	}
	// a host function may use the evaluator's own API (SetVariable / GetVariable /
	// AddFunction) while the script that called it is running: Run and Execute must both
	// come back, with the same answer
	if c.Want("hostfn/reentrant-api") {
		for _, viaRun := range []bool{false, true} {
			for _, noOpt := range []bool{false, true} {
				var evr *eng.Evaluator
				funcs := map[string]func([]object.Object) object.Object{
					"setv": func(a []object.Object) object.Object {
						evr.E.SetVariable(a[0].(*object.String).Value, a[1])
						return &object.Boolean{Value: true}
					},
					"getv": func(a []object.Object) object.Object { return evr.E.GetVariable(a[0].(*object.String).Value) },
					"addf": func(a []object.Object) object.Object {
						evr.E.AddFunction("late", func([]object.Object) object.Object { return &object.Integer{Value: 42} })
						return &object.Boolean{Value: true}
					},
				}
				script := `ok = setv("k", 5); x = getv("k"); ok = addf(); foreach i in 1..3 { ok = setv("n", i); } return x == 5 && k == 5 && getv("n") == 3;`
				var err error
				evr, err = eng.New(script, eng.Options{NoOptimize: noOpt, Funcs: funcs})
				c.Case(fmt.Sprint("hostfn/reentrant-api", viaRun, noOpt), true)
				if err != nil {
					c.Violation("hostfn/reentrant-api", "prepare", map[string]interface{}{"summary": err.Error(), "script": script})
					continue
				}
				done := make(chan string, 1)
				go func() {
					if viaRun {
						b, e, p, m := evr.RunBool(nil)
						done <- fmt.Sprintf("%v err=%v panic=%v %s", b, e, p, m)
					} else {
						o := evr.Exec(nil)
						done <- fmt.Sprintf("%v err=%v panic=%v %s", o.Desc() == "BOOLEAN:true", o.Err, o.Panicked, o.PanicMsg)
					}
				}()
				select {
				case got := <-done:
					if got != "true err=<nil> panic=false " {
						c.Violation("hostfn/reentrant-api", "host function using the evaluator's API", map[string]interface{}{"summary": fmt.Sprintf("%s via %s (noopt=%v) gives %s, expected true", script, apiName(viaRun), noOpt, got), "script": script})
					}
				case <-time.After(60 * time.Second):
					// state-based verdict: is the calling goroutine parked on the evaluator's own lock?
					buf := make([]byte, 4<<20)
					buf = buf[:runtime.Stack(buf, true)]
					blocked := ""
					for _, g := range strings.Split(string(buf), "\n\n") {
						if strings.Contains(g, "sync.(*Mutex).Lock") && strings.Contains(g, "evalfilter/v2.(*Eval).") && (strings.Contains(g, "(*Eval).Run(") || strings.Contains(g, "(*Eval).Execute(")) {
							blocked = g
						}
					}
					if blocked != "" {
						c.Violation("hostfn/reentrant-api", "deadlock: host function using the evaluator's API", map[string]interface{}{"summary": fmt.Sprintf("%s via %s (noopt=%v) never returns: the goroutine is parked in Mutex.Lock below the evaluator's own call\n%s", script, apiName(viaRun), noOpt, clip(blocked, 1500)), "script": script})
					} else {
						c.Inconclusive("hostfn/reentrant-api: no answer within 60 s and no goroutine parked on the evaluator's lock")
					}
				}
			}
		}
	}
	// a name the host registered belongs to the host: a script function of the same name does
	// not replace it (nor does it replace a built-in), whichever is defined first
	if c.Want("hostfn/script-function-of-the-same-name") {
		for vi, script := range []string{
			`function hostf(a) { return "script:" + string(a); } return [hostf(1), hostf(2)];`,
			`x = hostf(1); function hostf(a) { return "script"; } return [x, hostf(2)];`,
			`function hostf(a, b) { return "script"; } return [hostf(1), hostf(2)];`,
			`function hostf() { return "script"; } function other(n) { return hostf(n); } return [other(1), hostf(2)];`,
		} {
			for variant := 0; variant < 4; variant++ {
				noOpt := variant%2 == 1
				late := variant >= 2 // the host registers its function after Prepare (the usual order in the examples)
				calls := 0
				hostf := func(a []object.Object) object.Object {
					calls++
					return &object.String{Value: "host:" + a[0].Inspect()}
				}
				funcs := map[string]func([]object.Object) object.Object{"hostf": hostf}
				if late {
					funcs = nil
				}
				evr, err := eng.New(script, eng.Options{NoOptimize: noOpt, Funcs: funcs})
				c.Case(fmt.Sprint("hostfn/same-name", vi, variant), true)
				if err != nil {
					c.Violation("hostfn/script-function-of-the-same-name", "prepare", map[string]interface{}{"summary": err.Error(), "script": script})
					continue
				}
				if late {
					if vi != 1 {
						// one run with the script's own function first (except where the script
						// calls it with the host's arity only), then the host takes the name over
						evr.Exec(nil)
					}
					evr.E.AddFunction("hostf", hostf)
				}
				o := evr.Exec(nil)
				b, rerr, _, _ := evr.RunBool(nil)
				if o.Desc() != "ARRAY:[host:1, host:2]" || calls != 4 || !b || rerr != nil {
					c.Violation("hostfn/script-function-of-the-same-name", "script function replaces a host function", map[string]interface{}{"summary": fmt.Sprintf("%s (noopt=%v): Execute gives %s %s, Run gives %v err=%v, the host function was called %d times (expected [host:1, host:2], true, 4 calls; registered after Prepare: %v)", script, noOpt, o.Desc(), errText(o.Err), b, rerr, calls, late), "script": script})
				}
			}
		}
	}
	// a host function replaces a built-in of the same name; calls in loops are counted
	if c.Want("hostfn/loop") {
		count := 0
		evr, err := eng.New(`s = 0; foreach i in 1..7 { s = s + len(i); } return s;`, eng.Options{Funcs: map[string]func([]object.Object) object.Object{
			"len": func(a []object.Object) object.Object { count++; return &object.Integer{Value: 100} }}})
		c.Case("hostfn/loop", true)
		if err != nil || evr.Exec(nil).Desc() != "INTEGER:700" || count != 7 {
			c.Violation("hostfn/loop", "host function in a loop", map[string]interface{}{"summary": fmt.Sprintf("host len() called %d times (want 7)", count)})
		}
	}
}

func c20NoOptimize(c *ev.Ctx) {
	if !c.Want("noopt/basic") {
		return
	}
	c.Case("noopt/basic", true)
	a, _ := eng.New(`return 1 + 2;`, eng.Options{})
	b, _ := eng.New(`return 1 + 2;`, eng.Options{NoOptimize: true})
	if a == nil || b == nil || a.MainBytecode() == b.MainBytecode() || !strings.Contains(b.MainBytecode(), "10") {
		c.Violation("noopt/basic", "NoOptimize does not disable optimisation", map[string]interface{}{"summary": "NoOptimize: optimised and unoptimised programs of `return 1 + 2;` are the same"})
	}
	// NoOptimize covers the bodies of user-defined functions as well as the main program:
	// the body of `function three() { return 1 + 2; }` is the code of `return 1 + 2;`
	for _, body := range []string{`return 1 + 2;`, `if (1 == 1) { return 2 * 3; } return 4;`, `x = 10 - 3; return x;`} {
		id := "noopt/function-bodies"
		if !c.Want(id) {
			break
		}
		main, err1 := eng.New(body, eng.Options{NoOptimize: true})
		fn, err2 := eng.New("function three() { "+body+" } return three();", eng.Options{NoOptimize: true})
		fnOpt, err3 := eng.New("function three() { "+body+" } return three();", eng.Options{})
		c.Case(id+body, true)
		if err1 != nil || err2 != nil || err3 != nil {
			continue
		}
		got := fmt.Sprintf("%x", []byte(fn.E.VerifMachine().VerifFunctions()["three"].Bytecode))
		opt := fmt.Sprintf("%x", []byte(fnOpt.E.VerifMachine().VerifFunctions()["three"].Bytecode))
		if got != main.MainBytecode() || got == opt {
			c.Violation(id, "NoOptimize does not cover function bodies", map[string]interface{}{"summary": fmt.Sprintf("function three() { %s } prepared with NoOptimize has the body %s; the same statements as a main program compile to %s, and the optimised body is %s", body, got, main.MainBytecode(), opt), "script": body})
		}
	}
	// the flag of the most recent Prepare decides
	e := evalfilter.New(`return 1 + 2;`)
	e.Prepare()
	d1 := fmt.Sprintf("%x", []byte(e.VerifMachine().VerifBytecode()))
	e.Prepare([]byte{evalfilter.NoOptimize})
	d2 := fmt.Sprintf("%x", []byte(e.VerifMachine().VerifBytecode()))
	c.Case("noopt/reprepare", true)
	if d1 == d2 {
		c.Violation("noopt/reprepare", "NoOptimize ignored by a second Prepare", map[string]interface{}{"summary": "Prepare() followed by Prepare(NoOptimize) on the same evaluator still optimises: " + d2})
	}
}

// random API call orders against a canonical-order fresh evaluator
func c20Orders(c *ev.Ctx) {
	const script = `cnt = cnt + 1; r = hf(a, cnt); if (b) { a = a + Inc; } return [r, a, b, cnt];`
	hfVariants := []func([]object.Object) object.Object{
		func(a []object.Object) object.Object { return a[0] },
		func(a []object.Object) object.Object {
			return &object.String{Value: a[0].Inspect() + ":" + a[1].Inspect()}
		},
		func(a []object.Object) object.Object { return &object.Integer{Value: int64(len(a)) * 100} },
	}
	n := c.Pick(400, 15000)
	c.ParFor(n, func(i int) {
		id := fmt.Sprintf("order/%d", i)
		if !c.Want(id) {
			return
		}
		r := c.Rng("order", i)
		e := evalfilter.New(script)
		vars := map[string]object.Object{}
		hfIdx := -1
		prepared, noOpt := false, false
		var log []string
		fail := func(what string) {
			c.Violation(id, "API order: "+strings.SplitN(what, ":", 2)[0], map[string]interface{}{"summary": what + "\n  calls: " + strings.Join(log, "; "), "calls": log})
		}
		steps := 4 + r.Intn(12)
		for s := 0; s < steps; s++ {
			switch op := r.Intn(8); {
			case op == 0 || (s == 0):
				name := []string{"a", "b", "cnt"}[r.Intn(3)]
				var v object.Object
				switch name {
				case "b":
					v = &object.Boolean{Value: r.Intn(2) == 0}
				default:
					v = &object.Integer{Value: int64(r.Intn(50))}
				}
				e.SetVariable(name, v)
				vars[name] = v
				log = append(log, fmt.Sprintf("SetVariable(%s,%s)", name, v.Inspect()))
			case op == 1 || (s == 1):
				hfIdx = r.Intn(len(hfVariants))
				e.AddFunction("hf", hfVariants[hfIdx])
				log = append(log, fmt.Sprintf("AddFunction(hf#%d)", hfIdx))
			case op == 2 || (s == 2):
				noOpt = r.Intn(2) == 0
				var err error
				if noOpt {
					err = e.Prepare([]byte{evalfilter.NoOptimize})
				} else {
					err = e.Prepare()
				}
				log = append(log, fmt.Sprintf("Prepare(noopt=%v)", noOpt))
				if err != nil {
					fail("Prepare failed: " + err.Error())
					return
				}
				prepared = true
			case op == 3:
				name := []string{"a", "b", "cnt", "r", "zz"}[r.Intn(5)]
				got := eng.Describe(e.GetVariable(name))
				want := "NULL:null"
				if prepared || true {
					if v, ok := e.VerifEnvironment().VerifGlobals()[name]; ok {
						want = eng.Describe(v)
					}
				}
				log = append(log, "GetVariable("+name+")="+got)
				if got != want {
					fail(fmt.Sprintf("GetVariable(%s) = %s, the stored variable is %s", name, got, want))
					return
				}
			default:
				obj := map[string]interface{}{"Inc": r.Intn(5)}
				useRun := r.Intn(2) == 0
				if !prepared {
					// before Prepare: an error, never a panic
					var pan interface{}
					var err error
					func() {
						defer func() { pan = recover() }()
						if useRun {
							_, err = e.Run(obj)
						} else {
							_, err = e.Execute(obj)
						}
					}()
					log = append(log, "run-before-Prepare")
					if pan != nil {
						c.Count("run_before_prepare_panics", 1)
					} else if err == nil {
						fail("Run/Execute before Prepare returned no error")
						return
					}
					continue
				}
				// canonical-order reference
				ref := evalfilter.New(script)
				if hfIdx >= 0 {
					ref.AddFunction("hf", hfVariants[hfIdx])
				}
				for k, v := range e.VerifEnvironment().VerifGlobals() {
					if k != "OPTIMIZE" {
						ref.SetVariable(k, eng.CloneObject(v))
					}
				}
				var rerr error
				if noOpt {
					rerr = ref.Prepare([]byte{evalfilter.NoOptimize})
				} else {
					rerr = ref.Prepare()
				}
				if rerr != nil {
					fail("reference Prepare failed: " + rerr.Error())
					return
				}
				wantObj, wantErr := ref.Execute(obj)
				var gotDesc string
				var gotErr error
				if useRun {
					var b bool
					b, gotErr = e.Run(obj)
					t, _ := truthOfObj(wantObj)
					gotDesc = fmt.Sprint(b)
					log = append(log, "Run="+gotDesc)
					if (gotErr != nil) != (wantErr != nil) || (gotErr == nil && b != t) {
						fail(fmt.Sprintf("Run gave %v err=%v, canonical-order evaluator gives %s err=%v", b, gotErr, eng.Describe(wantObj), wantErr))
						return
					}
				} else {
					var o object.Object
					o, gotErr = e.Execute(obj)
					gotDesc = eng.Describe(o)
					log = append(log, "Execute="+gotDesc)
					if (gotErr != nil) != (wantErr != nil) || (gotErr == nil && gotDesc != eng.Describe(wantObj)) {
						fail(fmt.Sprintf("Execute gave %s err=%v, canonical-order evaluator gives %s err=%v", gotDesc, gotErr, eng.Describe(wantObj), wantErr))
						return
					}
				}
				// variables left agree
				ge, gr := e.VerifEnvironment().VerifGlobals(), ref.VerifEnvironment().VerifGlobals()
				for k, v := range gr {
					if k == "OPTIMIZE" {
						continue
					}
					if eng.Describe(ge[k]) != eng.Describe(v) {
						fail(fmt.Sprintf("variable %s is %s, canonical-order evaluator has %s", k, eng.Describe(ge[k]), eng.Describe(v)))
						return
					}
				}
			}
		}
		c.Case(strings.Join(log, ";"), true)
		c.SampleEvery(i, func() interface{} { return log })
	})
}

// c20RePrepare: the Script field is public, so a host may prepare one evaluator again
// with another script. After a successful re-Prepare it must behave like a fresh
// evaluator of the new script (holding the same variables); after a refused one it must
// keep behaving like the old script; Dump must work either way; the prepared program
// must verify (C18's verifier) in both cases.
// rePrepareStuck is set once a call after a refused Prepare was found parked on the evaluator's lock.
var rePrepareStuck int32

func c20RePrepare(c *ev.Ctx) {
	refused := []string{"1 += 2;", "!true += 1;", "3 = 4;", "x = (1 + ;", "return \"open;", "f() -= 1;", "if (a) { b = 1;", "local q;", "x = 1 @ 2;", "return a ? b ? 1 : 2 : 3;"}
	n := c.Pick(400, 15000)
	c.ParFor(n, func(i int) {
		id := fmt.Sprintf("reprepare/%d", i)
		if !c.Want(id) {
			return
		}
		r := c.Rng("reprepare", i)
		mk := func() (string, *gen.Env) {
			env := gen.NewEnv(r)
			pg := &gen.ProgGen{R: r, E: &gen.ExprGen{R: r, Env: env, Calls: true}, CondFields: 2, MaxDepth: 2, MaxStmts: 3, Funcs: r.Intn(4), Mutators: true}
			return gast.Text(pg.Program()), env
		}
		scriptA, envA := mk()
		scriptB, _ := mk()
		if r.Intn(3) == 0 {
			// B calls a function only A defines
			scriptB = "x = f1(1); return x;"
		}
		wantRefused := r.Intn(3) == 0
		if wantRefused {
			scriptB = refused[r.Intn(len(refused))]
			if r.Intn(4) == 0 {
				// refused not by the parser or compiler but by the size limits: a script that
				// compiles, with a constant pool smaller than the first script's
				scriptB = strings.Repeat([]string{"1 + 1;\n", "x = 2;\n", "t(1);\n"}[r.Intn(3)], 17000+r.Intn(4000))
				switch r.Intn(3) {
				case 0:
					// a main program that is within the limit until its very last statement has
					// been compiled (the compiler's own early exit does not see it; only the
					// final check of Prepare does)
					scriptB = strings.Repeat("a = 1;\n", 9362) + "a = true;"
				case 1:
					// the same for the body of a function
					scriptB = "function big() { " + strings.Repeat("a = 1;\n", 9362) + "a = true; } return 1;"
				}
			}
		}
		noOpt := r.Intn(2) == 0
		obj, _ := eng.FieldsToMap(condObject(envA.Fields, 2, r.Intn(4), r))
		a, err := eng.New(scriptA, eng.Options{Vars: envA.Vars, NoOptimize: noOpt})
		if err != nil {
			return
		}
		a.Exec(obj)
		fail := func(what string) {
			c.Violation(id, "re-Prepare: "+strings.SplitN(what, ":", 2)[0], map[string]interface{}{"summary": what + "\n  first script: " + scriptA + "\n  second script: " + scriptB, "script_a": scriptA, "script_b": scriptB})
		}
		a.E.Script = scriptB
		var perr error
		var pan interface{}
		func() {
			defer func() { pan = recover() }()
			if noOpt {
				perr = a.E.Prepare([]byte{evalfilter.NoOptimize})
			} else {
				perr = a.E.Prepare()
			}
		}()
		c.Case(scriptA+"=>"+scriptB, true)
		if pan != nil {
			fail(fmt.Sprintf("panic in the second Prepare: %v", pan))
			return
		}
		if wantRefused && perr == nil {
			fail("the second Prepare accepted an invalid script")
			return
		}
		current := scriptB
		if perr != nil {
			current = scriptA // the old program must stay in force
			// a script that was refused is refused again, however often Prepare is asked, and the
			// evaluator still answers through Run. (Both take the evaluator's lock: they are made
			// from a goroutine, and a call that does not come back is judged by where it is parked.)
			if atomic.LoadInt32(&rePrepareStuck) != 0 {
				return // already reported once in this run: every further case would wait in vain
			}
			done := make(chan string, 1)
			go func() {
				for again := 2; again <= 3; again++ {
					var perr2 error
					var pan2 interface{}
					func() {
						defer func() { pan2 = recover() }()
						if noOpt {
							perr2 = a.E.Prepare([]byte{evalfilter.NoOptimize})
						} else {
							perr2 = a.E.Prepare()
						}
					}()
					if pan2 != nil {
						done <- fmt.Sprintf("panic in Prepare number %d of a refused script: %v", again, pan2)
						return
					}
					if perr2 == nil {
						done <- fmt.Sprintf("Prepare number %d of a script that was refused before (%v) succeeds", again, perr)
						return
					}
				}
				if _, _, p, m := a.RunBool(obj); p {
					done <- "Run panics after a refused Prepare: " + m
					return
				}
				done <- ""
			}()
			select {
			case msg := <-done:
				if msg != "" {
					fail(msg)
					return
				}
			case <-time.After(60 * time.Second):
				if !atomic.CompareAndSwapInt32(&rePrepareStuck, 0, 1) {
					return
				}
				buf := make([]byte, 8<<20)
				buf = buf[:runtime.Stack(buf, true)]
				for _, g := range strings.Split(string(buf), "\n\n") {
					if strings.Contains(g, "sync.(*Mutex).Lock") && (strings.Contains(g, "evalfilter/v2.(*Eval).Prepare(") || strings.Contains(g, "evalfilter/v2.(*Eval).Run(")) && strings.Contains(g, "c20RePrepare") {
						fail("after a refused Prepare the evaluator's lock is never released: a later Prepare / Run is parked in Mutex.Lock\n" + clip(g, 1200))
						return
					}
				}
				c.Inconclusive("re-Prepare stream: a call made after a refused Prepare has not returned within 60 s and is not parked on the evaluator's lock")
				return
			}
		}
		// Dump must not panic
		func() {
			defer func() { pan = recover() }()
			a.E.Dump()
		}()
		if pan != nil {
			fail(fmt.Sprintf("Dump panics after the second Prepare (err=%v): %v", perr, pan))
			return
		}
		ref, rerr := eng.New(current, eng.Options{NoOptimize: noOpt, NoHook: true})
		if rerr != nil {
			return
		}
		a.CopyVarsTo(ref)
		if da, dr := a.ProgramDump(), ref.ProgramDump(); da != dr {
			fail(fmt.Sprintf("the prepared program differs from a fresh evaluator of the script in force (second Prepare err=%v): %s", perr, diffLine(dr, da)))
			return
		}
		if probs, _ := verifyPrepared(a); len(probs) > 0 {
			fail(fmt.Sprintf("the prepared program is ill-formed after the second Prepare: %v", probs))
			return
		}
		oa := a.E
		resA, errA := oa.Execute(obj)
		resR, errR := ref.E.Execute(obj)
		if strings.Contains(fmt.Sprint(errA, errR), eng.ErrBudget.Error()) {
			return
		}
		if (errA != nil) != (errR != nil) || (errA == nil && eng.Describe(resA) != eng.Describe(resR)) || a.GlobalsString() != ref.GlobalsString() {
			fail(fmt.Sprintf("after the second Prepare (err=%v) the evaluator gives %s err=%v, a fresh evaluator of the script in force gives %s err=%v", perr, eng.Describe(resA), errA, eng.Describe(resR), errR))
		}
	})
}

// ---------------------------------------------------------------- CLI

type cliOut struct {
	kind  string // result | runerr | compileerr | jsonerr | other
	typ   string
	value string
	truth string
	raw   string
}

func parseCLI(out string) cliOut {
	const p = "Script gave result type:"
	if i := strings.LastIndex(out, p); i >= 0 {
		rest := out[i+len(p):]
		vi := strings.Index(rest, " value:")
		wi := strings.LastIndex(rest, " - which is '")
		if vi >= 0 && wi > vi {
			tr := rest[wi+len(" - which is '"):]
			if q := strings.Index(tr, "'"); q >= 0 {
				tr = tr[:q]
			}
			return cliOut{kind: "result", typ: rest[:vi], value: rest[vi+len(" value:") : wi], truth: tr, raw: out}
		}
	}
	switch {
	case strings.Contains(out, "Failed to run script:"):
		return cliOut{kind: "runerr", raw: out}
	case strings.Contains(out, "Error compiling:"):
		return cliOut{kind: "compileerr", raw: out}
	case strings.Contains(out, "Error parsing JSON"):
		return cliOut{kind: "jsonerr", raw: out}
	}
	return cliOut{kind: "other", raw: out}
}

// cliResultLine is the line the driver must print for a result object.
func cliResultLine(res object.Object) string {
	return fmt.Sprintf("Script gave result type:%s value:%s - which is '%t'.\n", res.Type(), res.Inspect(), res.True())
}

func abnormal(out string, err error, timedOut bool) string {
	if timedOut {
		return "did not terminate within the watchdog"
	}
	// what the Go runtime (or the driver's own recover) prints when it dies; matched at
	// the start of a line, because a script's own error text may legitimately contain
	// such words after the "Failed to run script:" prefix
	for _, line := range strings.Split(out, "\n") {
		for _, m := range []string{"panic: ", "Panic at the disco", "fatal error: ", "goroutine 1 [", "[signal SIG"} {
			if strings.HasPrefix(line, m) {
				return "output contains a line starting with " + m
			}
		}
	}
	if ee, ok := err.(*exec.ExitError); ok {
		if ee.ExitCode() < 0 || ee.ExitCode() > 2 {
			return fmt.Sprintf("exit status %d", ee.ExitCode())
		}
	}
	return ""
}

func runCLI(bin string, args ...string) (string, error, bool) {
	cmd := exec.Command(bin, args...)
	var buf bytes.Buffer
	cmd.Stdout, cmd.Stderr = &buf, &buf
	cmd.Env = append(os.Environ(), "TZ=UTC")
	if err := cmd.Start(); err != nil {
		return "", err, false
	}
	done := make(chan error, 1)
	go func() { done <- cmd.Wait() }()
	select {
	case err := <-done:
		return buf.String(), err, false
	case <-time.After(60 * time.Second):
		cmd.Process.Kill()
		<-done
		return buf.String(), nil, true
	}
}

func c20CLI(c *ev.Ctx) {
	work := filepath.Join(ev.Root, "work", fmt.Sprintf("c20-%d", os.Getpid()))
	os.MkdirAll(work, 0o755)
	defer os.RemoveAll(work)
	bin := filepath.Join(work, "evalfilter-cli")
	build := exec.Command("go", "build", "-o", bin, "./cmd/evalfilter")
	build.Dir = repoDir()
	if out, err := build.CombinedOutput(); err != nil {
		c.Inconclusive("cannot build the command-line driver from " + repoDir() + ": " + clip(string(out), 300))
		return
	}
	corpus := loadCorpus()
	n := c.Pick(600, 30000)
	c.ParFor(n, func(i int) {
		id := fmt.Sprintf("cli-run/%d", i)
		if !c.Want(id) {
			return
		}
		r := c.Rng("cli", i)
		env := gen.NewEnv(r)
		var script string
		switch r.Intn(4) {
		case 0:
			g := &gen.ExprGen{R: r, Env: env, IllTyped: 10, Calls: true}
			script = exprScript(g.Any(1+r.Intn(3), false), gast.Minimal)
		case 1:
			script = gen.Mutate(r, corpus)
			if strings.Contains(script, "print") || strings.Contains(script, "now") || strings.Contains(script, "time") || strings.Contains(script, "getenv") {
				script = "return Missing;"
			}
		default:
			pg := &gen.ProgGen{R: r, E: &gen.ExprGen{R: r, Env: env, Calls: true}, CondFields: 2, MaxDepth: 2, MaxStmts: 3, Funcs: r.Intn(2), Faults: r.Intn(3) == 0}
			script = gast.Text(pg.Program())
			// the CLI has no t / v host functions
			script = strings.ReplaceAll(strings.ReplaceAll(script, "t (", "len ("), "v (", "string (")
		}
		sf := filepath.Join(work, fmt.Sprintf("s%d.script", i))
		os.WriteFile(sf, []byte(script), 0o644)
		defer os.Remove(sf)
		args := []string{"run"}
		var doc map[string]interface{}
		jsonBroken := false
		if r.Intn(5) != 0 {
			fields := condObject(env.Fields, 2, r.Intn(4), r)
			fields["ZERO"] = model.Int(0)
			m, _ := eng.FieldsToMap(fields)
			data, _ := json.Marshal(m)
			switch r.Intn(10) {
			case 0:
				data = data[:r.Intn(len(data)+1)]
			case 1:
				data = []byte([]string{"[1,2]", "3", "\"s\"", "null", "", "{", "{\"a\":}", "\x00\xff",
					// a document followed by something else is not a document
					"{\"Count\": 1}\n{\"Count\": 5}", "{\"Count\": 1} }", "{\"Count\": 1} trailing", "{\"Count\": 1}{", "{} []", "{\"a\": 1},", "{\"a\": 1}\n\n  \t", "{\"a\": 1} null", "{\"a\": 1}\x00",
					"{\"a\": 1, \"a\": 2}", "{\"a\": 1e999}", "{\"a\": 01}", "{'a': 1}", "{\"a\": NaN}", "\ufeff{\"a\": 1}"}[r.Intn(23)])
			case 2:
				data = []byte(gen.RandBytes(r, r.Intn(40)))
			}
			jf := filepath.Join(work, fmt.Sprintf("j%d.json", i))
			os.WriteFile(jf, data, 0o644)
			defer os.Remove(jf)
			args = append(args, "-json", jf)
			doc = map[string]interface{}{}
			if err := json.Unmarshal(data, &doc); err != nil {
				jsonBroken = true
			}
		} else {
			doc = map[string]interface{}{}
		}
		noOpt := r.Intn(2) == 0
		if noOpt {
			args = append(args, "-no-optimizer")
		}
		if r.Intn(3) == 0 {
			args = append(args, "-timeout", "30s")
		}
		args = append(args, sf)
		out, err, to := runCLI(bin, args...)
		c.Case(script+strings.Join(args[1:len(args)-1], " "), true)
		if why := abnormal(out, err, to); why != "" {
			c.Violation(id, "CLI run abnormal termination", map[string]interface{}{"summary": fmt.Sprintf("evalfilter %s: %s\n  script: %s\n  output: %s", strings.Join(args, " "), why, clip(script, 300), clip(out, 600)), "script": script})
			return
		}
		got := parseCLI(out)
		if jsonBroken {
			if got.kind != "jsonerr" {
				c.Violation(id, "CLI accepts a broken JSON document", map[string]interface{}{"summary": "broken JSON document not reported: " + clip(out, 300), "script": script})
			}
			return
		}
		// the reference: Execute on the same decoded document, same flags
		e := evalfilter.New(script)
		var perr error
		if noOpt {
			perr = e.Prepare([]byte{evalfilter.NoOptimize})
		} else {
			perr = e.Prepare()
		}
		if perr != nil {
			if got.kind != "compileerr" {
				c.Violation(id, "CLI vs Prepare", map[string]interface{}{"summary": fmt.Sprintf("Prepare fails (%v) but the driver printed: %s", perr, clip(out, 300)), "script": script})
			}
			return
		}
		res, xerr := e.Execute(doc)
		if xerr != nil {
			if got.kind != "runerr" {
				c.Violation(id, "CLI vs Execute error", map[string]interface{}{"summary": fmt.Sprintf("Execute fails (%v) but the driver printed: %s\n  script: %s", xerr, clip(out, 300), script), "script": script})
			}
			return
		}
		// the engine itself may have written diagnostics to standard output while the script
		// ran (an invalid regular expression met at run time, a value it could not reflect):
		// they come before the report, which must still be the first report and exact
		report := out
		if idx := strings.Index(out, "Script gave result"); idx > 0 {
			pre := out[:idx]
			if strings.HasPrefix(pre, "Invalid regular expression ") || strings.HasPrefix(pre, "Failed to reflect on ") || strings.HasPrefix(pre, "Failed to convert ") {
				report = out[idx:]
				c.Count("cli_reports_preceded_by_engine_diagnostics", 1)
			}
		}
		if !strings.HasPrefix(report, cliResultLine(res)) {
			c.Violation(id, "CLI result differs from Execute", map[string]interface{}{
				"summary": fmt.Sprintf("driver printed %q; Execute gives type:%s value:%s truth:%v, so the first line must be %q\n  args: %v\n  script: %s", clip(out, 300), res.Type(), clip(res.Inspect(), 200), res.True(), clip(cliResultLine(res), 300), args[1:], script), "script": script})
		}
		c.SampleEvery(i, func() interface{} {
			return map[string]string{"args": strings.Join(args[1:len(args)-1], " "), "script": clip(script, 300), "driver": clip(strings.TrimSpace(out), 200)}
		})
	})
	// every kind of result value, with characters that matter to a formatter
	hostile := []string{`"50%"`, `"%s %d %v"`, `"100%!"`, `"%"`, `["%s", 3]`, `{"%d": "%%"}`, `sprintf("%d%%", 75)`, `"line1\nline2"`, `"it's"`, `"a - which is 'true'."`, `" value:x"`, `"type:INTEGER"`,
		`"tab\there"`, `"q\"uote"`, `"狐犬 é"`, `""`, `" "`, `0`, `-1`, `70000`, `1.5`, `-0.0`, `true`, `false`, `null`, `[]`, `[1, "a", [2]]`, `{}`, `{"a": {"b": [1]}}`, `/re%s/`, `1 == 1`, `Doc`, `Doc.pct`, `Missing`,
		// literals holding raw line ends and other bytes an editor or a transfer might "normalise"
		"\"one\r\ntwo\"", "len(\"one\r\ntwo\")", "'a\r\nb' == \"a\\r\\nb\"", "\"no\\\r\njoin\"", "\"a\r\nb\" ~= /a\r\nb/", "len(\"lone\rcr\")", "\"lf\nonly\"", "\"tab\tin\"", "len(\"nbsp\u00a0 \")",
		"len(\"\ufeffbom\")", "1 +\r\n 2", "\"trail \"   \r\n", "len(\"\r\n\r\n\")", "len('\n\r')", "len(\" \t \")", "replace(\"a\r\nb\", /\r\n/, \"-\")", "split(\"a\r\nb\", \"\r\n\")", "\"é\u0301 \u2028 \ufffd\"",
		`[1, /a/]`, `{"pat": /eve$/i}`, `[[1, [/x/i]], "y"]`, `[null, [null]]`, `{1: {2.5: [true, null]}}`, `[1.5, -2, "x", /y/, true, null, [], {}]`}
	for hi, hv := range hostile {
		for fi, flags := range [][]string{{}, {"-no-optimizer"}, {"-timeout", "10s"}} {
			id := fmt.Sprintf("cli-value/%d/%d", hi, fi)
			if !c.Want(id) {
				continue
			}
			script := "return " + hv + ";"
			sf := filepath.Join(work, fmt.Sprintf("v%d_%d.script", hi, fi))
			jf := filepath.Join(work, fmt.Sprintf("v%d_%d.json", hi, fi))
			os.WriteFile(sf, []byte(script), 0o644)
			data := []byte(`{"Doc": {"pct": "99%", "n": 1}, "S": "%v"}`)
			os.WriteFile(jf, data, 0o644)
			args := append(append([]string{"run", "-json", jf}, flags...), sf)
			out, err, to := runCLI(bin, args...)
			c.Case(script+strings.Join(flags, " "), true)
			if why := abnormal(out, err, to); why != "" {
				c.Violation(id, "CLI run abnormal termination", map[string]interface{}{"summary": fmt.Sprintf("evalfilter %v: %s: %s", args, why, clip(out, 300)), "script": script})
				continue
			}
			doc := map[string]interface{}{}
			json.Unmarshal(data, &doc)
			e := evalfilter.New(script)
			var perr error
			if len(flags) == 1 {
				perr = e.Prepare([]byte{evalfilter.NoOptimize})
			} else {
				perr = e.Prepare()
			}
			if perr != nil {
				continue
			}
			res, xerr := e.Execute(doc)
			got := parseCLI(out)
			if xerr != nil {
				if got.kind != "runerr" {
					c.Violation(id, "CLI vs Execute error", map[string]interface{}{"summary": fmt.Sprintf("%s: Execute fails (%v), driver printed %s", script, xerr, clip(out, 200)), "script": script})
				}
				continue
			}
			if !strings.HasPrefix(out, cliResultLine(res)) {
				c.Violation(id, "CLI result differs from Execute", map[string]interface{}{
					"summary": fmt.Sprintf("%s %v: driver printed %q, expected it to start with %q", script, flags, clip(out, 300), cliResultLine(res)), "script": script})
			}
		}
	}
	// -timeout stops a runaway script, and does not disturb a finite one
	for ti, tc := range []struct{ script, want string }{{"while (true) { }", "runerr"}, {"function f() { while (1) { } } f();", "runerr"}, {"return 1 + 2;", "result"}} {
		id := fmt.Sprintf("cli-timeout/%d", ti)
		if !c.Want(id) {
			continue
		}
		sf := filepath.Join(work, fmt.Sprintf("t%d.script", ti))
		os.WriteFile(sf, []byte(tc.script), 0o644)
		out, err, to := runCLI(bin, "run", "-timeout", "100ms", sf)
		c.Case(id, true)
		if why := abnormal(out, err, to); why != "" || parseCLI(out).kind != tc.want {
			c.Violation(id, "CLI -timeout", map[string]interface{}{"summary": fmt.Sprintf("run -timeout 100ms on %q: %s %s", tc.script, why, clip(out, 300)), "script": tc.script})
		}
	}
	// lex / parse / bytecode / run terminate normally on hostile input
	m := c.Pick(400, 30000)
	c.ParFor(m, func(i int) {
		id := fmt.Sprintf("cli-sub/%d", i)
		if !c.Want(id) {
			return
		}
		r := c.Rng("clisub", i)
		var script string
		switch r.Intn(5) {
		case 0:
			script = gen.RandBytes(r, r.Intn(100))
		case 1:
			script = gen.TokenSoup(r, 1+r.Intn(25))
		case 2:
			script = gen.Nested(r, 1+r.Intn(300))
		default:
			script = gen.Mutate(r, corpus)
		}
		if strings.Contains(script, "while") || strings.Contains(script, "for") {
			// keep `run` from looping forever without a deadline: that is C09's subject
			script = strings.ReplaceAll(strings.ReplaceAll(script, "while", "if"), "for", "if")
		}
		sf := filepath.Join(work, fmt.Sprintf("h%d.script", i))
		os.WriteFile(sf, []byte(script), 0o644)
		defer os.Remove(sf)
		sub := [][]string{{"lex"}, {"parse"}, {"bytecode"}, {"bytecode", "-no-optimizer"}, {"run", "-timeout", "2s"}, {"run", "-timeout", "2s", "-no-optimizer"}}[r.Intn(6)]
		args := append(append([]string{}, sub...), sf)
		out, err, to := runCLI(bin, args...)
		c.Case(script+sub[0], true)
		if why := abnormal(out, err, to); why != "" {
			c.Violation(id, "CLI "+sub[0]+" abnormal termination", map[string]interface{}{"summary": fmt.Sprintf("evalfilter %s: %s\n  script: %q\n  output: %s", strings.Join(sub, " "), why, clip(script, 300), clip(out, 800)), "script": script})
		}
	})
	_ = rand.Int
}

type c20Record struct {
	Name  string
	Count int
	Kind  string
	Tags  []string
}

// c20RunSequences: a host filters a stream of records through one prepared evaluator with
// Run; some records make the script fail (wrong argument count on a path only they take,
// a division by zero, an unknown function). For every record Run gives exactly the truth
// and the failure of Execute on a fresh evaluator - whatever happened to earlier records.
func c20RunSequences(c *ev.Ctx) {
	scripts := []string{
		`function weigh(a, b) { return a * b; } if (Kind == "odd") { return weigh(Count) > 3; } if (Kind == "zero") { return 10 / (Count - Count) > 1; } return weigh(Count, 2) > 5 && Name ~= /e/;`,
		`function tagged(t1) { foreach x in Tags { if (x == t1) { return true; } } return false; } if (Kind == "odd") { return tagged(); } if (Kind == "zero") { return nosuch(Name); } return tagged("a") || len(Name) > 4;`,
		`function deep(n) { if (n <= 0) { return Count; } return deep(n - 1); } if (Kind == "odd") { return deep(3, 4); } return deep(5) > 2 && !(Name ~= /^z/);`,
	}
	n := c.Pick(120, 3000)
	c.ParFor(n, func(i int) {
		id := fmt.Sprintf("run-sequence/%d", i)
		if !c.Want(id) {
			return
		}
		r := c.Rng("run-sequence", i)
		script := scripts[r.Intn(len(scripts))]
		noOpt := r.Intn(2) == 0
		shared, err := eng.New(script, eng.Options{NoOptimize: noOpt})
		if err != nil {
			return
		}
		byPointer := r.Intn(2) == 0
		for step := 0; step < 8; step++ {
			rec := c20Record{Name: []string{"steve", "zed", "eleanor", "bob", ""}[r.Intn(5)], Count: r.Intn(6), Kind: []string{"plain", "plain", "odd", "zero", "other"}[r.Intn(5)], Tags: [][]string{nil, {"a"}, {"b", "a"}, {"c"}}[r.Intn(4)]}
			var obj interface{} = rec
			if byPointer {
				obj = &rec
			}
			fresh, err := eng.New(script, eng.Options{NoOptimize: noOpt})
			if err != nil {
				return
			}
			want := fresh.Exec(obj)
			got, gerr, pan, _ := shared.RunBool(obj)
			c.Case(fmt.Sprint(id, step), true)
			wantTruth := want.Err == nil && want.Truth
			if pan || (gerr != nil) != (want.Err != nil) || (gerr == nil && got != wantTruth) || (gerr != nil && errText(gerr) != errText(want.Err)) {
				c.Violation(id, "Run on a shared evaluator differs from Execute on a fresh one", map[string]interface{}{
					"summary": fmt.Sprintf("%s (noopt=%v), record %d of the stream %+v: Run gives %v err=%v, Execute on a fresh evaluator gives %s %s", script, noOpt, step+1, rec, got, gerr, want.Desc(), errText(want.Err)), "script": script})
				return
			}
		}
	})
}
