package ev

import (
	"hash/fnv"
	"math/rand"
	"runtime"
	"sync"
)

// Rng returns the PRNG of case idx of stream `stream` of this run. It is a pure
// function of (seed, property, stream, idx) so that a single case replays alone.
func (c *Ctx) Rng(stream string, idx int) *rand.Rand {
	h := fnv.New64a()
	var b [8]byte
	put := func(v uint64) {
		for i := 0; i < 8; i++ {
			b[i] = byte(v >> (8 * i))
		}
		h.Write(b[:])
	}
	put(uint64(c.Seed))
	h.Write([]byte(c.Prop))
	h.Write([]byte{0})
	h.Write([]byte(stream))
	h.Write([]byte{0})
	put(uint64(idx))
	return rand.New(rand.NewSource(int64(h.Sum64())))
}

// Workers is the number of goroutines ParFor uses.
var Workers = runtime.NumCPU()

// ParFor runs f(i) for i in [0,n) on Workers goroutines. It stops handing out
// new indexes once the context has recorded MaxVio distinct violations.
func (c *Ctx) ParFor(n int, f func(i int)) {
	var wg sync.WaitGroup
	var mu sync.Mutex
	next := 0
	w := Workers
	if w > n {
		w = n
	}
	for k := 0; k < w; k++ {
		wg.Add(1)
		go func() {
			defer wg.Done()
			for {
				mu.Lock()
				i := next
				next++
				mu.Unlock()
				if i >= n {
					return
				}
				c.mu.Lock()
				// (enough distinct kinds of violation, or a storm of one kind: the verdict stands,
				// the remaining cases would only make a broken tree cost more time)
				stop := len(c.vioSeen) >= c.MaxVio || c.violations >= 2000
				c.mu.Unlock()
				if stop {
					return
				}
				f(i)
			}
		}()
	}
	wg.Wait()
}
