// Package ev holds the verdict / evidence plumbing shared by every check:
// case counting, distinct-nontrivial accounting, violation + replay files,
// known-finding probes, inconclusive verdicts, evidence JSON.
package ev

import (
	"bufio"
	"encoding/json"
	"fmt"
	"hash/fnv"
	"os"
	"path/filepath"
	"sort"
	"strconv"
	"strings"
	"sync"
	"time"
)

// Out is where the checks print (the real standard output; the driver points
// os.Stdout at /dev/null so that the engine's own prints do not interleave).
var Out = os.Stdout

// Root is the /verif directory (the working directory of every check).
var Root = func() string {
	if r := os.Getenv("VERIF_ROOT"); r != "" {
		return r
	}
	wd, _ := os.Getwd()
	return wd
}()

// Ctx is the per-run context of one property check.
type Ctx struct {
	Prop  string
	Tier  string
	Seed  int64
	Level string
	Only  string // VERIF_ONLY: run only the case with this id (replay)

	start time.Time

	mu         sync.Mutex
	evals      int64
	distinct   map[uint64]struct{}
	samples    []interface{}
	sampleCap  int
	extras     map[string]interface{}
	counters   map[string]int64
	violations int
	vioSeen    map[string]bool
	inconcl    []string
	known      map[string]string // probe name -> description (listed as known)
	knownHit   []string
	assume     []string
	rule       string
	MaxVio     int
}

// Thorough reports whether the tier is "thorough".
func (c *Ctx) Thorough() bool { return c.Tier == "thorough" }

// Pick returns q for the quick tier and t for thorough. Case counts (q >= 300) of the
// quick tier are multiplied by four: the quick streams were sized when each check took
// about a second, and several seeded changes were caught at some seeds only; the case at
// index i is the same in both tiers, so the quick set stays a prefix of the thorough one.
func (c *Ctx) Pick(q, t int) int {
	if c.Thorough() {
		return t
	}
	if q >= 300 && t > q {
		if q *= 4; q > t {
			q = t
		}
	}
	return q
}

// New creates the context from the environment (VERIF_SEED, VERIF_ONLY).
func New(prop, tier, level string) *Ctx {
	seed := int64(1)
	if s := os.Getenv("VERIF_SEED"); s != "" {
		if v, err := strconv.ParseInt(s, 10, 64); err == nil {
			seed = v
		}
	}
	if t := os.Getenv("VERIF_TIER"); t != "" && tier == "" {
		tier = t
	}
	if tier != "thorough" {
		tier = "quick"
	}
	c := &Ctx{Prop: prop, Tier: tier, Seed: seed, Level: level, Only: os.Getenv("VERIF_ONLY"),
		start: time.Now(), distinct: map[uint64]struct{}{}, extras: map[string]interface{}{},
		counters: map[string]int64{}, vioSeen: map[string]bool{}, known: map[string]string{},
		sampleCap: 12, MaxVio: 10}
	c.loadKnown()
	return c
}

func (c *Ctx) loadKnown() {
	f, err := os.Open(filepath.Join(Root, "KNOWN_FINDINGS.txt"))
	if err != nil {
		return
	}
	defer f.Close()
	sc := bufio.NewScanner(f)
	sc.Buffer(make([]byte, 1<<20), 1<<20)
	for sc.Scan() {
		line := strings.TrimSpace(sc.Text())
		if !strings.HasPrefix(line, "known:") {
			continue
		}
		rest := strings.TrimSpace(strings.TrimPrefix(line, "known:"))
		fields := strings.Fields(rest)
		var prop, probe string
		for _, f := range fields {
			if strings.HasPrefix(f, "property=") {
				prop = strings.TrimPrefix(f, "property=")
			}
			if strings.HasPrefix(f, "probe=") {
				probe = strings.TrimPrefix(f, "probe=")
			}
		}
		if prop == c.Prop && probe != "" {
			desc := rest
			if i := strings.Index(rest, "|"); i >= 0 {
				desc = strings.TrimSpace(rest[i+1:])
			}
			c.known[probe] = desc
		}
	}
}

// Want reports whether the case with this id should run (replay filter).
func (c *Ctx) Want(id string) bool { return c.Only == "" || c.Only == id }

// SetRule records how cases are generated and what makes one non-trivial.
func (c *Ctx) SetRule(r string) { c.rule = r }

// Assume records an assumption / trusted-base statement.
func (c *Ctx) Assume(s string) {
	c.mu.Lock()
	c.assume = append(c.assume, s)
	c.mu.Unlock()
}

// Case counts one evaluated case. canon is the canonical text of the case
// (used for distinctness); nontrivial says whether it counts as non-trivial.
func (c *Ctx) Case(canon string, nontrivial bool) {
	h := fnv.New64a()
	h.Write([]byte(canon))
	k := h.Sum64()
	c.mu.Lock()
	c.evals++
	if nontrivial {
		c.distinct[k] = struct{}{}
	}
	c.mu.Unlock()
}

// Evals adds n to the evaluation count without distinctness accounting.
func (c *Ctx) Evals(n int) {
	c.mu.Lock()
	c.evals += int64(n)
	c.mu.Unlock()
}

// Count bumps a named counter that is reported under coverage.counters.
func (c *Ctx) Count(name string, n int) {
	c.mu.Lock()
	c.counters[name] += int64(n)
	c.mu.Unlock()
}

// Counter reads a named counter.
func (c *Ctx) Counter(name string) int64 {
	c.mu.Lock()
	defer c.mu.Unlock()
	return c.counters[name]
}

// Sample keeps up to sampleCap actual cases for the evidence file.
func (c *Ctx) Sample(s interface{}) {
	c.mu.Lock()
	if len(c.samples) < c.sampleCap {
		c.samples = append(c.samples, s)
	}
	c.mu.Unlock()
}

// SampleEvery keeps the case as a sample when idx hits a sparse schedule.
func (c *Ctx) SampleEvery(idx int, s func() interface{}) {
	if idx < 3 || idx%997 == 0 {
		c.Sample(s())
	}
}

// Extra stores an additional coverage key.
func (c *Ctx) Extra(k string, v interface{}) {
	c.mu.Lock()
	c.extras[k] = v
	c.mu.Unlock()
}

// Violations returns the number of violations reported so far.
func (c *Ctx) Violations() int {
	c.mu.Lock()
	defer c.mu.Unlock()
	return c.violations
}

// Violation records a violation: writes a replay file and prints the
// VIOLATION line.  id is the case id (used for VERIF_ONLY replay); class is a
// short de-duplication key so one root cause does not print thousands of lines.
func (c *Ctx) Violation(id, class string, detail map[string]interface{}) {
	c.mu.Lock()
	defer c.mu.Unlock()
	c.violations++
	if c.vioSeen[class] || len(c.vioSeen) >= c.MaxVio {
		return
	}
	c.vioSeen[class] = true
	if detail == nil {
		detail = map[string]interface{}{}
	}
	detail["property"] = c.Prop
	detail["case_id"] = id
	detail["class"] = class
	detail["seed"] = c.Seed
	detail["tier"] = c.Tier
	detail["replay_cmd"] = fmt.Sprintf("VERIF_SEED=%d VERIF_ONLY=%q ./check %s %s", c.Seed, id, c.Prop, c.Tier)
	dir := filepath.Join(Root, "replay")
	os.MkdirAll(dir, 0o755)
	name := fmt.Sprintf("%s-%s-%d-%d.json", c.Prop, c.Tier, c.Seed, len(c.vioSeen))
	p := filepath.Join(dir, name)
	b, _ := json.MarshalIndent(detail, "", " ")
	os.WriteFile(p, b, 0o644)
	fmt.Fprintf(Out, "VIOLATION property=%s replay=%s\n", c.Prop, p)
	if s, ok := detail["summary"]; ok {
		fmt.Fprintf(Out, "  %v\n", strings.ReplaceAll(fmt.Sprint(s), "\x00", "\\x00"))
	}
}

// Probe runs a fixed case that is (or was) a known defect. fails reports
// whether the defect shows. If it fails and the probe is listed as known in
// KNOWN_FINDINGS.txt a KNOWN-FINDING line is printed; if it fails and is not
// listed it is an ordinary violation; if it passes nothing is printed.
func (c *Ctx) Probe(name string, fails bool, what string, detail map[string]interface{}) {
	c.Case("probe:"+name, true)
	if !fails {
		return
	}
	c.mu.Lock()
	desc, listed := c.known[name]
	c.mu.Unlock()
	if listed {
		if desc == "" {
			desc = what
		}
		fmt.Fprintf(Out, "KNOWN-FINDING: property=%s probe=%s %s\n", c.Prop, name, desc)
		c.mu.Lock()
		c.knownHit = append(c.knownHit, name)
		c.mu.Unlock()
		return
	}
	if detail == nil {
		detail = map[string]interface{}{}
	}
	detail["summary"] = what
	c.Violation("probe:"+name, "probe:"+name, detail)
}

// IsKnown reports whether a probe name is listed as a known finding.
func (c *Ctx) IsKnown(name string) bool {
	c.mu.Lock()
	defer c.mu.Unlock()
	_, ok := c.known[name]
	return ok
}

// Inconclusive records a reason why this run cannot decide.
func (c *Ctx) Inconclusive(why string) {
	c.mu.Lock()
	c.inconcl = append(c.inconcl, why)
	c.mu.Unlock()
}

// Finish writes the evidence file and returns the process exit code:
// 0 held, 1 violated, 3 inconclusive.
func (c *Ctx) Finish() int {
	c.mu.Lock()
	defer c.mu.Unlock()
	cov := map[string]interface{}{}
	for k, v := range c.extras {
		cov[k] = v
	}
	cov["evaluations"] = c.evals
	cov["distinct_nontrivial"] = len(c.distinct)
	cov["rule"] = c.rule
	if len(c.samples) == 0 {
		c.samples = append(c.samples, "no sample recorded")
	}
	cov["samples"] = c.samples
	if len(c.counters) > 0 {
		keys := make([]string, 0, len(c.counters))
		for k := range c.counters {
			keys = append(keys, k)
		}
		sort.Strings(keys)
		m := map[string]int64{}
		for _, k := range keys {
			m[k] = c.counters[k]
		}
		cov["counters"] = m
	}
	if len(c.knownHit) > 0 {
		cov["known_findings_hit"] = c.knownHit
	}
	if len(c.inconcl) > 0 {
		cov["inconclusive"] = c.inconcl
	}
	verdict := "held_on_observed"
	code := 0
	if c.violations > 0 {
		verdict, code = "violated", 1
	} else if len(c.inconcl) > 0 {
		verdict, code = "inconclusive", 3
	}
	cov["verdict"] = verdict
	out := map[string]interface{}{
		"property_id": c.Prop,
		"tier":        c.Tier,
		"seed":        c.Seed,
		"level":       c.Level,
		"coverage":    cov,
		"assumptions": c.assume,
		"wall_s":      time.Since(c.start).Seconds(),
		"violations":  c.violations,
	}
	if c.assume == nil {
		out["assumptions"] = []string{}
	}
	if c.Only == "" && os.Getenv("VERIF_NO_EVIDENCE") == "" {
		b, _ := json.MarshalIndent(out, "", " ")
		os.MkdirAll(filepath.Join(Root, "evidence"), 0o755)
		os.WriteFile(filepath.Join(Root, "evidence", c.Prop+".json"), b, 0o644)
	}
	for _, w := range c.inconcl {
		fmt.Fprintf(Out, "INCONCLUSIVE property=%s %s\n", c.Prop, w)
	}
	fmt.Fprintf(Out, "%s %s tier=%s seed=%d evaluations=%d distinct_nontrivial=%d violations=%d wall=%.1fs\n",
		c.Prop, verdict, c.Tier, c.Seed, c.evals, len(c.distinct), c.violations, time.Since(c.start).Seconds())
	return code
}
