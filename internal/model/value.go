// Package model is the checker's reference definition of the evalfilter
// language. It imports nothing from the engine under test. Behaviour that
// neither the properties nor the documentation fix is reported as DontCare
// rather than guessed.
package model

import (
	"math"
	"sort"
	"strconv"
	"strings"
)

// Kind is the type of a value.
type Kind int

const (
	KNull Kind = iota
	KInt
	KFloat
	KStr
	KBool
	KArr
	KHash
	KRegex
	KVoid
)

// TypeName is the engine's upper-case type name for a kind.
func (k Kind) TypeName() string {
	switch k {
	case KNull:
		return "NULL"
	case KInt:
		return "INTEGER"
	case KFloat:
		return "FLOAT"
	case KStr:
		return "STRING"
	case KBool:
		return "BOOLEAN"
	case KArr:
		return "ARRAY"
	case KHash:
		return "HASH"
	case KRegex:
		return "REGEXP"
	case KVoid:
		return "VOID"
	}
	return "?"
}

// HashEnt is one key/value pair of a hash.
type HashEnt struct {
	Key Value
	Val Value
}

// Value is a model value. Values are immutable once built.
type Value struct {
	K Kind
	I int64
	F float64
	S string // string contents, or regexp pattern including "(?flags)" prefix
	B bool
	A []Value
	H []HashEnt // in insertion order; lookups are linear (hashes are small)
}

func Null() Value             { return Value{K: KNull} }
func Int(i int64) Value       { return Value{K: KInt, I: i} }
func Float(f float64) Value   { return Value{K: KFloat, F: f} }
func Str(s string) Value      { return Value{K: KStr, S: s} }
func Bool(b bool) Value       { return Value{K: KBool, B: b} }
func Arr(a ...Value) Value    { return Value{K: KArr, A: append([]Value{}, a...)} }
func Regex(p string) Value    { return Value{K: KRegex, S: p} }
func Void() Value             { return Value{K: KVoid} }
func Hash(e ...HashEnt) Value { return Value{K: KHash, H: append([]HashEnt{}, e...)} }

// Print is the printed form of a value.
func (v Value) Print() string {
	switch v.K {
	case KNull:
		return "null"
	case KInt:
		return strconv.FormatInt(v.I, 10)
	case KFloat:
		return strconv.FormatFloat(v.F, 'f', -1, 64)
	case KStr, KRegex:
		return v.S
	case KBool:
		if v.B {
			return "true"
		}
		return "false"
	case KArr:
		parts := make([]string, len(v.A))
		for i, e := range v.A {
			parts[i] = e.Print()
		}
		return "[" + strings.Join(parts, ", ") + "]"
	case KHash:
		ents := v.SortedEntries()
		parts := make([]string, len(ents))
		for i, e := range ents {
			parts[i] = e.Key.Print() + ": " + e.Val.Print()
		}
		return "{" + strings.Join(parts, ", ") + "}"
	case KVoid:
		return "void"
	}
	return "?"
}

// SortedEntries returns the entries ordered by the printed form of the key
// (ties - keys of different types printing alike - in a fixed but arbitrary
// order; callers that care must check HasKeyTies).
func (v Value) SortedEntries() []HashEnt {
	out := append([]HashEnt{}, v.H...)
	sort.SliceStable(out, func(i, j int) bool {
		a, b := out[i].Key.Print(), out[j].Key.Print()
		if a != b {
			return a < b
		}
		return out[i].Key.K < out[j].Key.K
	})
	return out
}

// HasKeyTies reports whether two keys of the hash print alike.
func (v Value) HasKeyTies() bool {
	seen := map[string]bool{}
	for _, e := range v.H {
		p := e.Key.Print()
		if seen[p] {
			return true
		}
		seen[p] = true
	}
	return false
}

// DeepHasKeyTies looks through nested containers.
func (v Value) DeepHasKeyTies() bool {
	switch v.K {
	case KArr:
		for _, e := range v.A {
			if e.DeepHasKeyTies() {
				return true
			}
		}
	case KHash:
		if v.HasKeyTies() {
			return true
		}
		for _, e := range v.H {
			if e.Val.DeepHasKeyTies() {
				return true
			}
		}
	}
	return false
}

// Truthy is the single notion of truth of property C05.
func (v Value) Truthy() bool {
	switch v.K {
	case KInt:
		return v.I > 0
	case KFloat:
		return v.F > 0
	case KStr, KRegex:
		return v.S != ""
	case KBool:
		return v.B
	case KArr:
		return len(v.A) > 0
	case KHash:
		return len(v.H) > 0
	}
	return false
}

// Hashable reports whether the value can be a hash key.
func (v Value) Hashable() bool { return v.K == KInt || v.K == KFloat || v.K == KStr }

// SameKey reports key identity: same type and same value.
func SameKey(a, b Value) bool {
	if a.K != b.K {
		return false
	}
	switch a.K {
	case KInt:
		return a.I == b.I
	case KFloat:
		return a.Print() == b.Print()
	case KStr:
		return a.S == b.S
	}
	return false
}

// HashGet looks a key up.
func (v Value) HashGet(k Value) (Value, bool) {
	for _, e := range v.H {
		if SameKey(e.Key, k) {
			return e.Val, true
		}
	}
	return Null(), false
}

// Equal is structural equality of type and printed form (used by traces).
func Equal(a, b Value) bool { return a.K == b.K && a.Print() == b.Print() }

// IsFiniteNumber reports whether a float is finite.
func IsFiniteNumber(f float64) bool { return !math.IsNaN(f) && !math.IsInf(f, 0) }

// Describe renders "TYPE:printed" for reports.
func (v Value) Describe() string { return v.K.TypeName() + ":" + v.Print() }
