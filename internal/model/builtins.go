package model

import (
	"regexp"
	"sort"
	"strconv"
	"strings"
	"unicode/utf8"
)

type builtinFn func(in *Interp, args []Value) Value

// unmodelled built-ins: the general model makes no claim about them (the
// C17 / C10 checks have their own oracles).
var unmodelled = map[string]bool{"print": true, "printf": true, "sprintf": true, "now": true, "time": true, "getenv": true,
	"hour": true, "minute": true, "seconds": true, "day": true, "month": true, "year": true, "weekday": true}

// BuiltinNames lists the built-ins the model implements.
func BuiltinNames() []string {
	var out []string
	for k := range builtins {
		out = append(out, k)
	}
	sort.Strings(out)
	return out
}

// IsBuiltin reports whether name is a documented built-in (modelled or not).
func IsBuiltin(name string) bool { return builtins[name] != nil || unmodelled[name] }

func (in *Interp) printOf(v Value) string {
	if v.DeepHasKeyTies() {
		in.dc("printing a hash with keys that print alike")
	}
	s := v.Print()
	if !utf8.ValidString(s) {
		in.dc("invalid UTF-8")
	}
	return s
}

var builtins map[string]builtinFn

func init() {
	builtins = map[string]builtinFn{
		"len": func(in *Interp, a []Value) Value {
			if len(a) != 1 {
				return Null()
			}
			switch a[0].K {
			case KArr:
				return Int(int64(len(a[0].A)))
			case KHash:
				return Int(int64(len(a[0].H)))
			}
			return Int(int64(utf8.RuneCountInString(in.printOf(a[0]))))
		},
		"type": func(in *Interp, a []Value) Value {
			if len(a) != 1 {
				return Null()
			}
			return Str(strings.ToLower(a[0].K.TypeName()))
		},
		"string": func(in *Interp, a []Value) Value {
			if len(a) != 1 {
				return Null()
			}
			return Str(in.printOf(a[0]))
		},
		"int": func(in *Interp, a []Value) Value {
			if len(a) != 1 {
				return Null()
			}
			i, err := strconv.ParseInt(in.printOf(a[0]), 10, 64)
			if err != nil {
				return Null()
			}
			return Int(i)
		},
		"float": func(in *Interp, a []Value) Value {
			if len(a) != 1 {
				return Null()
			}
			f, err := strconv.ParseFloat(in.printOf(a[0]), 64)
			if err != nil {
				return Null()
			}
			return in.finite(f)
		},
		"lower": func(in *Interp, a []Value) Value {
			if len(a) != 1 {
				return Null()
			}
			return Str(strings.ToLower(in.printOf(a[0])))
		},
		"upper": func(in *Interp, a []Value) Value {
			if len(a) != 1 {
				return Null()
			}
			return Str(strings.ToUpper(in.printOf(a[0])))
		},
		"trim": func(in *Interp, a []Value) Value {
			if len(a) != 1 {
				return Null()
			}
			return Str(strings.TrimSpace(in.printOf(a[0])))
		},
		"min": func(in *Interp, a []Value) Value { return minmax(in, a, false) },
		"max": func(in *Interp, a []Value) Value { return minmax(in, a, true) },
		"between": func(in *Interp, a []Value) Value {
			if len(a) != 3 {
				return Null()
			}
			for _, x := range a {
				if !isNum(x) {
					return Null()
				}
			}
			v, lo, hi := toF(a[0]), toF(a[1]), toF(a[2])
			if a[0].K == KInt && a[1].K == KInt && a[2].K == KInt {
				return Bool(a[1].I <= a[0].I && a[0].I <= a[2].I)
			}
			return Bool(lo <= v && v <= hi)
		},
		"keys": func(in *Interp, a []Value) Value {
			if len(a) != 1 || a[0].K != KHash {
				return Null()
			}
			if a[0].HasKeyTies() {
				in.dc("key order among keys that print alike")
			}
			var out []Value
			for _, e := range a[0].SortedEntries() {
				out = append(out, e.Key)
			}
			return Value{K: KArr, A: out}
		},
		"join": func(in *Interp, a []Value) Value {
			if len(a) != 2 || a[0].K != KArr || a[1].K != KStr {
				return Null()
			}
			parts := make([]string, len(a[0].A))
			for i, e := range a[0].A {
				parts[i] = in.printOf(e)
			}
			return Str(strings.Join(parts, a[1].S))
		},
		"split": func(in *Interp, a []Value) Value {
			if len(a) != 2 || a[0].K != KStr || a[1].K != KStr {
				return Null()
			}
			if !utf8.ValidString(a[0].S) || !utf8.ValidString(a[1].S) {
				in.dc("invalid UTF-8")
			}
			var out []Value
			for _, p := range strings.Split(a[0].S, a[1].S) {
				out = append(out, Str(p))
			}
			return Value{K: KArr, A: out}
		},
		"sort":    func(in *Interp, a []Value) Value { return sortModel(in, a, false) },
		"reverse": func(in *Interp, a []Value) Value { return sortModel(in, a, true) },
		"match": func(in *Interp, a []Value) Value {
			if len(a) != 2 {
				return Bool(false)
			}
			return Bool(in.regexMatch(in.printOf(a[0]), in.printOf(a[1])))
		},
		"replace": func(in *Interp, a []Value) Value {
			if len(a) != 3 {
				return Null()
			}
			r, err := regexp.Compile(in.printOf(a[1]))
			if err != nil {
				in.dc("invalid regular expression")
			}
			return Str(string(r.ReplaceAll([]byte(in.printOf(a[0])), []byte(in.printOf(a[2])))))
		},
		"panic": func(in *Interp, a []Value) Value {
			in.fail("panic() called")
			return Null()
		},
	}
}

func minmax(in *Interp, a []Value, max bool) Value {
	if len(a) != 2 {
		return Null()
	}
	if !isNum(a[0]) || !isNum(a[1]) {
		in.dc("min/max of non-numbers")
	}
	x, y := a[0], a[1]
	var less, eq bool
	if x.K == KInt && y.K == KInt {
		less, eq = x.I < y.I, x.I == y.I
	} else {
		less, eq = toF(x) < toF(y), toF(x) == toF(y)
	}
	if eq {
		if x.K != y.K {
			in.dc("min/max of numerically equal numbers of different types")
		}
		return x
	}
	if less != max {
		return x
	}
	return y
}

func sortModel(in *Interp, a []Value, rev bool) Value {
	if len(a) != 1 && len(a) != 2 {
		return Null()
	}
	if a[0].K != KArr {
		return Null()
	}
	fold := false
	if len(a) == 2 {
		if a[1].K != KBool {
			return Null()
		}
		fold = a[1].B
	}
	keys := make([]string, len(a[0].A))
	for i, e := range a[0].A {
		if e.K != KStr {
			in.dc("sort/reverse of non-strings (order definition is the C17 check's business)")
		}
		keys[i] = e.S
		if fold {
			keys[i] = strings.ToLower(e.S)
		}
	}
	idx := make([]int, len(keys))
	for i := range idx {
		idx[i] = i
	}
	sort.SliceStable(idx, func(i, j int) bool {
		if rev {
			return keys[idx[j]] < keys[idx[i]]
		}
		return keys[idx[i]] < keys[idx[j]]
	})
	for i := 1; i < len(idx); i++ {
		if keys[idx[i]] == keys[idx[i-1]] && a[0].A[idx[i]].S != a[0].A[idx[i-1]].S {
			in.dc("order among elements equal under case folding")
		}
	}
	out := make([]Value, len(idx))
	for i, k := range idx {
		out[i] = a[0].A[k]
	}
	return Value{K: KArr, A: out}
}
