package model

import (
	"fmt"
	"math"
	"regexp"
	"strings"
	"unicode/utf8"

	"verif/internal/gast"
)

// Outcome of running a program (or evaluating an expression) in the model.
type Outcome struct {
	Val      Value
	Err      bool   // the language says: run-time error
	ErrMsg   string // why (never compared with the engine's text)
	DontCare string // non-empty: behaviour not fixed by properties/docs
}

func (o Outcome) String() string {
	if o.DontCare != "" {
		return "dontcare(" + o.DontCare + ")"
	}
	if o.Err {
		return "error(" + o.ErrMsg + ")"
	}
	return o.Val.Describe()
}

type rtErr struct{ msg string }
type dontCare struct{ why string }
type returnSig struct{ v Value }

// HostFn is a host function; it receives evaluated arguments.
type HostFn func(args []Value) Value

type frame struct {
	scopes  []map[string]Value
	loops   int // enclosing foreach loops in this frame
	fnDepth int
}

// Interp is one model evaluator: globals persist across runs, like the
// engine's variables.
type Interp struct {
	Globals  map[string]Value
	Fields   map[string]Value
	Funcs    map[string]gast.FuncDef
	Host     map[string]HostFn
	Trace    []string
	MaxSteps int
	MaxDepth int

	frames []*frame
	steps  int
}

// NewInterp builds an evaluator for a program: function definitions anywhere
// at top level are collected first (functions may be called before their
// definition).
func NewInterp(p gast.Program) *Interp {
	in := &Interp{Globals: map[string]Value{}, Fields: map[string]Value{}, Funcs: map[string]gast.FuncDef{},
		Host: map[string]HostFn{}, MaxSteps: 200000, MaxDepth: 60}
	collectFuncs(p.Stmts, in.Funcs)
	in.Host["t"] = func(args []Value) Value { return Void() }
	in.Host["v"] = func(args []Value) Value {
		if len(args) == 0 {
			return Null()
		}
		return args[0]
	}
	return in
}

func collectFuncs(ss []gast.Stmt, into map[string]gast.FuncDef) {
	for _, s := range ss {
		switch x := s.(type) {
		case gast.FuncDef:
			into[x.Name] = x
		}
	}
}

func (in *Interp) fail(format string, a ...interface{}) { panic(rtErr{fmt.Sprintf(format, a...)}) }
func (in *Interp) dc(why string)                        { panic(dontCare{why}) }

func (in *Interp) tick() {
	in.steps++
	if in.steps > in.MaxSteps {
		in.dc("model step budget")
	}
}

// Run executes the program against the object fields.
func (in *Interp) Run(p gast.Program, fields map[string]Value) (out Outcome) {
	in.Fields = fields
	in.frames = []*frame{{}}
	in.steps = 0
	defer func() {
		if r := recover(); r != nil {
			switch x := r.(type) {
			case rtErr:
				out = Outcome{Err: true, ErrMsg: x.msg}
			case dontCare:
				out = Outcome{DontCare: x.why}
			case returnSig:
				if x.v.K == KVoid {
					out = Outcome{DontCare: "void returned from script"}
				} else {
					out = Outcome{Val: x.v}
				}
			default:
				panic(r)
			}
		}
	}()
	in.block(p.Stmts)
	return Outcome{Val: Null()}
}

// EvalExpr evaluates a single expression (as `return <expr>;` would).
func (in *Interp) EvalExpr(e gast.Expr, fields map[string]Value) Outcome {
	return in.Run(gast.Program{Stmts: []gast.Stmt{gast.Return{X: e}}}, fields)
}

func (in *Interp) cur() *frame { return in.frames[len(in.frames)-1] }

func (in *Interp) lookup(name string) Value {
	name = strings.TrimPrefix(name, "$")
	f := in.cur()
	for i := len(f.scopes) - 1; i >= 0; i-- {
		if v, ok := f.scopes[i][name]; ok {
			return v
		}
	}
	for k := len(in.frames) - 2; k >= 0; k-- {
		for _, sc := range in.frames[k].scopes {
			if _, ok := sc[name]; ok {
				in.dc("name is a live caller's local (dynamic scoping)")
			}
		}
	}
	if v, ok := in.Globals[name]; ok {
		return v
	}
	if v, ok := in.Fields[name]; ok {
		return v
	}
	return Null()
}

func (in *Interp) assign(name string, v Value) {
	f := in.cur()
	for i := len(f.scopes) - 1; i >= 0; i-- {
		if _, ok := f.scopes[i][name]; ok {
			f.scopes[i][name] = v
			return
		}
	}
	for k := len(in.frames) - 2; k >= 0; k-- {
		for _, sc := range in.frames[k].scopes {
			if _, ok := sc[name]; ok {
				in.dc("assignment to a live caller's local (dynamic scoping)")
			}
		}
	}
	in.Globals[name] = v
}

func (in *Interp) declare(name string, v Value) {
	f := in.cur()
	if len(f.scopes) == 0 {
		// `local` outside any scope is rejected at Prepare; not reachable.
		in.dc("local outside a scope")
	}
	f.scopes[len(f.scopes)-1][name] = v
}

func (in *Interp) block(ss []gast.Stmt) {
	for _, s := range ss {
		in.stmt(s)
	}
}

func (in *Interp) stmt(s gast.Stmt) {
	in.tick()
	switch x := s.(type) {
	case gast.ExprStmt:
		v := in.eval(x.X, true)
		if v.K != KVoid && in.cur().loops > 0 {
			in.dc("value-yielding expression statement inside a foreach body")
		}
	case gast.Assign:
		v := in.eval(x.X, false)
		in.assign(x.Name, v)
	case gast.OpAssign:
		l := in.lookup(x.Name)
		r := in.eval(x.X, false)
		in.assign(x.Name, in.binary(x.Op, l, r))
	case gast.IncDec:
		cur := in.lookup(x.Name)
		d := int64(1)
		if x.Op == "--" {
			d = -1
		}
		switch cur.K {
		case KInt:
			in.assign(x.Name, Int(cur.I+d))
		case KFloat:
			in.assign(x.Name, Float(cur.F+float64(d)))
		default:
			in.fail("%s on %s", x.Op, cur.K.TypeName())
		}
	case gast.If:
		if in.eval(x.C, false).Truthy() {
			in.block(x.Then)
		} else if x.HasElse {
			in.block(x.Else)
		}
	case gast.While:
		for in.eval(x.C, false).Truthy() {
			in.tick()
			in.block(x.Body)
		}
	case gast.Foreach:
		in.foreach(x)
	case gast.Switch:
		in.switchStmt(x)
	case gast.Return:
		// `return f();` with a value-less f() has nothing to return: outside
		// what is specified (today: stack underflow)
		panic(returnSig{in.eval(x.X, false)})
	case gast.FuncDef:
		// definitions are collected up front; a definition that is not at
		// top level is outside what the generators produce.
	case gast.Local:
		in.declare(x.Name, Null())
	default:
		in.dc("statement kind not modelled")
	}
}

func (in *Interp) foreach(x gast.Foreach) {
	it := in.eval(x.It, false)
	type pair struct{ idx, val Value }
	var items []pair
	switch it.K {
	case KArr:
		for i, e := range it.A {
			items = append(items, pair{Int(int64(i)), e})
		}
	case KStr:
		i := 0
		for _, r := range it.S {
			items = append(items, pair{Int(int64(i)), Str(string(r))})
			i++
		}
		if !utf8.ValidString(it.S) {
			in.dc("invalid UTF-8 iteration")
		}
	case KHash:
		if it.HasKeyTies() {
			in.dc("iteration order among keys that print alike")
		}
		for _, e := range it.SortedEntries() {
			items = append(items, pair{e.Key, e.Val})
		}
	default:
		in.fail("%s is not iterable", it.K.TypeName())
	}
	f := in.cur()
	f.scopes = append(f.scopes, map[string]Value{})
	f.loops++
	depth := len(f.scopes)
	defer func() {
		// on any exit (also return / error) the loop scope goes away
		f.scopes = f.scopes[:depth-1]
		f.loops--
	}()
	for _, p := range items {
		in.tick()
		sc := f.scopes[depth-1]
		sc[x.Var] = p.val
		if x.Idx != "" {
			sc[x.Idx] = p.idx
		}
		in.block(x.Body)
	}
}

func (in *Interp) switchStmt(x gast.Switch) {
	tests := 0
	for _, c := range x.Cases {
		if c.Default {
			continue
		}
		for _, ce := range c.Exprs {
			tests++
			before := len(in.Trace)
			subj := in.eval(x.X, false)
			if len(in.Trace) != before {
				in.dc("switch subject with host calls (evaluation count unspecified)")
			}
			cv := in.eval(ce, false)
			if in.caseMatch(subj, cv) {
				in.block(c.Body)
				return
			}
		}
	}
	if tests == 0 {
		// the subject's evaluation (errors, calls) with no case to test is unspecified
		func() {
			defer func() {
				if r := recover(); r != nil {
					in.dc("switch without cases: subject evaluation unspecified")
				}
			}()
			before := len(in.Trace)
			in.eval(x.X, false)
			if len(in.Trace) != before {
				in.dc("switch without cases: subject evaluation unspecified")
			}
		}()
	}
	for _, c := range x.Cases {
		if c.Default {
			in.block(c.Body)
			return
		}
	}
}

func (in *Interp) caseMatch(subj, cv Value) bool {
	if subj.K == cv.K && subj.Print() == cv.Print() {
		if subj.K == KHash && subj.DeepHasKeyTies() {
			in.dc("printing a hash with keys that print alike")
		}
		return true
	}
	if cv.K == KRegex {
		switch subj.K {
		case KStr:
			return in.regexMatch(subj.S, cv.S)
		case KInt, KBool, KNull:
			// a regexp arm is tried against the printed form of the subject, as match() does
			return in.regexMatch(subj.Print(), cv.S)
		case KFloat:
			if math.IsNaN(subj.F) || math.IsInf(subj.F, 0) {
				in.dc("non-finite float result")
			}
			return in.regexMatch(subj.Print(), cv.S)
		}
		in.dc("regexp case against a container")
	}
	if (subj.K == KInt && cv.K == KFloat && float64(subj.I) == cv.F) || (subj.K == KFloat && cv.K == KInt && subj.F == float64(cv.I)) {
		in.dc("case literal of the other numeric type")
	}
	return false
}

var reCache = map[string]*regexp.Regexp{}

func (in *Interp) regexMatch(subject, pattern string) bool {
	r, err := regexp.Compile(pattern)
	if err != nil {
		in.dc("invalid regular expression")
	}
	for _, line := range strings.Split(subject, "\n") {
		if r.MatchString(strings.TrimSpace(line)) {
			return true
		}
	}
	return false
}

// eval evaluates an expression. voidOK says whether a value-less call is
// acceptable here (statement position / return).
func (in *Interp) eval(e gast.Expr, voidOK bool) Value {
	v := in.eval0(e)
	if v.K == KVoid && !voidOK {
		in.dc("value-less call in value position")
	}
	return v
}

func (in *Interp) eval0(e gast.Expr) Value {
	in.tick()
	switch x := e.(type) {
	case gast.IntLit:
		return Int(x.V)
	case gast.FloatLit:
		return Float(x.V)
	case gast.StrLit:
		return Str(x.V)
	case gast.BoolLit:
		return Bool(x.V)
	case gast.NullLit:
		return in.lookup("null")
	case gast.RegexLit:
		p := x.Pat
		if x.Flags != "" {
			p = "(?" + x.Flags + ")" + p
		}
		return Regex(p)
	case gast.Ident:
		return in.lookup(x.Name)
	case gast.Paren:
		return in.eval0(x.X)
	case gast.Prefix:
		return in.unary(x.Op, in.eval(x.X, false))
	case gast.Infix:
		l := in.eval(x.L, false)
		if x.Op == "&&" || x.Op == "||" {
			// The engine evaluates both operands; a short-circuiting
			// implementation would be equally legitimate. If the difference
			// is observable the case is outside what is specified.
			decided := (x.Op == "&&" && !l.Truthy()) || (x.Op == "||" && l.Truthy())
			before := len(in.Trace)
			var r Value
			func() {
				defer func() {
					if rec := recover(); rec != nil {
						if _, isErr := rec.(rtErr); isErr && decided {
							in.dc("error in an operand a short-circuit would skip")
						}
						panic(rec)
					}
				}()
				r = in.eval(x.R, false)
			}()
			if decided && len(in.Trace) != before {
				in.dc("host call in an operand a short-circuit would skip")
			}
			return in.binary(x.Op, l, r)
		}
		r := in.eval(x.R, false)
		return in.binary(x.Op, l, r)
	case gast.Index:
		l := in.eval(x.X, false)
		i := in.eval(x.I, false)
		return in.index(l, i)
	case gast.Dot:
		return in.index(in.eval(x.X, false), Str(x.Name))
	case gast.Ternary:
		if in.eval(x.C, false).Truthy() {
			return in.eval(x.A, false)
		}
		return in.eval(x.B, false)
	case gast.ArrayLit:
		out := make([]Value, 0, len(x.Els))
		for _, el := range x.Els {
			out = append(out, in.eval(el, false))
		}
		return Value{K: KArr, A: out}
	case gast.HashLit:
		before := len(in.Trace)
		var ents []HashEnt
		for i := range x.Keys {
			k := in.eval(x.Keys[i], false)
			v := in.eval(x.Vals[i], false)
			if !k.Hashable() {
				in.fail("unusable as hash key: %s", k.K.TypeName())
			}
			for _, e := range ents {
				if SameKey(e.Key, k) {
					in.dc("duplicate key in a hash literal")
				}
			}
			ents = append(ents, HashEnt{k, v})
		}
		if len(in.Trace) != before && len(x.Keys) > 1 {
			in.dc("host calls inside a hash literal (pair evaluation order unspecified)")
		}
		return Value{K: KHash, H: ents}
	case gast.Call:
		return in.call(x)
	}
	in.dc("expression kind not modelled")
	return Null()
}

func (in *Interp) unary(op string, v Value) Value {
	switch op {
	case "-":
		switch v.K {
		case KInt:
			return Int(-v.I)
		case KFloat:
			return Float(-v.F)
		}
		in.fail("negation of %s", v.K.TypeName())
	case "!":
		switch v.K {
		case KBool:
			return Bool(!v.B)
		case KNull:
			return Bool(true)
		}
		return Bool(false)
	case "√":
		var f float64
		switch v.K {
		case KInt:
			f = float64(v.I)
		case KFloat:
			f = v.F
		default:
			in.fail("square root of %s", v.K.TypeName())
		}
		if f < 0 || !IsFiniteNumber(f) {
			in.dc("square root of a negative or non-finite number")
		}
		return Float(math.Sqrt(f))
	}
	in.dc("unknown prefix operator")
	return Null()
}

func (in *Interp) index(l, i Value) Value {
	switch l.K {
	case KHash:
		if !i.Hashable() {
			in.fail("unusable as hash key: %s", i.K.TypeName())
		}
		v, _ := l.HashGet(i)
		return v
	case KArr:
		if i.K != KInt {
			in.fail("index must be an integer")
		}
		if i.I < 0 || i.I >= int64(len(l.A)) {
			return Null()
		}
		return l.A[i.I]
	case KStr:
		if i.K != KInt {
			in.fail("index must be an integer")
		}
		if !utf8.ValidString(l.S) {
			in.dc("indexing invalid UTF-8")
		}
		rs := []rune(l.S)
		if i.I < 0 || i.I >= int64(len(rs)) {
			return Null()
		}
		return Str(string(rs[i.I]))
	}
	in.fail("index on %s", l.K.TypeName())
	return Null()
}

func isNum(v Value) bool { return v.K == KInt || v.K == KFloat }

func toF(v Value) float64 {
	if v.K == KInt {
		return float64(v.I)
	}
	return v.F
}

func (in *Interp) finite(f float64) Value {
	if !IsFiniteNumber(f) {
		in.dc("non-finite float result")
	}
	return Float(f)
}

// Binary applies a binary operator (exported for table checks).
func (in *Interp) binary(op string, l, r Value) Value {
	// logical operators accept operands of any types (C05)
	if op == "&&" {
		return Bool(l.Truthy() && r.Truthy())
	}
	if op == "||" {
		return Bool(l.Truthy() || r.Truthy())
	}
	if op == ".." {
		if l.K != KInt || r.K != KInt {
			in.fail("range bounds must be integers")
		}
		if l.I > r.I {
			in.fail("range start above end")
		}
		n := r.I - l.I + 1
		if n <= 0 || n > 200000 {
			in.dc("huge range")
		}
		out := make([]Value, n)
		for k := int64(0); k < n; k++ {
			out[k] = Int(l.I + k)
		}
		return Value{K: KArr, A: out}
	}
	switch {
	case l.K == KInt && r.K == KInt:
		a, b := l.I, r.I
		switch op {
		case "+":
			return Int(a + b)
		case "-":
			return Int(a - b)
		case "*":
			return Int(a * b)
		case "/":
			if b == 0 {
				in.fail("division by zero")
			}
			return Int(a / b)
		case "%":
			if b == 0 {
				in.fail("modulo by zero")
			}
			return Int(a % b)
		case "**":
			if b < 0 {
				in.dc("integer power with negative exponent")
			}
			f := math.Pow(float64(a), float64(b))
			if math.Abs(f) >= 1<<53 || !IsFiniteNumber(f) {
				in.dc("integer power beyond 2^53")
			}
			return Int(int64(f))
		case "<":
			return Bool(a < b)
		case "<=":
			return Bool(a <= b)
		case ">":
			return Bool(a > b)
		case ">=":
			return Bool(a >= b)
		case "==":
			return Bool(a == b)
		case "!=":
			return Bool(a != b)
		}
		in.fail("operator %s not accepted by integers", op)
	case isNum(l) && isNum(r):
		a, b := toF(l), toF(r)
		switch op {
		case "+":
			return in.finite(a + b)
		case "-":
			return in.finite(a - b)
		case "*":
			return in.finite(a * b)
		case "/":
			if b == 0 {
				in.fail("division by zero")
			}
			return in.finite(a / b)
		case "%":
			if a != math.Trunc(a) || b != math.Trunc(b) || math.Abs(a) > 1<<53 || math.Abs(b) > 1<<53 {
				in.dc("modulo of non-integral floats")
			}
			if b == 0 {
				in.fail("modulo by zero")
			}
			return Float(float64(int64(a) % int64(b)))
		case "**":
			return in.finite(math.Pow(a, b))
		case "<":
			return Bool(a < b)
		case "<=":
			return Bool(a <= b)
		case ">":
			return Bool(a > b)
		case ">=":
			return Bool(a >= b)
		case "==":
			return Bool(a == b)
		case "!=":
			return Bool(a != b)
		}
		in.fail("operator %s not accepted by numbers", op)
	case l.K == KStr && r.K == KStr:
		a, b := l.S, r.S
		switch op {
		case "+":
			return Str(a + b)
		case "<":
			return Bool(a < b)
		case "<=":
			return Bool(a <= b)
		case ">":
			return Bool(a > b)
		case ">=":
			return Bool(a >= b)
		case "==":
			return Bool(a == b)
		case "!=":
			return Bool(a != b)
		case "in":
			return Bool(strings.Contains(b, a))
		}
		in.fail("operator %s not accepted by strings", op)
	case l.K == KStr && r.K == KRegex:
		switch op {
		case "~=":
			return Bool(in.regexMatch(l.S, r.S))
		case "!~":
			return Bool(!in.regexMatch(l.S, r.S))
		}
		in.fail("operator %s not accepted by string and regexp", op)
	}
	if op == "in" {
		if r.K != KArr {
			in.fail("'in' needs an array")
		}
		if l.K == KArr || l.K == KHash {
			// containers are compared through their printed form: where that form differs
			// from every element's the answer is no under any reading, where it equals the
			// form of an element that is the same value the answer is yes; only an element
			// that prints alike without being the same value is left open
			if l.DeepHasKeyTies() {
				in.dc("printing a hash with keys that print alike")
			}
			for _, e := range r.A {
				if e.K == l.K && e.Print() == l.Print() {
					if e.DeepHasKeyTies() || !sameStructure(e, l) {
						in.dc("membership of a container that prints like an element without being it")
					}
					return Bool(true)
				}
			}
			return Bool(false)
		}
		for _, e := range r.A {
			if e.K == l.K && e.Print() == l.Print() {
				return Bool(true)
			}
		}
		return Bool(false)
	}
	if l.K == KBool && r.K == KBool {
		switch op {
		case "==":
			return Bool(l.B == r.B)
		case "!=":
			return Bool(l.B != r.B)
		case "<", "<=", ">", ">=", "+":
			in.dc("ordering / addition of booleans")
		}
		in.fail("operator %s not accepted by booleans", op)
	}
	if l.K == r.K {
		// null, array, hash, regexp with themselves
		if op == "==" || op == "!=" {
			in.dc("equality between two " + l.K.TypeName() + " values")
		}
		in.fail("operator %s not accepted by %s", op, l.K.TypeName())
	}
	in.fail("type mismatch %s %s %s", l.K.TypeName(), op, r.K.TypeName())
	return Null()
}

// BinaryOutcome evaluates l op r and reports the outcome (for table checks).
func BinaryOutcome(op string, l, r Value) (out Outcome) {
	in := &Interp{MaxSteps: 1 << 30}
	defer func() {
		if rec := recover(); rec != nil {
			switch x := rec.(type) {
			case rtErr:
				out = Outcome{Err: true, ErrMsg: x.msg}
			case dontCare:
				out = Outcome{DontCare: x.why}
			default:
				panic(rec)
			}
		}
	}()
	return Outcome{Val: in.binary(op, l, r)}
}

func (in *Interp) call(x gast.Call) Value {
	args := make([]Value, len(x.Args))
	for i, a := range x.Args {
		args[i] = in.eval(a, false)
	}
	if h, ok := in.Host[x.Fn]; ok {
		parts := make([]string, len(args))
		for i, a := range args {
			if a.DeepHasKeyTies() {
				in.dc("printing a hash with keys that print alike")
			}
			parts[i] = a.Describe()
		}
		in.Trace = append(in.Trace, x.Fn+"("+strings.Join(parts, ", ")+")")
		return h(args)
	}
	if b, ok := builtins[x.Fn]; ok {
		return b(in, args)
	}
	if unmodelled[x.Fn] {
		in.dc("built-in not modelled: " + x.Fn)
	}
	fn, ok := in.Funcs[x.Fn]
	if !ok {
		in.fail("function %s does not exist", x.Fn)
	}
	if len(fn.Params) != len(args) {
		in.fail("argument count mismatch calling %s", x.Fn)
	}
	if len(in.frames) > in.MaxDepth {
		in.dc("model recursion budget")
	}
	sc := map[string]Value{}
	for i, p := range fn.Params {
		sc[p] = args[i]
	}
	in.frames = append(in.frames, &frame{scopes: []map[string]Value{sc}})
	ret := Void()
	func() {
		defer func() {
			in.frames = in.frames[:len(in.frames)-1]
			if r := recover(); r != nil {
				if rs, ok := r.(returnSig); ok {
					ret = rs.v
					return
				}
				panic(r)
			}
		}()
		in.block(fn.Body)
	}()
	return ret
}

// sameStructure compares two values element by element (kinds, scalars, order of array
// elements, entries of hashes by key).
func sameStructure(a, b Value) bool {
	if a.K != b.K {
		return false
	}
	switch a.K {
	case KArr:
		if len(a.A) != len(b.A) {
			return false
		}
		for i := range a.A {
			if !sameStructure(a.A[i], b.A[i]) {
				return false
			}
		}
		return true
	case KHash:
		if len(a.H) != len(b.H) {
			return false
		}
		for _, e := range a.H {
			v, ok := b.HashGet(e.Key)
			if !ok || !sameStructure(e.Val, v) {
				return false
			}
		}
		return true
	}
	return a.Print() == b.Print()
}
