// Package bcv is a bytecode verifier for the evalfilter machine: an invariant
// checker applied to the live prepared program (obtained through the verif
// hooks). It knows the instruction set from BYTECODE.md / code.go, not from
// the compiler.
package bcv

import (
	"fmt"

	"github.com/skx/evalfilter/v2/code"
	"github.com/skx/evalfilter/v2/object"
)

// Problem describes one structural defect.
type Problem struct {
	Body   string
	Offset int
	What   string
}

func (p Problem) String() string { return fmt.Sprintf("%s@%04d: %s", p.Body, p.Offset, p.What) }

const maxOpcode = code.OpRange

// pops/pushes of an instruction given its operand; ok=false for opcodes with
// special handling.
func effect(op code.Opcode, arg int) (pops, pushes int) {
	switch op {
	case code.OpConstant, code.OpPush, code.OpLookup, code.OpTrue, code.OpFalse, code.OpVoid:
		return 0, 1
	case code.OpSet:
		return 2, 0
	case code.OpLocal:
		return 1, 0
	case code.OpAdd, code.OpSub, code.OpMul, code.OpDiv, code.OpMod, code.OpPower, code.OpLess, code.OpLessEqual, code.OpGreater,
		code.OpGreaterEqual, code.OpEqual, code.OpNotEqual, code.OpMatches, code.OpNotMatches, code.OpAnd, code.OpOr, code.OpArrayIn,
		code.OpCase, code.OpIndex, code.OpRange:
		return 2, 1
	case code.OpArray, code.OpHash:
		return arg, 1
	case code.OpBang, code.OpMinus, code.OpSquareRoot, code.OpIterationReset:
		return 1, 1
	case code.OpReturn:
		return 1, 0
	case code.OpJumpIfFalse:
		return 1, 0
	case code.OpCall:
		// name + arguments; the property lets us assume the callee returns a value
		return arg + 1, 1
	case code.OpInc, code.OpDec:
		return 1, 0
	case code.OpIterationNext:
		return 3, 2 // continue path; the exit path pushes one (handled by the caller)
	}
	return 0, 0
}

// Verify checks one body. isFunc: the body is a function body (must not fall
// off its end). It returns the problems found and the number of instructions.
func Verify(name string, body code.Instructions, consts []object.Object, isFunc bool) (probs []Problem, ninstr int) {
	add := func(off int, format string, a ...interface{}) {
		probs = append(probs, Problem{name, off, fmt.Sprintf(format, a...)})
	}
	n := len(body)
	if n > 65535 {
		add(0, "body is %d bytes long: jump operands are 16 bits", n)
	}
	starts := map[int]bool{}
	type ins struct {
		off, arg, ln int
		op           code.Opcode
	}
	var list []ins
	idx := map[int]int{}
	for ip := 0; ip < n; {
		op := code.Opcode(body[ip])
		if op > maxOpcode {
			add(ip, "unknown opcode %d", op)
			return probs, len(list)
		}
		ln := code.Length(op)
		arg := 0
		if ln > 1 {
			if ip+2 >= n {
				add(ip, "%s: truncated operand", code.String(op))
				return probs, len(list)
			}
			arg = int(body[ip+1])<<8 | int(body[ip+2])
		}
		starts[ip] = true
		idx[ip] = len(list)
		list = append(list, ins{ip, arg, ln, op})
		ip += ln
	}
	ninstr = len(list)
	isStringConst := func(i int) bool {
		return i >= 0 && i < len(consts) && consts[i] != nil && consts[i].Type() == object.STRING
	}
	for k, in := range list {
		switch in.op {
		case code.OpJump, code.OpJumpIfFalse:
			if in.arg >= n || !starts[in.arg] {
				add(in.off, "%s to %d which is not the start of an instruction inside the body (length %d)", code.String(in.op), in.arg, n)
			}
		case code.OpConstant:
			if in.arg >= len(consts) {
				add(in.off, "OpConstant %d: the pool has %d entries", in.arg, len(consts))
			}
		case code.OpLookup, code.OpInc, code.OpDec:
			if !isStringConst(in.arg) {
				add(in.off, "%s %d: operand must name a string constant", code.String(in.op), in.arg)
			}
		case code.OpHash:
			if in.arg%2 != 0 {
				add(in.off, "OpHash with odd operand %d", in.arg)
			}
		case code.OpCall, code.OpSet, code.OpLocal:
			// the name is pushed by the preceding OpConstant
			if k == 0 || list[k-1].op != code.OpConstant || !isStringConst(list[k-1].arg) {
				add(in.off, "%s is not preceded by a string constant naming its target", code.String(in.op))
			}
		case code.OpIterationNext:
			if k < 2 || list[k-1].op != code.OpConstant || list[k-2].op != code.OpConstant || !isStringConst(list[k-1].arg) || !isStringConst(list[k-2].arg) {
				add(in.off, "OpIterationNext is not preceded by two string constants")
			}
			if k+1 >= len(list) || list[k+1].op != code.OpJumpIfFalse {
				add(in.off, "OpIterationNext is not followed by OpJumpIfFalse")
			}
		}
	}
	if len(probs) > 0 {
		return probs, ninstr
	}
	// control flow + minimum stack depth (join = min: statements legitimately
	// leave residue, only underflow on some path matters)
	const unset = 1 << 30
	depth := make([]int, len(list))
	for i := range depth {
		depth[i] = unset
	}
	work := []int{}
	setDepth := func(k, d int) {
		if d < depth[k] {
			depth[k] = d
			work = append(work, k)
		}
	}
	if len(list) == 0 {
		if isFunc {
			add(0, "empty function body has no return")
		}
		return probs, 0
	}
	setDepth(0, 0)
	reported := map[int]bool{}
	steps := 0
	for len(work) > 0 && steps < 200000 {
		steps++
		k := work[len(work)-1]
		work = work[:len(work)-1]
		in := list[k]
		d := depth[k]
		pops, pushes := effect(in.op, in.arg)
		if d < pops {
			if !reported[k] {
				reported[k] = true
				add(in.off, "%s needs %d operand(s) but a path reaches it with only %d on the stack", code.String(in.op), pops, d)
			}
			continue
		}
		if d < -1000 {
			continue
		}
		next := func(off, nd int) {
			if off >= n {
				if isFunc && !reported[-1-k] {
					reported[-1-k] = true
					add(in.off, "a path runs off the end of the function body without OpReturn")
				}
				return
			}
			setDepth(idx[off], nd)
		}
		switch in.op {
		case code.OpReturn:
			// terminates
		case code.OpJump:
			next(in.arg, d)
		case code.OpJumpIfFalse:
			if k > 0 && list[k-1].op == code.OpIterationNext {
				// depth d here is the continue-path depth (iterable + bool);
				// on the exit path only the bool was pushed
				next(in.off+in.ln, d-1)
				next(in.arg, d-2)
			} else {
				next(in.off+in.ln, d-1)
				next(in.arg, d-1)
			}
		default:
			next(in.off+in.ln, d-pops+pushes)
		}
	}
	return probs, ninstr
}
