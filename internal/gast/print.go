package gast

import (
	"math/rand"
	"strconv"
	"strings"
)

// TokKind classifies printed tokens (only as far as the printers need).
type TokKind int

const (
	TWord TokKind = iota // identifier or keyword
	TInt
	TFloat
	TStr
	TRegex
	TPunct
	TRaw
)

// Tok is one printed token.
type Tok struct {
	S string
	K TokKind
}

// ParenMode selects how parentheses are written.
type ParenMode int

const (
	// Minimal writes only the parentheses the precedence table requires.
	Minimal ParenMode = iota
	// Full parenthesises every compound sub-expression.
	Full
	// Redundant writes the required ones plus random redundant ones.
	Redundant
)

// Printer turns trees into token lists.
type Printer struct {
	Mode ParenMode
	Rng  *rand.Rand // for Redundant
	out  []Tok
}

func (p *Printer) w(s string, k TokKind) { p.out = append(p.out, Tok{s, k}) }
func (p *Printer) pu(s string)           { p.w(s, TPunct) }

// EncodeString spells a string value as a literal in the given quote style.
// alt selects among equivalent spellings (escape vs. raw) when non-nil.
func EncodeString(v string, quote byte, alt *rand.Rand) string {
	if quote == 0 {
		quote = '"'
	}
	var b strings.Builder
	b.WriteByte(quote)
	if alt != nil && alt.Intn(25) == 0 {
		b.WriteString("\\\n") // a continuation right after the opening quote
	}
	for _, r := range v {
		switch {
		case r == '\\':
			b.WriteString(`\\`)
		case r == rune(quote):
			b.WriteByte('\\')
			b.WriteRune(r)
		case r == '\n':
			if alt != nil && alt.Intn(2) == 0 {
				b.WriteRune(r)
			} else {
				b.WriteString(`\n`)
			}
		case r == '\r':
			if alt != nil && alt.Intn(2) == 0 {
				b.WriteRune(r)
			} else {
				b.WriteString(`\r`)
			}
		case r == '\t':
			if alt != nil && alt.Intn(2) == 0 {
				b.WriteRune(r)
			} else {
				b.WriteString(`\t`)
			}
		case r == '"' && quote == '\'':
			// `\"` is an escape in either style; raw is fine too.
			if alt != nil && alt.Intn(2) == 0 {
				b.WriteString(`\"`)
			} else {
				b.WriteRune(r)
			}
		default:
			if alt != nil && alt.Intn(40) == 0 {
				// backslash-newline continuation contributes nothing
				b.WriteString("\\\n")
			}
			if alt != nil && alt.Intn(12) == 0 && r != 'n' && r != 'r' && r != 't' && r != '\n' && r != 0 {
				// any other escaped character is taken literally
				b.WriteByte('\\')
			}
			b.WriteRune(r)
		}
	}
	if alt != nil && alt.Intn(25) == 0 {
		b.WriteString("\\\n") // ... and right before the closing one
		if alt.Intn(3) == 0 {
			b.WriteString("\\\n")
		}
	}
	b.WriteByte(quote)
	return b.String()
}

// EncodeRegex spells a regexp literal whose pattern (as the engine should
// receive it) is pat: '/' and '\' characters are escaped with a backslash.
func EncodeRegex(pat, flags string) string {
	var b strings.Builder
	b.WriteByte('/')
	for _, r := range pat {
		if r == '/' || r == '\\' {
			b.WriteByte('\\')
		}
		b.WriteRune(r)
	}
	b.WriteByte('/')
	b.WriteString(flags)
	return b.String()
}

// FloatSpelling spells a non-negative finite float as a decimal literal.
func FloatSpelling(f float64) string {
	s := strconv.FormatFloat(f, 'f', -1, 64)
	if !strings.Contains(s, ".") {
		s += ".0"
	}
	return s
}

func (p *Printer) lastKind() (TokKind, string) {
	if len(p.out) == 0 {
		return TPunct, ""
	}
	t := p.out[len(p.out)-1]
	return t.K, t.S
}

// divisionSafe reports whether a '/' written now would be lexed as division.
func (p *Printer) divisionSafe() bool {
	k, s := p.lastKind()
	switch k {
	case TInt, TFloat:
		return true
	case TWord:
		switch s {
		case "true", "false", "in", "return", "case", "default", "else", "if", "while", "for", "foreach", "function", "local", "switch":
			return false
		}
		return true
	case TPunct:
		return s == ")" || s == "]"
	}
	return false
}

func (p *Printer) expr(e Expr, need int) {
	paren := Prec(e) < need
	if !paren {
		switch p.Mode {
		case Full:
			switch e.(type) {
			case Infix, Prefix, Ternary, Index, Dot:
				paren = true
			}
		case Redundant:
			if p.Rng != nil && p.Rng.Intn(4) == 0 {
				paren = true
			}
		}
	}
	if paren {
		p.pu("(")
		p.expr0(e)
		p.pu(")")
		return
	}
	p.expr0(e)
}

func (p *Printer) expr0(e Expr) {
	switch x := e.(type) {
	case IntLit:
		s := x.Spelling
		if s == "" {
			s = strconv.FormatInt(x.V, 10)
		}
		p.w(s, TInt)
	case FloatLit:
		s := x.Spelling
		if s == "" {
			s = FloatSpelling(x.V)
		}
		p.w(s, TFloat)
	case StrLit:
		p.w(EncodeString(x.V, x.Quote, nil), TStr)
	case BoolLit:
		if x.V {
			p.w("true", TWord)
		} else {
			p.w("false", TWord)
		}
	case NullLit:
		p.w("null", TWord)
	case RegexLit:
		p.w(EncodeRegex(x.Pat, x.Flags), TRegex)
	case Ident:
		p.w(x.Name, TWord)
	case Raw:
		p.w(x.Text, TRaw)
	case Paren:
		p.pu("(")
		p.expr(x.X, 0)
		p.pu(")")
	case Prefix:
		p.pu(x.Op)
		// `- -a` must not become `--a`; the joiner keeps a space between tokens,
		// but an operand that itself starts with '-' is parenthesised to be safe
		// in every layout.
		if in, ok := x.X.(Prefix); ok && in.Op == "-" && x.Op == "-" {
			p.pu("(")
			p.expr0(x.X)
			p.pu(")")
			return
		}
		p.expr(x.X, PPrefix)
	case Infix:
		pr := InfixPrec(x.Op)
		start := len(p.out)
		p.expr(x.L, pr)
		if x.Op == "/" && !p.divisionSafe() {
			// the left operand ends in a token after which '/' would start a
			// regexp: wrap it.
			rest := append([]Tok{}, p.out[start:]...)
			p.out = append(p.out[:start], Tok{"(", TPunct})
			p.out = append(p.out, rest...)
			p.pu(")")
		}
		if x.Op == "in" {
			p.w("in", TWord)
		} else {
			p.pu(x.Op)
		}
		p.expr(x.R, pr+1)
	case Index:
		p.expr(x.X, PIndex)
		p.pu("[")
		p.expr(x.I, 0)
		p.pu("]")
	case Dot:
		p.expr(x.X, PIndex)
		p.pu(".")
		p.w(x.Name, TWord)
	case Call:
		p.w(x.Fn, TWord)
		p.pu("(")
		for i, a := range x.Args {
			if i > 0 {
				p.pu(",")
			}
			p.expr(a, 0)
		}
		p.pu(")")
	case Ternary:
		p.expr(x.C, PTernary+1)
		p.pu("?")
		p.expr(x.A, PTernary+1)
		p.pu(":")
		p.expr(x.B, PTernary+1)
	case ArrayLit:
		p.pu("[")
		for i, a := range x.Els {
			if i > 0 {
				p.pu(",")
			}
			p.expr(a, 0)
		}
		p.pu("]")
	case HashLit:
		p.pu("{")
		for i := range x.Keys {
			if i > 0 {
				p.pu(",")
			}
			p.expr(x.Keys[i], 0)
			p.pu(":")
			p.expr(x.Vals[i], 0)
		}
		p.pu("}")
	default:
		panic("gast: unknown expr")
	}
}

func (p *Printer) block(b []Stmt) {
	p.pu("{")
	for _, s := range b {
		p.stmt(s)
	}
	p.pu("}")
}

func (p *Printer) stmt(s Stmt) {
	switch x := s.(type) {
	case ExprStmt:
		p.expr(x.X, 0)
		p.pu(";")
	case Assign:
		p.w(x.Name, TWord)
		p.pu("=")
		p.expr(x.X, 0)
		p.pu(";")
	case OpAssign:
		p.w(x.Name, TWord)
		p.pu(x.Op + "=")
		p.expr(x.X, 0)
		p.pu(";")
	case IncDec:
		p.w(x.Name, TWord)
		p.pu(x.Op)
		p.pu(";")
	case If:
		p.w("if", TWord)
		p.pu("(")
		p.expr(x.C, 0)
		p.pu(")")
		p.block(x.Then)
		if x.HasElse {
			p.w("else", TWord)
			if x.ElseIf && len(x.Else) == 1 {
				if _, ok := x.Else[0].(If); ok {
					p.stmt(x.Else[0])
					return
				}
			}
			p.block(x.Else)
		}
	case While:
		kw := x.Kw
		if kw == "" {
			kw = "while"
		}
		p.w(kw, TWord)
		p.pu("(")
		p.expr(x.C, 0)
		p.pu(")")
		p.block(x.Body)
	case Foreach:
		p.w("foreach", TWord)
		if x.Idx != "" {
			p.w(x.Idx, TWord)
			p.pu(",")
		}
		p.w(x.Var, TWord)
		p.w("in", TWord)
		p.expr(x.It, 0)
		p.block(x.Body)
	case Switch:
		p.w("switch", TWord)
		p.pu("(")
		p.expr(x.X, 0)
		p.pu(")")
		p.pu("{")
		for _, c := range x.Cases {
			if c.Default {
				p.w("default", TWord)
			} else {
				p.w("case", TWord)
				for i, e := range c.Exprs {
					if i > 0 {
						p.pu(",")
					}
					p.expr(e, 0)
				}
			}
			p.block(c.Body)
		}
		p.pu("}")
	case Return:
		p.w("return", TWord)
		p.expr(x.X, 0)
		p.pu(";")
	case FuncDef:
		p.w("function", TWord)
		p.w(x.Name, TWord)
		p.pu("(")
		for i, a := range x.Params {
			if i > 0 {
				p.pu(",")
			}
			p.w(a, TWord)
		}
		p.pu(")")
		p.block(x.Body)
	case Local:
		p.w("local", TWord)
		p.w(x.Name, TWord)
		p.pu(";")
	case RawStmt:
		p.w(x.Text, TRaw)
	default:
		panic("gast: unknown stmt")
	}
}

// ExprTokens prints one expression.
func (p *Printer) ExprTokens(e Expr) []Tok {
	p.out = nil
	p.expr(e, 0)
	return p.out
}

// ProgramTokens prints a whole program.
func (p *Printer) ProgramTokens(pr Program) []Tok {
	p.out = nil
	for _, s := range pr.Stmts {
		p.stmt(s)
	}
	return p.out
}

// StmtsTokens prints a statement list.
func (p *Printer) StmtsTokens(ss []Stmt) []Tok {
	p.out = nil
	for _, s := range ss {
		p.stmt(s)
	}
	return p.out
}

// Join writes tokens separated by single spaces.
func Join(toks []Tok) string {
	var b strings.Builder
	for i, t := range toks {
		if i > 0 {
			b.WriteByte(' ')
		}
		b.WriteString(t.S)
	}
	return b.String()
}

var tightPunct = map[string]bool{"(": true, ")": true, "[": true, "]": true, "{": true, "}": true, ",": true, ";": true, ":": true, "?": true}

// JoinLayout writes tokens with a random layout: spaces, tabs, newlines,
// // comments, and no separator at all where the two tokens cannot merge.
func JoinLayout(toks []Tok, r *rand.Rand) string {
	var b strings.Builder
	seps := []string{" ", "  ", "\t", "\n", "\r\n", " \n\t ", " // note\n", "\n// x = 1; \"q\" /re/\n", " //\n",
		// comments holding whatever a comment may hold: lone carriage returns and other control
		// characters followed by program text, quotes and slashes left open, a backslash last
		" // set up\rx = 2; return x;\n", "\n//\r\r y = 3;\r\n", " //\ty = 3; \v \f z\n", " // é狐 \u2028 z = 1; \u00a0 #! @ `\n", "\t// 'open \"open /open \\\n", " //// */ /* \\\\\n", " // return false; }\r ) ] }\n"}
	if r.Intn(3) == 0 {
		b.WriteString(seps[r.Intn(len(seps))])
	}
	for i, t := range toks {
		if i > 0 {
			prev := toks[i-1]
			tight := (prev.K == TPunct && tightPunct[prev.S]) || (t.K == TPunct && tightPunct[t.S])
			if prev.K == TRaw || t.K == TRaw {
				tight = false
			}
			if tight && r.Intn(2) == 0 {
				// no separator
			} else {
				b.WriteString(seps[r.Intn(len(seps))])
			}
		}
		b.WriteString(t.S)
	}
	if r.Intn(3) == 0 {
		b.WriteString(seps[r.Intn(len(seps))])
	}
	if r.Intn(6) == 0 {
		b.WriteString("// trailing comment without newline")
	}
	return b.String()
}

// Text prints a program with minimal parentheses and single spaces.
func Text(pr Program) string {
	p := &Printer{Mode: Minimal}
	return Join(p.ProgramTokens(pr))
}

// ExprText prints an expression with minimal parentheses.
func ExprText(e Expr) string {
	p := &Printer{Mode: Minimal}
	return Join(p.ExprTokens(e))
}
