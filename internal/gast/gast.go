// Package gast is the checker's own abstract syntax for the evalfilter
// language plus printers (token lists, minimal / redundant / full
// parenthesisation, layout variants). It imports nothing from the engine.
package gast

// Expr is an expression node.
type Expr interface{ isExpr() }

type (
	// IntLit is a non-negative integer literal (negative numbers are Prefix "-").
	IntLit struct {
		V        int64
		Spelling string // optional alternative spelling (leading zeros)
	}
	// FloatLit is a non-negative finite decimal literal.
	FloatLit struct {
		V        float64
		Spelling string
	}
	// StrLit is a string literal; Quote is '"' or '\” (0 = '"').
	StrLit struct {
		V     string
		Quote byte
	}
	BoolLit struct{ V bool }
	// NullLit is the identifier `null` (an unset name, which yields null).
	NullLit struct{}
	// RegexLit holds the pattern as the engine will see it (after the
	// lexer removed escaping backslashes) and its flags.
	RegexLit struct {
		Pat   string
		Flags string
	}
	Ident  struct{ Name string }
	Prefix struct {
		Op string
		X  Expr
	}
	Infix struct {
		Op   string
		L, R Expr
	}
	Index struct{ X, I Expr }
	Dot   struct {
		X    Expr
		Name string
	}
	Call struct {
		Fn   string
		Args []Expr
	}
	Ternary  struct{ C, A, B Expr }
	ArrayLit struct{ Els []Expr }
	HashLit  struct{ Keys, Vals []Expr }
	// Paren is an explicit (redundant) pair of parentheses.
	Paren struct{ X Expr }
	// Raw is spliced verbatim into the token stream (used for invalid fragments).
	Raw struct{ Text string }
)

func (IntLit) isExpr()   {}
func (FloatLit) isExpr() {}
func (StrLit) isExpr()   {}
func (BoolLit) isExpr()  {}
func (NullLit) isExpr()  {}
func (RegexLit) isExpr() {}
func (Ident) isExpr()    {}
func (Prefix) isExpr()   {}
func (Infix) isExpr()    {}
func (Index) isExpr()    {}
func (Dot) isExpr()      {}
func (Call) isExpr()     {}
func (Ternary) isExpr()  {}
func (ArrayLit) isExpr() {}
func (HashLit) isExpr()  {}
func (Paren) isExpr()    {}
func (Raw) isExpr()      {}

// Stmt is a statement node.
type Stmt interface{ isStmt() }

type (
	ExprStmt struct{ X Expr }
	Assign   struct {
		Name string
		X    Expr
	}
	// OpAssign is `name op= expr` with Op one of + - * /.
	OpAssign struct {
		Name string
		Op   string
		X    Expr
	}
	// IncDec is `name++` / `name--`.
	IncDec struct {
		Name string
		Op   string
	}
	If struct {
		C       Expr
		Then    []Stmt
		Else    []Stmt
		HasElse bool
		// ElseIf prints `else if (...)` when Else is a single If.
		ElseIf bool
	}
	While struct {
		Kw   string // "while" or "for"
		C    Expr
		Body []Stmt
	}
	Foreach struct {
		Idx  string // optional
		Var  string
		It   Expr
		Body []Stmt
	}
	Case struct {
		Exprs   []Expr
		Default bool
		Body    []Stmt
	}
	Switch struct {
		X     Expr
		Cases []Case
	}
	Return  struct{ X Expr }
	FuncDef struct {
		Name   string
		Params []string
		Body   []Stmt
	}
	Local struct{ Name string }
	// RawStmt is spliced verbatim (invalid fragments for C13).
	RawStmt struct{ Text string }
)

func (ExprStmt) isStmt() {}
func (Assign) isStmt()   {}
func (OpAssign) isStmt() {}
func (IncDec) isStmt()   {}
func (If) isStmt()       {}
func (While) isStmt()    {}
func (Foreach) isStmt()  {}
func (Switch) isStmt()   {}
func (Return) isStmt()   {}
func (FuncDef) isStmt()  {}
func (Local) isStmt()    {}
func (RawStmt) isStmt()  {}

// Program is a list of top-level statements.
type Program struct{ Stmts []Stmt }

// Precedence levels, transcribed from the statement of property C12:
// index/call > prefix > % > ** > * / > + - > comparisons ~= !~ in > == != >
// && || > range/assignment > ternary.
const (
	PTernary = 2
	PAssign  = 3
	PCond    = 4
	PEquals  = 5
	PCmp     = 7
	PSum     = 8
	PProduct = 9
	PPower   = 10
	PMod     = 11
	PPrefix  = 12
	PIndex   = 14
	PAtom    = 20
)

// InfixPrec gives the binding level of a binary operator.
func InfixPrec(op string) int {
	switch op {
	case "..":
		return PAssign
	case "&&", "||":
		return PCond
	case "==", "!=":
		return PEquals
	case "<", "<=", ">", ">=", "~=", "!~", "in":
		return PCmp
	case "+", "-":
		return PSum
	case "*", "/":
		return PProduct
	case "**":
		return PPower
	case "%":
		return PMod
	}
	return 0
}

// BinaryOps lists every binary operator of the language (excluding index, '.').
var BinaryOps = []string{"+", "-", "*", "/", "%", "**", "<", "<=", ">", ">=", "==", "!=", "~=", "!~", "in", "&&", "||", ".."}

// Prec is the level of an expression's outermost construct.
func Prec(e Expr) int {
	switch x := e.(type) {
	case Infix:
		return InfixPrec(x.Op)
	case Prefix:
		return PPrefix
	case Ternary:
		return PTernary
	case Index, Dot, Call:
		return PIndex
	}
	return PAtom
}

// IsIntConstExpr reports whether e consists only of inline-range integer
// literals combined with + - * / and parentheses (what the engine's peephole
// pass folds to one pushed integer).
func IsIntConstExpr(e Expr) bool {
	switch x := e.(type) {
	case IntLit:
		return x.V >= 0 && x.V <= 65534
	case Paren:
		return IsIntConstExpr(x.X)
	case Infix:
		switch x.Op {
		case "+", "-", "*", "/":
			return IsIntConstExpr(x.L) && IsIntConstExpr(x.R)
		}
	}
	return false
}

// WalkExpr calls f on e and every sub-expression.
func WalkExpr(e Expr, f func(Expr)) {
	if e == nil {
		return
	}
	f(e)
	switch x := e.(type) {
	case Prefix:
		WalkExpr(x.X, f)
	case Infix:
		WalkExpr(x.L, f)
		WalkExpr(x.R, f)
	case Index:
		WalkExpr(x.X, f)
		WalkExpr(x.I, f)
	case Dot:
		WalkExpr(x.X, f)
	case Call:
		for _, a := range x.Args {
			WalkExpr(a, f)
		}
	case Ternary:
		WalkExpr(x.C, f)
		WalkExpr(x.A, f)
		WalkExpr(x.B, f)
	case ArrayLit:
		for _, a := range x.Els {
			WalkExpr(a, f)
		}
	case HashLit:
		for i := range x.Keys {
			WalkExpr(x.Keys[i], f)
			WalkExpr(x.Vals[i], f)
		}
	case Paren:
		WalkExpr(x.X, f)
	}
}

// HasSqrtOfIntConst reports whether e contains √ applied to an integer
// constant expression (known finding: the optimizer folds it to an integer).
func HasSqrtOfIntConst(e Expr) bool {
	found := false
	WalkExpr(e, func(x Expr) {
		if p, ok := x.(Prefix); ok && p.Op == "√" && IsIntConstExpr(p.X) {
			found = true
		}
	})
	return found
}

// WalkStmts calls fe on every expression and fs on every statement.
func WalkStmts(ss []Stmt, fs func(Stmt), fe func(Expr)) {
	for _, s := range ss {
		if fs != nil {
			fs(s)
		}
		we := func(e Expr) {
			if fe != nil && e != nil {
				WalkExpr(e, fe)
			}
		}
		switch x := s.(type) {
		case ExprStmt:
			we(x.X)
		case Assign:
			we(x.X)
		case OpAssign:
			we(x.X)
		case If:
			we(x.C)
			WalkStmts(x.Then, fs, fe)
			WalkStmts(x.Else, fs, fe)
		case While:
			we(x.C)
			WalkStmts(x.Body, fs, fe)
		case Foreach:
			we(x.It)
			WalkStmts(x.Body, fs, fe)
		case Switch:
			we(x.X)
			for _, c := range x.Cases {
				for _, e := range c.Exprs {
					we(e)
				}
				WalkStmts(c.Body, fs, fe)
			}
		case Return:
			we(x.X)
		case FuncDef:
			WalkStmts(x.Body, fs, fe)
		}
	}
}

// ProgramHasSqrtOfIntConst is HasSqrtOfIntConst over a whole program.
func ProgramHasSqrtOfIntConst(p Program) bool {
	found := false
	WalkStmts(p.Stmts, nil, func(e Expr) {
		if pe, ok := e.(Prefix); ok && pe.Op == "√" && IsIntConstExpr(pe.X) {
			found = true
		}
	})
	return found
}
