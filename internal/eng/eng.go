// Package eng adapts the engine under test (github.com/skx/evalfilter/v2,
// built from /repo with -tags verif) for the monitors: it prepares scripts,
// installs the trace host functions and the step hook, runs them and records
// what was observed.
package eng

import (
	"context"
	"errors"
	"fmt"
	"sort"
	"strings"
	"sync"
	"sync/atomic"
	"time"
	"unsafe"

	evalfilter "github.com/skx/evalfilter/v2"
	"github.com/skx/evalfilter/v2/code"
	"github.com/skx/evalfilter/v2/object"
	"github.com/skx/evalfilter/v2/vm"

	"verif/internal/model"
)

// ErrBudget is returned (through the step hook) when a run exceeds its
// instruction budget or would perform a single huge allocation. Such a case
// is skipped by the monitors, never judged.
var ErrBudget = errors.New("verif: step budget or memory guard")

// Options configure an evaluator.
type Options struct {
	NoOptimize bool
	Budget     int64 // instruction budget per run (0 = 2,000,000)
	Ctx        context.Context
	NoHook     bool
	Vars       map[string]model.Value
	// TraceCap, when positive, stops the recording of host calls once that many bytes
	// have been recorded in one run (crash oracles do not compare traces, and printing
	// a value nested thousands of levels deep at every call is cubic).
	TraceCap int
	// PrePrepare calls Prepare once before the context is set (and then again after
	// SetContext, as documented): an API order a host may well use to validate a script.
	PrePrepare bool
	// ObjVars are variables given as engine objects (SetVariable).
	ObjVars map[string]object.Object
	// Funcs are extra host functions (AddFunction).
	Funcs map[string]func(args []object.Object) object.Object
}

// Obs is what one run showed.
type Obs struct {
	Err      error
	Panicked bool // a panic escaped the public API (caught by the adapter)
	PanicMsg string
	Budget   bool
	Type     string
	Print    string
	Truth    bool
	Nil      bool // the API returned a nil object without error
	Trace    []string
	Steps    int64
	// Invariant is the first violation of a machine invariant the step hook saw during
	// the run (empty: none). Desc shows it instead of the result, so that every
	// comparison made by a check reports it.
	Invariant string
}

// Desc renders the result for comparisons: "error" or "TYPE:printed".
func (o Obs) Desc() string {
	if o.Invariant != "" {
		return "INVARIANT-VIOLATED(" + o.Invariant + ")"
	}
	if o.Panicked {
		return "PANIC(" + o.PanicMsg + ")"
	}
	if o.Err != nil {
		return "error"
	}
	if o.Nil {
		return "NIL-OBJECT"
	}
	return o.Type + ":" + o.Print
}

// Evaluator wraps one prepared engine evaluator.
type Evaluator struct {
	E       *evalfilter.Eval
	Script  string
	trace   []string
	steps   int64
	budget  int64
	OpHist  *[64]int64 // optional shared opcode histogram
	OnStep  func(m *vm.VM, ip int, op code.Opcode) error
	stopped atomic.Bool

	traceCap, traceBytes int

	prevCall  bool
	invariant string
	noHook    bool

	progOf   *vm.VM   // the machine the fingerprint below was taken from
	progMain string   // main bytecode
	progFns  string   // functions, by name
	progCons []string // constants, printed
	progSkip bool
}

// Describe renders an engine object as "TYPE:printed".
func Describe(o object.Object) string {
	if o == nil {
		return "NIL-OBJECT"
	}
	return string(o.Type()) + ":" + o.Inspect()
}

func (ev *Evaluator) hostT(args []object.Object) object.Object {
	ev.record("t", args)
	return &object.Void{}
}

func (ev *Evaluator) hostV(args []object.Object) object.Object {
	ev.record("v", args)
	if len(args) == 0 {
		return &object.Null{}
	}
	return args[0]
}

func (ev *Evaluator) record(name string, args []object.Object) {
	if ev.traceCap > 0 && ev.traceBytes > ev.traceCap {
		return
	}
	defer func() {
		if ev.traceCap > 0 {
			ev.traceBytes += len(ev.trace[len(ev.trace)-1])
		}
	}()
	parts := make([]string, len(args))
	for i, a := range args {
		parts[i] = Describe(a)
	}
	ev.trace = append(ev.trace, name+"("+strings.Join(parts, ", ")+")")
}

// New creates an evaluator, registers the trace functions t (void) and v
// (returns its first argument), sets variables and calls Prepare. A panic
// escaping Prepare is reported as an error wrapping ErrPanic.
func New(script string, opt Options) (ev *Evaluator, err error) {
	ev = &Evaluator{Script: script, budget: opt.Budget, traceCap: opt.TraceCap, noHook: opt.NoHook}
	if ev.budget == 0 {
		ev.budget = 2000000
	}
	defer func() {
		if r := recover(); r != nil {
			err = fmt.Errorf("%w: %v", ErrPanic, r)
		}
	}()
	e := evalfilter.New(script)
	ev.E = e
	e.AddFunction("t", ev.hostT)
	e.AddFunction("v", ev.hostV)
	if opt.PrePrepare {
		if opt.NoOptimize {
			e.Prepare([]byte{evalfilter.NoOptimize})
		} else {
			e.Prepare()
		}
	}
	if opt.Ctx != nil {
		e.SetContext(opt.Ctx)
	}
	for k, v := range opt.Vars {
		e.SetVariable(k, ToObject(v))
	}
	for k, v := range opt.ObjVars {
		e.SetVariable(k, v)
	}
	for k, f := range opt.Funcs {
		e.AddFunction(k, f)
	}
	if opt.NoOptimize {
		err = e.Prepare([]byte{evalfilter.NoOptimize})
	} else {
		err = e.Prepare()
	}
	if err != nil {
		return ev, err
	}
	if !opt.NoHook {
		ev.installHook()
	}
	return ev, nil
}

// ErrPanic marks a panic that escaped the public API.
var ErrPanic = errors.New("panic escaped the API")

func (ev *Evaluator) installHook() {
	m := ev.E.VerifMachine()
	if m == nil {
		return
	}
	m.VerifSetStepHook(func(m *vm.VM, ip int, op code.Opcode) error {
		atomic.AddInt64(&ev.steps, 1)
		// invariant: the body of a user-defined function starts on an empty value stack
		if ev.prevCall && ip == 0 && ev.invariant == "" {
			if d := m.VerifStackDepth(); d != 0 {
				ev.invariant = fmt.Sprintf("a function body started with %d operand(s) already on its value stack (top: %s)", d, Describe(m.VerifStackPeek(0)))
			}
		}
		// invariant: a run starts on an empty value stack (whatever the last run left behind)
		if atomic.LoadInt64(&ev.steps) == 1 && ip == 0 && ev.invariant == "" {
			if d := m.VerifStackDepth(); d != 0 {
				ev.invariant = fmt.Sprintf("a run started with %d operand(s) already on the value stack (top: %s)", d, Describe(m.VerifStackPeek(0)))
			}
		}
		ev.prevCall = op == code.OpCall
		if ev.OpHist != nil && int(op) < 64 {
			atomic.AddInt64(&ev.OpHist[op], 1)
		}
		if ev.steps > ev.budget {
			return ErrBudget
		}
		switch op {
		case code.OpRange:
			hi, lo := m.VerifStackPeek(0), m.VerifStackPeek(1)
			if h, ok := hi.(*object.Integer); ok {
				if l, ok := lo.(*object.Integer); ok {
					if h.Value > l.Value && uint64(h.Value-l.Value) > 300000 {
						return ErrBudget
					}
				}
			}
		case code.OpAdd:
			a, b := m.VerifStackPeek(0), m.VerifStackPeek(1)
			if x, ok := a.(*object.String); ok {
				if y, ok := b.(*object.String); ok && len(x.Value)+len(y.Value) > 1<<20 {
					return ErrBudget
				}
			}
		}
		if ev.OnStep != nil {
			return ev.OnStep(m, ip, op)
		}
		return nil
	})
}

// Steps returns the instructions dispatched by the last run.
func (ev *Evaluator) Steps() int64 { return atomic.LoadInt64(&ev.steps) }

// Exec runs Execute on the object and records the observation.
func (ev *Evaluator) Exec(obj interface{}) (o Obs) {
	ev.trace = nil
	ev.traceBytes = 0
	atomic.StoreInt64(&ev.steps, 0)
	ev.prevCall, ev.invariant = false, ""
	defer watch(ev, "Execute")()
	defer func() {
		if r := recover(); r != nil {
			o.Panicked = true
			o.PanicMsg = fmt.Sprint(r)
			o.Trace = ev.trace
			o.Steps = ev.steps
			o.Invariant = ev.invariant
		}
	}()
	ev.programBefore()
	res, err := ev.E.Execute(obj)
	ev.programAfter()
	o.Trace = ev.trace
	o.Steps = ev.steps
	o.Invariant = ev.invariant
	if err != nil {
		o.Err = err
		if errors.Is(err, ErrBudget) || strings.Contains(err.Error(), ErrBudget.Error()) {
			o.Budget = true
		}
		return o
	}
	if res == nil {
		o.Nil = true
		return o
	}
	o.Type = string(res.Type())
	o.Print = res.Inspect()
	o.Truth = res.True()
	return o
}

// RunBool calls Run (the boolean front end).
func (ev *Evaluator) RunBool(obj interface{}) (b bool, err error, panicked bool, msg string) {
	ev.trace = nil
	ev.traceBytes = 0
	atomic.StoreInt64(&ev.steps, 0)
	defer watch(ev, "Run")()
	defer func() {
		if r := recover(); r != nil {
			panicked = true
			msg = fmt.Sprint(r)
		}
	}()
	ev.programBefore()
	b, err = ev.E.Run(obj)
	ev.programAfter()
	if ev.invariant != "" && err == nil {
		err = errors.New("INVARIANT-VIOLATED(" + ev.invariant + ")")
	}
	return
}

// Trace returns the host-call trace of the last run.
func (ev *Evaluator) Trace() []string { return ev.trace }

// Var reads a variable back as "TYPE:printed".
func (ev *Evaluator) Var(name string) string { return Describe(ev.E.GetVariable(name)) }

// Globals returns all global variables as name -> "TYPE:printed" (hook).
func (ev *Evaluator) Globals() map[string]string {
	out := map[string]string{}
	for k, v := range ev.E.VerifEnvironment().VerifGlobals() {
		if k == "OPTIMIZE" || k == "DEBUG" {
			continue
		}
		out[k] = Describe(v)
	}
	return out
}

// GlobalsString renders Globals deterministically.
func (ev *Evaluator) GlobalsString() string {
	g := ev.Globals()
	keys := make([]string, 0, len(g))
	for k := range g {
		keys = append(keys, k)
	}
	sort.Strings(keys)
	var b strings.Builder
	for _, k := range keys {
		b.WriteString(k + "=" + g[k] + ";")
	}
	return b.String()
}

// ScopeDepth returns the number of open local scopes (hook).
func (ev *Evaluator) ScopeDepth() int { return ev.E.VerifEnvironment().VerifScopeDepth() }

// ToObject converts a model value to an engine object (for SetVariable).
func ToObject(v model.Value) object.Object {
	switch v.K {
	case model.KInt:
		return &object.Integer{Value: v.I}
	case model.KFloat:
		return &object.Float{Value: v.F}
	case model.KStr:
		return &object.String{Value: v.S}
	case model.KBool:
		return &object.Boolean{Value: v.B}
	case model.KRegex:
		return &object.Regexp{Value: v.S}
	case model.KArr:
		els := make([]object.Object, len(v.A))
		for i, e := range v.A {
			els[i] = ToObject(e)
		}
		return &object.Array{Elements: els}
	case model.KHash:
		pairs := map[object.HashKey]object.HashPair{}
		for _, e := range v.H {
			k := ToObject(e.Key)
			pairs[k.(object.Hashable).HashKey()] = object.HashPair{Key: k, Value: ToObject(e.Val)}
		}
		return &object.Hash{Pairs: pairs}
	case model.KVoid:
		return &object.Void{}
	}
	return &object.Null{}
}

// ToGo converts a model value to the Go value a host would put in a
// map[string]interface{} document: int64 → int, float64, string, bool,
// []interface{}, map[string]interface{}, nil. ok is false when the value has
// no such representation (regexp, hash with non-string keys).
func ToGo(v model.Value) (interface{}, bool) {
	switch v.K {
	case model.KInt:
		return int(v.I), true
	case model.KFloat:
		return v.F, true
	case model.KStr:
		return v.S, true
	case model.KBool:
		return v.B, true
	case model.KNull:
		return nil, true
	case model.KArr:
		out := make([]interface{}, len(v.A))
		for i, e := range v.A {
			g, ok := ToGo(e)
			if !ok || e.K == model.KArr || e.K == model.KHash || e.K == model.KNull {
				return nil, false
			}
			out[i] = g
		}
		return out, true
	case model.KHash:
		out := map[string]interface{}{}
		for _, e := range v.H {
			if e.Key.K != model.KStr {
				return nil, false
			}
			g, ok := ToGo(e.Val)
			if !ok {
				return nil, false
			}
			out[e.Key.S] = g
		}
		return out, true
	}
	return nil, false
}

// FieldsToMap converts model fields to a map document. Fields that cannot be
// represented are dropped and reported.
func FieldsToMap(f map[string]model.Value) (map[string]interface{}, bool) {
	out := map[string]interface{}{}
	all := true
	for k, v := range f {
		g, ok := ToGo(v)
		if !ok {
			all = false
			continue
		}
		out[k] = g
	}
	return out, all
}

// CloneObject makes a deep copy of an engine object (so that two evaluators
// never share mutable objects).
func CloneObject(o object.Object) object.Object {
	switch v := o.(type) {
	case *object.Integer:
		return &object.Integer{Value: v.Value}
	case *object.Float:
		return &object.Float{Value: v.Value}
	case *object.String:
		return &object.String{Value: v.Value}
	case *object.Boolean:
		return &object.Boolean{Value: v.Value}
	case *object.Regexp:
		return &object.Regexp{Value: v.Value}
	case *object.Null:
		return &object.Null{}
	case *object.Void:
		return &object.Void{}
	case *object.Array:
		els := make([]object.Object, len(v.Elements))
		for i, e := range v.Elements {
			els[i] = CloneObject(e)
		}
		return &object.Array{Elements: els}
	case *object.Hash:
		pairs := map[object.HashKey]object.HashPair{}
		for k, p := range v.Pairs {
			pairs[k] = object.HashPair{Key: CloneObject(p.Key), Value: CloneObject(p.Value)}
		}
		return &object.Hash{Pairs: pairs}
	}
	return o
}

// CopyVarsTo sets every global variable of ev (deep-copied) on the other
// evaluator through the public SetVariable API.
func (ev *Evaluator) CopyVarsTo(other *Evaluator) {
	for k, v := range ev.E.VerifEnvironment().VerifGlobals() {
		if k == "OPTIMIZE" || k == "DEBUG" {
			continue
		}
		other.E.SetVariable(k, CloneObject(v))
	}
}

// ProgramDump renders the prepared program canonically: constants, main body
// and function bodies (sorted by name), as hex.
func (ev *Evaluator) ProgramDump() string {
	m := ev.E.VerifMachine()
	var b strings.Builder
	for i, c := range m.VerifConstants() {
		fmt.Fprintf(&b, "const %d %s\n", i, Describe(c))
	}
	fmt.Fprintf(&b, "main %x\n", []byte(m.VerifBytecode()))
	fns := m.VerifFunctions()
	names := make([]string, 0, len(fns))
	for k := range fns {
		names = append(names, k)
	}
	sort.Strings(names)
	for _, k := range names {
		fmt.Fprintf(&b, "func %s(%s) %x\n", k, strings.Join(fns[k].Arguments, ","), []byte(fns[k].Bytecode))
	}
	return b.String()
}

// ConstDump renders the constant pool only.
func (ev *Evaluator) ConstDump() string {
	var b strings.Builder
	for i, c := range ev.E.VerifMachine().VerifConstants() {
		fmt.Fprintf(&b, "const %d %s\n", i, Describe(c))
	}
	return b.String()
}

// MainBytecode returns the bytecode the machine is currently pointed at.
func (ev *Evaluator) MainBytecode() string {
	return fmt.Sprintf("%x", []byte(ev.E.VerifMachine().VerifBytecode()))
}

// ---------------------------------------------------------------------------
// Hang monitor. Every Execute / Run made through the adapter is registered while it is
// in flight; one background goroutine looks at the registered calls once a second. A
// call that has dispatched no instruction for HangAfter (the step hook counts them) is
// stuck inside a single instruction - no deadline can reach it there - and OnHang is
// called (once). The verdict is state-based (no progress in logical steps); the clock
// only decides when to look. Calls made without the hook have no step counter: for them
// the handler is called with steps = -1 after four times as long (inconclusive).

// HangAfter is how long a call may sit in one instruction before OnHang is called.
var HangAfter = 45 * time.Second

// OnHang is set by the driver; nil disables the monitor.
var OnHang func(script, api string, steps int64, stuck time.Duration)

type flight struct {
	api        string
	lastSteps  int64
	lastChange time.Time
	reported   bool
}

const flightShards = 32

var (
	flights     [flightShards]map[*Evaluator]*flight
	flightLocks [flightShards]sync.Mutex
	monitorOnce sync.Once
)

func shardOf(ev *Evaluator) int { return int((uintptr(unsafe.Pointer(ev)) >> 6) % flightShards) }

func watch(ev *Evaluator, api string) func() {
	if OnHang == nil {
		return func() {}
	}
	monitorOnce.Do(func() { go monitor() })
	sh := shardOf(ev)
	flightLocks[sh].Lock()
	if flights[sh] == nil {
		flights[sh] = map[*Evaluator]*flight{}
	}
	flights[sh][ev] = &flight{api: api, lastChange: time.Now()}
	flightLocks[sh].Unlock()
	return func() {
		flightLocks[sh].Lock()
		delete(flights[sh], ev)
		flightLocks[sh].Unlock()
	}
}

func monitor() {
	for {
		time.Sleep(time.Second)
		now := time.Now()
		for sh := 0; sh < flightShards; sh++ {
			var stuck []*Evaluator
			var infos []flight
			flightLocks[sh].Lock()
			for ev, f := range flights[sh] {
				cur := atomic.LoadInt64(&ev.steps)
				limit := HangAfter
				if ev.noHook {
					// no step counter to look at: only a (longer) wall-clock watchdog, whose
					// firing the handler must treat as inconclusive
					cur, limit = -1, 4*HangAfter
					if f.lastSteps != -1 {
						f.lastSteps = -1
					}
				}
				if cur != f.lastSteps {
					f.lastSteps, f.lastChange = cur, now
				} else if !f.reported && now.Sub(f.lastChange) > limit {
					f.reported = true
					stuck = append(stuck, ev)
					infos = append(infos, *f)
				}
			}
			flightLocks[sh].Unlock()
			for i, ev := range stuck {
				if h := OnHang; h != nil {
					h(ev.Script, infos[i].api, infos[i].lastSteps, now.Sub(infos[i].lastChange))
				}
			}
		}
	}
}

// ---------------------------------------------------------------------------
// Invariant: a run does not change the prepared program. Before a run the adapter takes a
// fingerprint of the machine's main bytecode, function table and constant pool (anew
// whenever Prepare has built another machine); after the run it must be the same.

func (ev *Evaluator) programBefore() {
	m := ev.E.VerifMachine()
	if m == nil || m == ev.progOf {
		return
	}
	ev.progOf = m
	cons := m.VerifConstants()
	ev.progSkip = len(cons) > 256 || len(m.VerifBytecode()) > 16384
	if ev.progSkip {
		return
	}
	ev.progMain, ev.progFns, ev.progCons = programPrint(m)
}

func programPrint(m *vm.VM) (string, string, []string) {
	main := string(m.VerifBytecode())
	fns := m.VerifFunctions()
	names := make([]string, 0, len(fns))
	for n := range fns {
		names = append(names, n)
	}
	sort.Strings(names)
	var fb strings.Builder
	for _, n := range names {
		fmt.Fprintf(&fb, "%s(%s)=%x;", n, strings.Join(fns[n].Arguments, ","), []byte(fns[n].Bytecode))
	}
	cons := m.VerifConstants()
	cs := make([]string, len(cons))
	for i, c := range cons {
		cs[i] = Describe(c)
	}
	return main, fb.String(), cs
}

func (ev *Evaluator) programAfter() {
	m := ev.E.VerifMachine()
	if m == nil || m != ev.progOf || ev.progSkip || ev.invariant != "" {
		return
	}
	main, fns, cons := programPrint(m)
	switch {
	case main != ev.progMain:
		ev.invariant = "the main bytecode of the prepared program changed during a run"
	case fns != ev.progFns:
		ev.invariant = "the function table of the prepared program changed during a run"
	case len(cons) != len(ev.progCons):
		ev.invariant = fmt.Sprintf("the constant pool of the prepared program changed size during a run (%d -> %d)", len(ev.progCons), len(cons))
	default:
		for i := range cons {
			if cons[i] != ev.progCons[i] {
				ev.invariant = fmt.Sprintf("constant #%d of the prepared program changed during a run: %s -> %s", i, ev.progCons[i], cons[i])
				break
			}
		}
	}
}
