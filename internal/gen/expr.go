package gen

import (
	"math/rand"

	"verif/internal/gast"
	"verif/internal/model"
)

// Env names the free variables and object fields an expression may use.
type Env struct {
	Vars   map[string]model.Value // script variables (SetVariable)
	Fields map[string]model.Value // host object fields
	byKind map[model.Kind][]string
}

// NewEnv draws an environment: a few variables and fields of every kind.
func NewEnv(r *rand.Rand) *Env {
	e := &Env{Vars: map[string]model.Value{}, Fields: map[string]model.Value{}}
	add := func(m map[string]model.Value, name string, v model.Value) { m[name] = v }
	add(e.Vars, "i1", RandScalar(r, model.KInt))
	add(e.Vars, "i2", model.Int(int64(r.Intn(7))))
	add(e.Vars, "f1", RandScalar(r, model.KFloat))
	add(e.Vars, "s1", RandScalar(r, model.KStr))
	add(e.Vars, "s2", RandScalar(r, model.KStr))
	add(e.Vars, "b1", RandScalar(r, model.KBool))
	add(e.Vars, "a1", RandValue(r, model.KArr))
	add(e.Vars, "h1", RandValue(r, model.KHash))
	add(e.Vars, "r1", RandScalar(r, model.KRegex))
	add(e.Fields, "I1", RandScalar(r, model.KInt))
	add(e.Fields, "I2", model.Int(int64(r.Intn(5))))
	add(e.Fields, "F1", RandScalar(r, model.KFloat))
	add(e.Fields, "S1", RandScalar(r, model.KStr))
	add(e.Fields, "B1", RandScalar(r, model.KBool))
	add(e.Fields, "A1", RandValue(r, model.KArr))
	// hash fields come from map[string]interface{}: string keys only
	h := RandValue(r, model.KHash)
	var ents []model.HashEnt
	for _, en := range h.H {
		if en.Key.K == model.KStr {
			ents = append(ents, en)
		}
	}
	add(e.Fields, "H1", model.Value{K: model.KHash, H: ents})
	add(e.Fields, "N1", model.Null())
	e.index()
	return e
}

func (e *Env) index() {
	e.byKind = map[model.Kind][]string{}
	for _, m := range []map[string]model.Value{e.Vars, e.Fields} {
		names := make([]string, 0, len(m))
		for k := range m {
			names = append(names, k)
		}
		sortStrings(names)
		for _, k := range names {
			e.byKind[m[k].K] = append(e.byKind[m[k].K], k)
		}
	}
}

func sortStrings(s []string) {
	for i := 1; i < len(s); i++ {
		for j := i; j > 0 && s[j] < s[j-1]; j-- {
			s[j], s[j-1] = s[j-1], s[j]
		}
	}
}

// ExprGen generates typed expressions.
type ExprGen struct {
	R   *rand.Rand
	Env *Env
	// IllTyped is the per-node probability (in 1/100) of ignoring types.
	IllTyped int
	// NoTernary suppresses ternaries entirely.
	NoTernary bool
	// Calls allows calls to total built-ins (len/type/string/int/...).
	Calls bool
	// ConstOnly restricts leaves to literals (for optimizer-facing cases).
	ConstBias int // 0..100: probability a leaf is a literal
}

var allKinds = []model.Kind{model.KInt, model.KFloat, model.KStr, model.KBool, model.KNull, model.KArr, model.KHash, model.KRegex}

// Any generates an expression of a random kind.
func (g *ExprGen) Any(depth int, noTern bool) gast.Expr {
	w := []model.Kind{model.KInt, model.KInt, model.KInt, model.KFloat, model.KFloat, model.KStr, model.KStr, model.KBool, model.KBool, model.KNull, model.KArr, model.KHash, model.KRegex}
	return g.Of(w[g.R.Intn(len(w))], depth, noTern)
}

func (g *ExprGen) leaf(k model.Kind) gast.Expr {
	bias := g.ConstBias
	if bias == 0 {
		bias = 45
	}
	if g.Env != nil && g.R.Intn(100) >= bias {
		if names := g.Env.byKind[k]; len(names) > 0 {
			n := names[g.R.Intn(len(names))]
			if g.R.Intn(12) == 0 {
				n = "$" + n // the legacy "$" prefix names the same field / variable
			}
			return gast.Ident{Name: n}
		}
	}
	if k == model.KNull {
		if g.R.Intn(3) == 0 {
			return gast.Ident{Name: "unset"}
		}
		return gast.NullLit{}
	}
	for i := 0; i < 8; i++ {
		if l, ok := LitOf(RandValue(g.R, k)); ok {
			return l
		}
	}
	return gast.IntLit{V: 1}
}

var cmpOps = []string{"<", "<=", ">", ">=", "==", "!="}

func (g *ExprGen) pick(s []string) string { return s[g.R.Intn(len(s))] }

// Of generates an expression intended to have kind k.
func (g *ExprGen) Of(k model.Kind, depth int, noTern bool) gast.Expr {
	if depth <= 0 {
		return g.leaf(k)
	}
	r := g.R
	if g.IllTyped > 0 && r.Intn(100) < g.IllTyped {
		ops := append([]string{}, gast.BinaryOps...)
		return gast.Infix{Op: g.pick(ops), L: g.Any(depth-1, noTern), R: g.Any(depth-1, noTern)}
	}
	if !noTern && !g.NoTernary && r.Intn(9) == 0 {
		// the condition may itself contain a ternary (only the arms may not)
		return gast.Ternary{C: g.Any(depth-1, false), A: g.Of(k, depth-1, true), B: g.Of(k, depth-1, true)}
	}
	if r.Intn(5) == 0 {
		return g.leaf(k)
	}
	d := depth - 1
	num := func() gast.Expr {
		if r.Intn(3) == 0 {
			return g.Of(model.KFloat, d, noTern)
		}
		return g.Of(model.KInt, d, noTern)
	}
	switch k {
	case model.KInt:
		switch r.Intn(10) {
		case 0:
			return gast.Prefix{Op: "-", X: g.Of(model.KInt, d, noTern)}
		case 1:
			return gast.Infix{Op: "**", L: g.Of(model.KInt, d, noTern), R: gast.IntLit{V: int64(r.Intn(4))}}
		case 2:
			if g.Calls {
				return gast.Call{Fn: "len", Args: []gast.Expr{g.Any(d, noTern)}}
			}
			fallthrough
		case 3:
			return gast.Index{X: gast.ArrayLit{Els: []gast.Expr{g.Of(model.KInt, d, noTern), g.Of(model.KInt, 0, noTern)}}, I: gast.IntLit{V: int64(r.Intn(3))}}
		default:
			return gast.Infix{Op: g.pick([]string{"+", "-", "*", "/", "%", "+", "-", "*"}), L: g.Of(model.KInt, d, noTern), R: g.Of(model.KInt, d, noTern)}
		}
	case model.KFloat:
		switch r.Intn(8) {
		case 0:
			return gast.Prefix{Op: "-", X: g.Of(model.KFloat, d, noTern)}
		case 1:
			return gast.Prefix{Op: "√", X: num()}
		case 2:
			return gast.Infix{Op: g.pick([]string{"+", "-", "*", "/"}), L: g.Of(model.KInt, d, noTern), R: g.Of(model.KFloat, d, noTern)}
		case 3:
			return gast.Infix{Op: g.pick([]string{"+", "-", "*", "/", "%", "**"}), L: g.Of(model.KFloat, d, noTern), R: g.Of(model.KInt, d, noTern)}
		default:
			return gast.Infix{Op: g.pick([]string{"+", "-", "*", "/"}), L: g.Of(model.KFloat, d, noTern), R: g.Of(model.KFloat, d, noTern)}
		}
	case model.KStr:
		switch r.Intn(6) {
		case 0:
			return gast.Index{X: g.Of(model.KStr, d, noTern), I: g.Of(model.KInt, 0, noTern)}
		case 1:
			if g.Calls {
				return gast.Call{Fn: g.pick([]string{"string", "type", "lower", "upper", "trim"}), Args: []gast.Expr{g.Any(d, noTern)}}
			}
			fallthrough
		default:
			return gast.Infix{Op: "+", L: g.Of(model.KStr, d, noTern), R: g.Of(model.KStr, d, noTern)}
		}
	case model.KBool:
		switch r.Intn(12) {
		case 0, 1:
			return gast.Infix{Op: g.pick(cmpOps), L: num(), R: num()}
		case 2:
			return gast.Infix{Op: g.pick(cmpOps), L: g.Of(model.KStr, d, noTern), R: g.Of(model.KStr, d, noTern)}
		case 3:
			return gast.Infix{Op: g.pick([]string{"~=", "!~"}), L: g.Of(model.KStr, d, noTern), R: g.Of(model.KRegex, 0, noTern)}
		case 4:
			return gast.Infix{Op: "in", L: g.Of(scalarKinds[r.Intn(len(scalarKinds))], d, noTern), R: g.Of(model.KArr, d, noTern)}
		case 5:
			return gast.Infix{Op: "in", L: g.Of(model.KStr, d, noTern), R: g.Of(model.KStr, d, noTern)}
		case 6, 7:
			return gast.Infix{Op: g.pick([]string{"&&", "||"}), L: g.Any(d, noTern), R: g.Any(d, noTern)}
		case 8:
			return gast.Prefix{Op: "!", X: g.Any(d, noTern)}
		case 9:
			return gast.Infix{Op: g.pick([]string{"==", "!="}), L: g.Of(model.KBool, d, noTern), R: g.Of(model.KBool, d, noTern)}
		default:
			return gast.Infix{Op: g.pick(cmpOps), L: g.Of(model.KInt, d, noTern), R: g.Of(model.KInt, d, noTern)}
		}
	case model.KArr:
		switch r.Intn(4) {
		case 0:
			lo := int64(r.Intn(5)) - 1
			return gast.Infix{Op: "..", L: mustLit(model.Int(lo)), R: mustLit(model.Int(lo + int64(r.Intn(5))))}
		case 1:
			n := r.Intn(4)
			els := make([]gast.Expr, n)
			for i := range els {
				els[i] = g.Of(scalarKinds[r.Intn(len(scalarKinds))], d, noTern)
			}
			return gast.ArrayLit{Els: els}
		default:
			return g.leaf(k)
		}
	case model.KHash:
		if r.Intn(2) == 0 {
			n := r.Intn(3)
			var ks, vs []gast.Expr
			for i := 0; i < n; i++ {
				ks = append(ks, gast.StrLit{V: string(rune('a' + i))})
				vs = append(vs, g.Of(scalarKinds[r.Intn(len(scalarKinds))], d, noTern))
			}
			return gast.HashLit{Keys: ks, Vals: vs}
		}
		return g.leaf(k)
	case model.KNull:
		switch r.Intn(3) {
		case 0:
			return gast.Index{X: g.Of(model.KArr, d, noTern), I: gast.IntLit{V: 99}}
		case 1:
			return gast.Index{X: g.Of(model.KHash, d, noTern), I: gast.StrLit{V: "absent"}}
		}
		return g.leaf(k)
	}
	return g.leaf(k)
}

func mustLit(v model.Value) gast.Expr {
	l, _ := LitOf(v)
	return l
}
