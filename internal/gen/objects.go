package gen

import (
	"fmt"
	"math/rand"
	"reflect"
	"time"

	"verif/internal/model"
)

// FieldSpec describes one generated struct field.
type FieldSpec struct {
	Name      string
	Exported  bool
	Supported bool        // the engine promises to convert it
	Want      model.Value // expected script-side value when Supported
	Kind      string
}

// HostObject is a generated host object with what a script should see.
type HostObject struct {
	Obj    interface{} // struct value, pointer to struct, or map
	Fields []FieldSpec
	Desc   string
}

type fieldGen struct {
	kind      string
	typ       reflect.Type
	supported bool
	make      func(r *rand.Rand) (reflect.Value, model.Value)
}

type nested struct {
	A int
	B string
}

func scalarOf(r *rand.Rand, k model.Kind) model.Value { return RandScalar(r, k) }

func fieldGens() []fieldGen {
	iv := func(r *rand.Rand) int64 { return RandScalar(r, model.KInt).I }
	return []fieldGen{
		{"int", reflect.TypeOf(int(0)), true, func(r *rand.Rand) (reflect.Value, model.Value) {
			v := iv(r)
			return reflect.ValueOf(int(v)), model.Int(v)
		}},
		{"int64", reflect.TypeOf(int64(0)), true, func(r *rand.Rand) (reflect.Value, model.Value) { v := iv(r); return reflect.ValueOf(v), model.Int(v) }},
		{"float64", reflect.TypeOf(float64(0)), true, func(r *rand.Rand) (reflect.Value, model.Value) {
			v := RandScalar(r, model.KFloat).F
			return reflect.ValueOf(v), model.Float(v)
		}},
		{"float32", reflect.TypeOf(float32(0)), true, func(r *rand.Rand) (reflect.Value, model.Value) {
			v := float32(r.Intn(2000)-1000) / 8
			return reflect.ValueOf(v), model.Float(float64(v))
		}},
		{"string", reflect.TypeOf(""), true, func(r *rand.Rand) (reflect.Value, model.Value) {
			v := StrPool[r.Intn(len(StrPool))]
			return reflect.ValueOf(v), model.Str(v)
		}},
		{"bool", reflect.TypeOf(true), true, func(r *rand.Rand) (reflect.Value, model.Value) {
			v := r.Intn(2) == 0
			return reflect.ValueOf(v), model.Bool(v)
		}},
		{"time.Time", reflect.TypeOf(time.Time{}), true, func(r *rand.Rand) (reflect.Value, model.Value) {
			s, ns := hostInstant(r)
			return reflect.ValueOf(time.Unix(s, ns)), model.Int(s)
		}},
		{"[]string", reflect.TypeOf([]string{}), true, func(r *rand.Rand) (reflect.Value, model.Value) {
			n := []int{0, 0, 1, 3}[r.Intn(4)]
			if r.Intn(6) == 0 {
				return reflect.Zero(reflect.TypeOf([]string{})), model.Arr() // nil slice
			}
			s := make([]string, n)
			var m []model.Value
			for i := range s {
				s[i] = StrPool[r.Intn(len(StrPool))]
				m = append(m, model.Str(s[i]))
			}
			return reflect.ValueOf(s), model.Value{K: model.KArr, A: m}
		}},
		{"[]int", reflect.TypeOf([]int{}), true, func(r *rand.Rand) (reflect.Value, model.Value) {
			n := r.Intn(4)
			s := make([]int, n)
			var m []model.Value
			for i := range s {
				s[i] = int(iv(r))
				m = append(m, model.Int(int64(s[i])))
			}
			return reflect.ValueOf(s), model.Value{K: model.KArr, A: m}
		}},
		{"[]int64", reflect.TypeOf([]int64{}), true, func(r *rand.Rand) (reflect.Value, model.Value) {
			n := r.Intn(4)
			s := make([]int64, n)
			var m []model.Value
			for i := range s {
				s[i] = iv(r)
				m = append(m, model.Int(s[i]))
			}
			return reflect.ValueOf(s), model.Value{K: model.KArr, A: m}
		}},
		{"[]float64", reflect.TypeOf([]float64{}), true, func(r *rand.Rand) (reflect.Value, model.Value) {
			n := r.Intn(4)
			s := make([]float64, n)
			var m []model.Value
			for i := range s {
				s[i] = RandScalar(r, model.KFloat).F
				m = append(m, model.Float(s[i]))
			}
			return reflect.ValueOf(s), model.Value{K: model.KArr, A: m}
		}},
		{"[]bool", reflect.TypeOf([]bool{}), true, func(r *rand.Rand) (reflect.Value, model.Value) {
			n := r.Intn(4)
			s := make([]bool, n)
			var m []model.Value
			for i := range s {
				s[i] = r.Intn(2) == 0
				m = append(m, model.Bool(s[i]))
			}
			return reflect.ValueOf(s), model.Value{K: model.KArr, A: m}
		}},
		{"[]time.Time", reflect.TypeOf([]time.Time{}), true, func(r *rand.Rand) (reflect.Value, model.Value) {
			n := r.Intn(3)
			s := make([]time.Time, n)
			var m []model.Value
			for i := range s {
				sec, ns := hostInstant(r)
				s[i] = time.Unix(sec, ns)
				m = append(m, model.Int(sec))
			}
			return reflect.ValueOf(s), model.Value{K: model.KArr, A: m}
		}},
		{"[]interface{}", reflect.TypeOf([]interface{}{}), true, func(r *rand.Rand) (reflect.Value, model.Value) {
			n := r.Intn(4)
			s := make([]interface{}, n)
			var m []model.Value
			for i := range s {
				v := RandScalar(r, scalarKinds[r.Intn(len(scalarKinds))])
				switch v.K {
				case model.KInt:
					s[i] = int(v.I)
				case model.KFloat:
					s[i] = v.F
				case model.KStr:
					s[i] = v.S
				case model.KBool:
					s[i] = v.B
				}
				m = append(m, v)
			}
			return reflect.ValueOf(s), model.Value{K: model.KArr, A: m}
		}},
		{"map[string]interface{}", reflect.TypeOf(map[string]interface{}{}), true, func(r *rand.Rand) (reflect.Value, model.Value) {
			n := r.Intn(4)
			mp := map[string]interface{}{}
			var ents []model.HashEnt
			for i := 0; i < n; i++ {
				k := fmt.Sprintf("k%d", i)
				v := RandScalar(r, scalarKinds[r.Intn(len(scalarKinds))])
				switch v.K {
				case model.KInt:
					mp[k] = int(v.I)
				case model.KFloat:
					mp[k] = v.F
				case model.KStr:
					mp[k] = v.S
				case model.KBool:
					mp[k] = v.B
				}
				ents = append(ents, model.HashEnt{Key: model.Str(k), Val: v})
			}
			if n > 0 && r.Intn(2) == 0 {
				mp["sub"] = map[string]interface{}{"x": 1, "y": "z"}
				ents = append(ents, model.HashEnt{Key: model.Str("sub"), Val: model.Hash(model.HashEnt{Key: model.Str("x"), Val: model.Int(1)}, model.HashEnt{Key: model.Str("y"), Val: model.Str("z")})})
			}
			return reflect.ValueOf(mp), model.Value{K: model.KHash, H: ents}
		}},
		// kinds the engine cannot represent: null or an error, never a wrong value or a crash
		{"uint", reflect.TypeOf(uint(0)), false, func(r *rand.Rand) (reflect.Value, model.Value) {
			return reflect.ValueOf(uint(r.Intn(100))), model.Null()
		}},
		{"uint8", reflect.TypeOf(uint8(0)), false, func(r *rand.Rand) (reflect.Value, model.Value) {
			return reflect.ValueOf(uint8(r.Intn(100))), model.Null()
		}},
		{"uint64", reflect.TypeOf(uint64(0)), false, func(r *rand.Rand) (reflect.Value, model.Value) { return reflect.ValueOf(uint64(1) << 63), model.Null() }},
		{"int8", reflect.TypeOf(int8(0)), false, func(r *rand.Rand) (reflect.Value, model.Value) {
			return reflect.ValueOf(int8(r.Intn(100))), model.Null()
		}},
		{"int16", reflect.TypeOf(int16(0)), false, func(r *rand.Rand) (reflect.Value, model.Value) {
			return reflect.ValueOf(int16(r.Intn(100))), model.Null()
		}},
		{"int32", reflect.TypeOf(int32(0)), false, func(r *rand.Rand) (reflect.Value, model.Value) {
			return reflect.ValueOf(int32(r.Intn(100))), model.Null()
		}},
		{"complex128", reflect.TypeOf(complex128(0)), false, func(r *rand.Rand) (reflect.Value, model.Value) { return reflect.ValueOf(complex(1, 2)), model.Null() }},
		{"*int", reflect.TypeOf((*int)(nil)), false, func(r *rand.Rand) (reflect.Value, model.Value) {
			if r.Intn(2) == 0 {
				return reflect.Zero(reflect.TypeOf((*int)(nil))), model.Null()
			}
			x := 5
			return reflect.ValueOf(&x), model.Null()
		}},
		{"*string", reflect.TypeOf((*string)(nil)), false, func(r *rand.Rand) (reflect.Value, model.Value) {
			s := "p"
			return reflect.ValueOf(&s), model.Null()
		}},
		{"struct", reflect.TypeOf(nested{}), false, func(r *rand.Rand) (reflect.Value, model.Value) { return reflect.ValueOf(nested{1, "n"}), model.Null() }},
		{"*struct", reflect.TypeOf((*nested)(nil)), false, func(r *rand.Rand) (reflect.Value, model.Value) {
			if r.Intn(2) == 0 {
				return reflect.Zero(reflect.TypeOf((*nested)(nil))), model.Null()
			}
			return reflect.ValueOf(&nested{2, "m"}), model.Null()
		}},
		{"[3]int", reflect.TypeOf([3]int{}), false, func(r *rand.Rand) (reflect.Value, model.Value) { return reflect.ValueOf([3]int{1, 2, 3}), model.Null() }},
		{"chan int", reflect.TypeOf((chan int)(nil)), false, func(r *rand.Rand) (reflect.Value, model.Value) {
			if r.Intn(2) == 0 {
				return reflect.Zero(reflect.TypeOf((chan int)(nil))), model.Null()
			}
			return reflect.ValueOf(make(chan int)), model.Null()
		}},
		{"func()", reflect.TypeOf((func())(nil)), false, func(r *rand.Rand) (reflect.Value, model.Value) {
			if r.Intn(2) == 0 {
				return reflect.Zero(reflect.TypeOf((func())(nil))), model.Null()
			}
			return reflect.ValueOf(func() {}), model.Null()
		}},
		{"interface{}", reflect.TypeOf((*interface{})(nil)).Elem(), false, func(r *rand.Rand) (reflect.Value, model.Value) {
			t := reflect.TypeOf((*interface{})(nil)).Elem()
			v := reflect.New(t).Elem()
			switch r.Intn(3) {
			case 0:
				v.Set(reflect.ValueOf(7))
			case 1:
				v.Set(reflect.ValueOf("s"))
			}
			return v, model.Null()
		}},
		{"error", reflect.TypeOf((*error)(nil)).Elem(), false, func(r *rand.Rand) (reflect.Value, model.Value) {
			t := reflect.TypeOf((*error)(nil)).Elem()
			v := reflect.New(t).Elem()
			if r.Intn(2) == 0 {
				v.Set(reflect.ValueOf(fmt.Errorf("e")))
			}
			return v, model.Null()
		}},
		{"map[string]int", reflect.TypeOf(map[string]int{}), false, func(r *rand.Rand) (reflect.Value, model.Value) {
			// not promised; if converted at all, this is the faithful value
			return reflect.ValueOf(map[string]int{"a": 1}), model.Hash(model.HashEnt{Key: model.Str("a"), Val: model.Int(1)})
		}},
		{"map[int]string", reflect.TypeOf(map[int]string{}), false, func(r *rand.Rand) (reflect.Value, model.Value) {
			return reflect.ValueOf(map[int]string{1: "a"}), model.Hash(model.HashEnt{Key: model.Int(1), Val: model.Str("a")})
		}},
		{"[]uint", reflect.TypeOf([]uint{}), false, func(r *rand.Rand) (reflect.Value, model.Value) { return reflect.ValueOf([]uint{1, 2}), model.Null() }},
		{"[][]int", reflect.TypeOf([][]int{}), false, func(r *rand.Rand) (reflect.Value, model.Value) {
			return reflect.ValueOf([][]int{{1}, {2}}), model.Null()
		}},
		{"time.Duration", reflect.TypeOf(time.Duration(0)), true, func(r *rand.Rand) (reflect.Value, model.Value) {
			// Duration has kind int64: the engine converts it as an integer
			d := time.Duration(r.Intn(100000))
			return reflect.ValueOf(d), model.Int(int64(d))
		}},
		{"*time.Time", reflect.TypeOf((*time.Time)(nil)), false, func(r *rand.Rand) (reflect.Value, model.Value) {
			t := time.Unix(99, 0)
			return reflect.ValueOf(&t), model.Null()
		}},
	}
}

// RandStruct builds a struct type at run time with n fields in random order.
// unsupportedPct is the percentage of fields of kinds the engine cannot
// represent; unexportedPct the percentage of unexported fields.
func RandStruct(r *rand.Rand, n, unsupportedPct, unexportedPct int) HostObject {
	gens := fieldGens()
	var sup, unsup []fieldGen
	for _, g := range gens {
		if g.supported {
			sup = append(sup, g)
		} else {
			unsup = append(unsup, g)
		}
	}
	var sf []reflect.StructField
	var specs []FieldSpec
	var vals []reflect.Value
	for i := 0; i < n; i++ {
		g := sup[r.Intn(len(sup))]
		if r.Intn(100) < unsupportedPct {
			g = unsup[r.Intn(len(unsup))]
		}
		exported := r.Intn(100) >= unexportedPct
		name := fmt.Sprintf("F%d", i)
		f := reflect.StructField{Name: name, Type: g.typ}
		if !exported {
			name = fmt.Sprintf("f%d", i)
			f.Name = name
			f.PkgPath = "verif/internal/gen"
		}
		v, want := g.make(r)
		if r.Intn(8) == 0 {
			// zero value
			v = reflect.Zero(g.typ)
			want = zeroWant(g, want)
		}
		sf = append(sf, f)
		vals = append(vals, v)
		specs = append(specs, FieldSpec{Name: name, Exported: exported, Supported: g.supported && exported, Want: want, Kind: g.kind})
	}
	t := reflect.StructOf(sf)
	pv := reflect.New(t)
	for i := range sf {
		if specs[i].Exported {
			pv.Elem().Field(i).Set(vals[i])
		}
	}
	// unexported fields cannot be set through reflection: they keep their zero
	// value, which is as hostile as any other for the engine's field walk
	ho := HostObject{Fields: specs}
	if r.Intn(2) == 0 {
		ho.Obj = pv.Interface()
		ho.Desc = "pointer to " + t.String()
	} else {
		ho.Obj = pv.Elem().Interface()
		ho.Desc = t.String()
	}
	return ho
}

func zeroWant(g fieldGen, want model.Value) model.Value {
	if !g.supported {
		if want.K == model.KHash {
			return model.Hash()
		}
		return model.Null()
	}
	switch want.K {
	case model.KInt:
		if g.kind == "time.Time" {
			return model.Int(time.Time{}.Unix())
		}
		return model.Int(0)
	case model.KFloat:
		return model.Float(0)
	case model.KStr:
		return model.Str("")
	case model.KBool:
		return model.Bool(false)
	case model.KArr:
		return model.Arr()
	case model.KHash:
		return model.Hash()
	}
	return want
}

// HostileValues are non-struct / odd top-level objects for the crash oracle.
func HostileValues() []interface{} {
	var np *nested
	var nm map[string]interface{}
	x := 3
	return []interface{}{
		nil, np, nm, 7, "str", 1.5, true, []int{1}, [2]int{1, 2}, func() {}, make(chan int), &x,
		map[int]string{1: "a"}, map[string]int{"a": 1}, map[string]string{"a": "b"}, map[interface{}]interface{}{"a": 1},
		map[string]interface{}{"a": nil, "b": []interface{}{nil, map[string]interface{}{}, []interface{}{1}}, "c": map[string]interface{}{"d": nil}, "e": uint(3), "f": &x, "g": nested{}, "h": func() {}, "i": map[int]int{1: 2}, "j": []uint{1}},
		map[string]interface{}{"": 1, "$x": 2, "a b": 3, "null": 4, "true": 5},
		struct{}{}, &struct{}{}, nested{1, "x"}, &nested{1, "x"}, time.Now(), &time.Time{},
		struct{ A interface{} }{nil}, struct{ A interface{} }{uint8(3)}, struct{ A []interface{} }{[]interface{}{nil, uint(1), nested{}}},
		struct{ a int }{1}, struct {
			A int
			b []int
		}{1, []int{2}}, struct {
			A int
			b nested
		}{1, nested{}},
		struct{ M map[string]interface{} }{nil}, struct{ M map[string]interface{} }{map[string]interface{}{"k": uint(1)}},
		struct{ P **int }{nil}, struct{ E error }{nil}, struct{ T time.Time }{time.Unix(5, 0)}, struct{ T *time.Time }{nil},
		reflect.ValueOf(3), []interface{}{1, 2},
		cyclicMap(1), cyclicMap(3), mutualMaps(), cyclicSlice(), struct{ M map[string]interface{} }{cyclicMap(2)},
		// cyclic and unrepresentable members *inside* slices, arrays and nested documents
		struct {
			F0    string
			Items []interface{}
		}{"x", []interface{}{"a", cyclicMap(1), selfSlice(), func() {}, make(chan int), mutualMaps()}},
		map[string]interface{}{"F0": 1, "Items": []interface{}{cyclicMap(2), []interface{}{cyclicSlice()}}, "A": [2]interface{}{cyclicMap(1), selfSlice()}},
		&struct {
			F0 int
			A  []map[string]interface{}
			M  map[string][]interface{}
		}{1, []map[string]interface{}{cyclicMap(1), nil}, map[string][]interface{}{"k": selfSlice()}},
		cyclicTree(), struct{ F0 tree }{cyclicTree()}, map[string]interface{}{"F0": cyclicTree(), "M": cyclicList()}, cyclicList(), struct{ A list }{cyclicList()},
		map[string]map[string]interface{}{"F0": cyclicMap(1)}, map[string][]map[string]interface{}{"F1": {cyclicMap(1), mutualMaps()}},
		cyclicStruct(), []interface{}{selfSlice()}, map[string]interface{}{"F0": cyclicStruct(), "F1": []interface{}{cyclicStruct()}},
	}
}

// cyclicMap is a map that contains itself under n keys.
func cyclicMap(n int) map[string]interface{} {
	m := map[string]interface{}{"a": 1, "F0": "x"}
	for i := 0; i < n; i++ {
		m[fmt.Sprintf("self%d", i)] = m
	}
	m["F1"] = m
	return m
}

// mutualMaps are two maps that contain each other.
func mutualMaps() map[string]interface{} {
	a := map[string]interface{}{"F0": 1}
	b := map[string]interface{}{"F1": 2, "back": a}
	a["F2"] = b
	a["A"] = []interface{}{1, b}
	return a
}

// cyclicSlice is a document whose slice contains the document.
func cyclicSlice() map[string]interface{} {
	m := map[string]interface{}{"F0": 1}
	s := []interface{}{1, m}
	m["F1"] = s
	s[0] = s
	return m
}

// selfSlice is a slice whose first member is the slice itself.
func selfSlice() []interface{} {
	s := make([]interface{}, 2)
	s[0], s[1] = s, "tail"
	return s
}

type ring struct {
	Name string
	Next *ring
	Kids []*ring
	Any  interface{}
}

// cyclicStruct is a struct reachable from itself through a pointer, a slice and an interface.
func cyclicStruct() *ring {
	r := &ring{Name: "r"}
	r.Next = r
	r.Kids = []*ring{r}
	r.Any = r
	return r
}

// hostInstant draws an instant a host might hold in a time.Time: around now, around the
// epoch (before it, with a fraction of a second), and anywhere in the years 1 to 9999. A
// script sees the whole seconds since the epoch, rounded down (time.Time.Unix).
func hostInstant(r *rand.Rand) (sec, nsec int64) {
	nsec = []int64{0, 0, 1, 500000000, 999999999, int64(r.Intn(1000000000))}[r.Intn(6)]
	switch r.Intn(6) {
	case 0:
		sec = int64(r.Intn(2000000000)) - 100000
	case 1:
		sec = -int64(r.Intn(100000)) - 1 // shortly before 1970
	case 2:
		sec = -62135596800 + r.Int63n(253402300799+62135596800) // years 1 .. 9999
	case 3:
		sec = []int64{-62135596800, -11644473600, -9223372037, -9223372036, 9223372036, 9223372037, 253402300799, -1, 0}[r.Intn(9)]
	default:
		sec = int64(r.Intn(2000000000))
	}
	return sec, nsec
}

// tree and list are recursive container types with concrete (non-interface) members.
type tree map[string]tree
type list []list

// cyclicTree is a map of a recursive concrete map type that contains itself.
func cyclicTree() tree {
	t := tree{"leaf": tree{}}
	t["self"] = t
	t["F0"] = tree{"up": t}
	return t
}

// cyclicList is a slice of a recursive concrete slice type that contains itself.
func cyclicList() list {
	l := make(list, 2)
	l[0] = l
	l[1] = list{l}
	return l
}
