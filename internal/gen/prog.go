package gen

import (
	"fmt"
	"math/rand"

	"verif/internal/gast"
	"verif/internal/model"
)

// ProgGen generates structured, terminating programs.
type ProgGen struct {
	R *rand.Rand
	E *ExprGen
	// CondFields is the number of boolean-ish object fields C1..Ck that
	// conditions are drawn from (so that all truth assignments can be run).
	CondFields int
	MaxDepth   int
	MaxStmts   int
	// Funcs is the number of user-defined functions to generate (0 = none).
	Funcs int
	// Faults enables field-controlled fault injectors (errors, panics, arity
	// mismatches) for history checks.
	Faults bool
	// ConstHeavy biases expressions towards literal arithmetic (optimizer).
	ConstHeavy bool
	// Mutators enables ++ -- += -= *= /= statements.
	Mutators bool

	tid      int
	wid      int
	funcs    []fnInfo
	curFn    *fnInfo
	loopVars []string
}

type fnInfo struct {
	name   string
	params []string
	value  bool // returns a value on every path
	rec    bool // recursive on its first parameter (must be a small int)
	locals []string
}

var globalNames = []string{"g1", "g2", "x", "y", "a", "acc"}
var paramNames = []string{"a", "b", "x", "n"}
var loopVarNames = []string{"e", "x", "a", "el"}
var idxNames = []string{"i", "k", "a", "x", "b"}

func (g *ProgGen) nextT() gast.Expr {
	g.tid++
	return gast.IntLit{V: int64(g.tid)}
}

// traceStmt is `t(id, args...)`: a void host call that makes the executed path
// visible in the host-call trace.
func (g *ProgGen) traceStmt(args ...gast.Expr) gast.Stmt {
	a := append([]gast.Expr{g.nextT()}, args...)
	return gast.ExprStmt{X: gast.Call{Fn: "t", Args: a}}
}

func (g *ProgGen) cond(depth int) gast.Expr {
	r := g.R
	if g.CondFields > 0 && r.Intn(10) < 7 {
		c := gast.Ident{Name: fmt.Sprintf("C%d", 1+r.Intn(g.CondFields))}
		switch r.Intn(8) {
		case 0:
			return gast.Prefix{Op: "!", X: c}
		case 1:
			return gast.Infix{Op: "&&", L: c, R: gast.Ident{Name: fmt.Sprintf("C%d", 1+r.Intn(g.CondFields))}}
		case 2:
			return gast.Infix{Op: "||", L: c, R: gast.Ident{Name: fmt.Sprintf("C%d", 1+r.Intn(g.CondFields))}}
		case 3:
			return gast.Call{Fn: "v", Args: []gast.Expr{c}}
		}
		return c
	}
	if g.ConstHeavy && r.Intn(2) == 0 {
		return g.constCond()
	}
	return g.E.Of(model.KBool, 1+r.Intn(2), false)
}

// constCond is a constant condition the optimizer can decide.
func (g *ProgGen) constCond() gast.Expr {
	r := g.R
	a, b := int64(r.Intn(4)), int64(r.Intn(4))
	switch r.Intn(5) {
	case 0:
		return gast.BoolLit{V: r.Intn(2) == 0}
	case 1:
		return gast.Infix{Op: "==", L: gast.IntLit{V: a}, R: gast.IntLit{V: b}}
	case 2:
		return gast.Infix{Op: "!=", L: gast.IntLit{V: a}, R: gast.IntLit{V: b}}
	case 3:
		return gast.Infix{Op: "==", L: gast.Infix{Op: "+", L: gast.IntLit{V: a}, R: gast.IntLit{V: 1}}, R: gast.IntLit{V: b}}
	}
	return gast.IntLit{V: a}
}

// constExpr is constant integer arithmetic around the inline limit.
func (g *ProgGen) constExpr(depth int) gast.Expr {
	r := g.R
	lits := []int64{0, 1, 2, 3, 4, 9, 16, 255, 256, 32767, 32768, 65533, 65534, 65535, 65536, 65537}
	if depth <= 0 || r.Intn(3) == 0 {
		return gast.IntLit{V: lits[r.Intn(len(lits))]}
	}
	op := []string{"+", "-", "*", "/", "+", "*"}[r.Intn(6)]
	e := gast.Infix{Op: op, L: g.constExpr(depth - 1), R: g.constExpr(depth - 1)}
	if r.Intn(6) == 0 {
		return gast.Paren{X: e}
	}
	return e
}

func (g *ProgGen) valueExpr(depth int) gast.Expr {
	r := g.R
	if g.ConstHeavy && r.Intn(2) == 0 {
		switch r.Intn(6) {
		case 0:
			return gast.Infix{Op: g.E.pick([]string{"+", "-", "*"}), L: g.constExpr(2), R: g.localOrGlobal()}
		case 1:
			return gast.Ternary{C: g.constCond(), A: g.constExpr(1), B: g.constExpr(1)}
		case 2:
			return gast.Infix{Op: "+", L: gast.Paren{X: gast.Ternary{C: g.cond(1), A: g.constExpr(1), B: g.constExpr(1)}}, R: g.constExpr(1)}
		case 3:
			return gast.Prefix{Op: "√", X: gast.Infix{Op: "+", L: g.localOrGlobal(), R: g.constExpr(1)}}
		}
		return g.constExpr(2)
	}
	if len(g.funcs) > 0 && r.Intn(4) == 0 {
		if c, ok := g.valueCall(depth); ok {
			return c
		}
	}
	if r.Intn(5) == 0 {
		return g.localOrGlobal()
	}
	return g.E.Any(depth, false)
}

func (g *ProgGen) localOrGlobal() gast.Expr {
	r := g.R
	if g.curFn != nil {
		names := append(append([]string{}, g.curFn.params...), g.curFn.locals...)
		if len(names) > 0 && r.Intn(4) != 0 {
			return gast.Ident{Name: names[r.Intn(len(names))]}
		}
	}
	if len(g.loopVars) > 0 && r.Intn(2) == 0 {
		return gast.Ident{Name: g.loopVars[r.Intn(len(g.loopVars))]}
	}
	return gast.Ident{Name: globalNames[r.Intn(len(globalNames))]}
}

func (g *ProgGen) assignTarget() string {
	r := g.R
	if g.curFn != nil && r.Intn(3) != 0 {
		names := append(append([]string{}, g.curFn.params...), g.curFn.locals...)
		if g.curFn.rec {
			names = names[1:] // never reassign the recursion counter
		}
		if len(names) > 0 {
			return names[r.Intn(len(names))]
		}
	}
	return globalNames[r.Intn(len(globalNames))]
}

// valueCall builds a call to a value-returning user function that is safe to
// use in value position.
func (g *ProgGen) valueCall(depth int) (gast.Expr, bool) {
	var cands []fnInfo
	for _, f := range g.funcs {
		if f.value && (g.curFn == nil || f.name != g.curFn.name) {
			cands = append(cands, f)
		}
	}
	if len(cands) == 0 {
		return nil, false
	}
	f := cands[g.R.Intn(len(cands))]
	return g.callOf(f, depth), true
}

func (g *ProgGen) callOf(f fnInfo, depth int) gast.Expr {
	args := make([]gast.Expr, len(f.params))
	for i := range args {
		if i == 0 && f.rec {
			args[i] = gast.IntLit{V: int64(g.R.Intn(5))}
		} else if depth > 0 {
			args[i] = g.E.Any(depth-1, false)
		} else {
			args[i] = g.E.Any(0, false)
		}
	}
	return gast.Call{Fn: f.name, Args: args}
}

func (g *ProgGen) block(depth, n int) []gast.Stmt {
	var out []gast.Stmt
	if n > 0 && depth < g.MaxDepth && g.R.Intn(8) == 0 {
		// an empty block is a block too: `if (c) { }`, `else { }`, `case 1 { }`
		// (not the program itself: running an empty program is a deliberate error)
		return out
	}
	for i := 0; i < n; i++ {
		out = append(out, g.stmt(depth)...)
	}
	return out
}

func (g *ProgGen) iterable() gast.Expr {
	r := g.R
	switch r.Intn(9) {
	case 0:
		return gast.ArrayLit{}
	case 1:
		return gast.StrLit{V: StrPool[r.Intn(len(StrPool))]}
	case 2:
		lo := int64(r.Intn(4))
		return gast.Infix{Op: "..", L: gast.IntLit{V: lo}, R: gast.IntLit{V: lo + int64(r.Intn(4))}}
	case 3:
		l, _ := LitOf(RandValue(r, model.KHash))
		return l
	case 4:
		return g.E.leaf(model.KArr)
	case 5:
		return g.E.leaf(model.KHash)
	case 6:
		return g.E.leaf(model.KStr)
	case 7:
		l, _ := LitOf(RandValue(r, model.KArr))
		return l
	}
	return g.E.Of(model.KArr, 1, false)
}

// faultStmt is a field-controlled fault injector: the fault fires only when
// the object's field Fk is truthy.
func (g *ProgGen) faultStmt() gast.Stmt {
	r := g.R
	k := 1 + r.Intn(5)
	var body []gast.Stmt
	switch k {
	case 1:
		div := gast.Infix{Op: "/", L: gast.IntLit{V: 1}, R: gast.Ident{Name: "ZERO"}}
		switch r.Intn(3) {
		case 0:
			body = []gast.Stmt{gast.Assign{Name: "g1", X: div}}
		case 1:
			// the fault strikes in mid-expression, with operands already on the value stack
			body = []gast.Stmt{gast.Assign{Name: "g1", X: gast.Infix{Op: "+", L: gast.IntLit{V: 7}, R: gast.Paren{X: div}}}}
		default:
			body = []gast.Stmt{gast.Assign{Name: "g1", X: gast.ArrayLit{Els: []gast.Expr{gast.IntLit{V: 4}, gast.StrLit{V: "five"}, div}}}}
		}
	case 2:
		body = []gast.Stmt{gast.ExprStmt{X: gast.Call{Fn: "panic", Args: []gast.Expr{gast.StrLit{V: "boom"}}}}}
	case 3:
		if len(g.funcs) > 0 && r.Intn(2) == 0 {
			f := g.funcs[r.Intn(len(g.funcs))]
			args := make([]gast.Expr, len(f.params)+1+r.Intn(2))
			for i := range args {
				args[i] = gast.IntLit{V: int64(i)}
			}
			body = []gast.Stmt{gast.Assign{Name: "g2", X: gast.Call{Fn: f.name, Args: args}}}
		} else {
			body = []gast.Stmt{gast.Assign{Name: "g2", X: gast.Call{Fn: "nosuchfunction", Args: nil}}}
		}
	case 4:
		if g.curFn != nil && !g.curFn.value {
			body = []gast.Stmt{gast.Assign{Name: "g1", X: gast.Infix{Op: "%", L: gast.IntLit{V: 1}, R: gast.Ident{Name: "ZERO"}}}}
		} else {
			body = []gast.Stmt{gast.Return{X: gast.IntLit{V: 7}}}
		}
	default:
		body = []gast.Stmt{gast.Assign{Name: "g1", X: gast.Index{X: gast.ArrayLit{Els: []gast.Expr{gast.IntLit{V: 1}}}, I: gast.StrLit{V: "x"}}}}
		if r.Intn(2) == 0 {
			// a range whose computed bounds are the wrong way round (the same bounds every time)
			body = []gast.Stmt{gast.Assign{Name: "g1", X: gast.Infix{Op: "..", L: gast.Infix{Op: "+", L: gast.Ident{Name: "ZERO"}, R: gast.IntLit{V: int64(2 + r.Intn(3))}}, R: gast.Ident{Name: "ZERO"}}}}
		}
	}
	return gast.If{C: gast.Ident{Name: fmt.Sprintf("F%d", k)}, Then: body}
}

func (g *ProgGen) stmt(depth int) []gast.Stmt {
	r := g.R
	if g.Faults && r.Intn(7) == 0 {
		return []gast.Stmt{g.traceStmt(), g.faultStmt()}
	}
	choice := r.Intn(100)
	if depth <= 0 && choice >= 40 {
		choice = r.Intn(40)
	}
	switch {
	case choice < 18:
		n := r.Intn(3)
		args := make([]gast.Expr, n)
		for i := range args {
			args[i] = g.valueExpr(1)
		}
		return []gast.Stmt{g.traceStmt(args...)}
	case choice < 32:
		return []gast.Stmt{gast.Assign{Name: g.assignTarget(), X: g.valueExpr(2)}}
	case choice < 36:
		if g.Mutators {
			name := g.assignTarget()
			switch r.Intn(3) {
			case 0:
				return []gast.Stmt{gast.IncDec{Name: name, Op: g.E.pick([]string{"++", "--"})}}
			default:
				return []gast.Stmt{gast.OpAssign{Name: name, Op: g.E.pick([]string{"+", "-", "*", "/"}), X: g.valueExpr(1)}}
			}
		}
		return []gast.Stmt{gast.Assign{Name: g.assignTarget(), X: g.valueExpr(1)}}
	case choice < 40:
		// return
		if r.Intn(3) == 0 {
			if g.curFn != nil && !g.curFn.value {
				// a value-less function cannot return early: the language has
				// no bare `return;`
				return []gast.Stmt{g.traceStmt()}
			}
			return []gast.Stmt{g.traceStmt(), gast.Return{X: g.valueExpr(1)}}
		}
		return []gast.Stmt{g.traceStmt()}
	case choice < 58:
		s := gast.If{C: g.cond(depth), Then: g.block(depth-1, 1+r.Intn(2))}
		switch r.Intn(3) {
		case 0:
			s.HasElse = true
			s.Else = g.block(depth-1, 1+r.Intn(2))
		case 1:
			s.HasElse, s.ElseIf = true, true
			inner := gast.If{C: g.cond(depth), Then: g.block(depth-1, 1)}
			if r.Intn(2) == 0 {
				inner.HasElse = true
				inner.Else = g.block(depth-1, 1)
			}
			s.Else = []gast.Stmt{inner}
		}
		return []gast.Stmt{s}
	case choice < 68:
		// counted while / for loop
		g.wid++
		w := fmt.Sprintf("w%d", g.wid)
		n := int64(r.Intn(4))
		body := g.block(depth-1, 1+r.Intn(2))
		body = append(body, gast.IncDec{Name: w, Op: "--"})
		kw := "while"
		if r.Intn(2) == 0 {
			kw = "for"
		}
		var c gast.Expr = gast.Infix{Op: ">", L: gast.Ident{Name: w}, R: gast.IntLit{V: 0}}
		if r.Intn(3) == 0 {
			c = gast.Ident{Name: w} // positive numbers are truthy
		}
		pre := []gast.Stmt{gast.Assign{Name: w, X: gast.IntLit{V: n}}}
		if g.curFn != nil {
			// keep loop counters local to the function: recursion must not share them
			pre = append([]gast.Stmt{gast.Local{Name: w}}, pre...)
		}
		return append(pre, gast.While{Kw: kw, C: c, Body: body})
	case choice < 82:
		fe := gast.Foreach{Var: loopVarNames[r.Intn(len(loopVarNames))], It: g.iterable()}
		if r.Intn(2) == 0 {
			fe.Idx = idxNames[r.Intn(len(idxNames))]
			if fe.Idx == fe.Var {
				fe.Idx = "i"
			}
		}
		g.loopVars = append(g.loopVars, fe.Var)
		if fe.Idx != "" {
			g.loopVars = append(g.loopVars, fe.Idx)
		}
		body := []gast.Stmt{g.traceStmt(gast.Ident{Name: fe.Var})}
		if fe.Idx != "" {
			body = []gast.Stmt{g.traceStmt(gast.Ident{Name: fe.Idx}, gast.Ident{Name: fe.Var})}
		}
		if g.Mutators && r.Intn(3) == 0 {
			// ++ / -- / op= on the loop variable itself: the element handed out by the
			// iterator (a member of a literal, of a variable's array, a hash value) must
			// not be the thing that changes
			if r.Intn(2) == 0 {
				body = append(body, gast.IncDec{Name: fe.Var, Op: g.E.pick([]string{"++", "--"})})
			} else {
				body = append(body, gast.OpAssign{Name: fe.Var, Op: g.E.pick([]string{"+", "-", "*"}), X: gast.IntLit{V: int64(1 + r.Intn(3))}})
			}
			body = append(body, g.traceStmt(gast.Ident{Name: fe.Var}))
		}
		body = append(body, g.block(depth-1, r.Intn(3))...)
		if r.Intn(2) == 0 {
			// read the loop variables again after whatever the body did (an inner
			// loop or a call must not have disturbed them)
			if fe.Idx != "" {
				body = append(body, g.traceStmt(gast.Ident{Name: fe.Idx}, gast.Ident{Name: fe.Var}))
			} else {
				body = append(body, g.traceStmt(gast.Ident{Name: fe.Var}))
			}
		}
		if r.Intn(4) == 0 {
			// leave the loop early (from however many loops enclose this one)
			var ret gast.Stmt = gast.Return{X: g.valueExpr(1)}
			if g.curFn != nil && !g.curFn.value {
				ret = g.traceStmt()
			}
			body = append(body, gast.If{C: g.cond(1), Then: []gast.Stmt{g.traceStmt(), ret}})
		}
		var before, after []gast.Stmt
		if r.Intn(4) == 0 {
			// keep the index / element of some iteration in a variable that outlives the
			// loop, and look at it after the loop has gone on
			keep := g.assignTarget()
			src := fe.Var
			if fe.Idx != "" && r.Intn(2) == 0 {
				src = fe.Idx
			}
			g.wid++
			flag := fmt.Sprintf("kf%d", g.wid)
			before = append(before, gast.Assign{Name: flag, X: gast.IntLit{V: 0}})
			// in the first iteration only (so that later iterations have the chance to disturb it)
			body = append(body, gast.If{C: gast.Infix{Op: "==", L: gast.Ident{Name: flag}, R: gast.IntLit{V: 0}}, Then: []gast.Stmt{gast.Assign{Name: keep, X: gast.Ident{Name: src}}, gast.Assign{Name: flag, X: gast.IntLit{V: 1}}}})
			after = append(after, g.traceStmt(gast.Ident{Name: keep}))
		}
		fe.Body = body
		g.loopVars = g.loopVars[:len(g.loopVars)-1]
		if fe.Idx != "" {
			g.loopVars = g.loopVars[:len(g.loopVars)-1]
		}
		return append(append(before, fe), after...)
	case choice < 92:
		return []gast.Stmt{g.switchStmt(depth)}
	default:
		if len(g.funcs) > 0 {
			var cands []fnInfo
			for _, f := range g.funcs {
				if g.curFn == nil || f.name != g.curFn.name {
					cands = append(cands, f)
				}
			}
			if len(cands) > 0 {
				f := cands[r.Intn(len(cands))]
				call := g.callOf(f, 1)
				if f.value {
					if len(g.loopVars) == 0 || r.Intn(2) == 0 {
						return []gast.Stmt{gast.Assign{Name: g.assignTarget(), X: call}, g.traceStmt(g.localOrGlobal())}
					}
				} else {
					return []gast.Stmt{gast.ExprStmt{X: call}, g.traceStmt(g.localOrGlobal())}
				}
			}
		}
		return []gast.Stmt{g.traceStmt(g.valueExpr(1))}
	}
}

func (g *ProgGen) switchStmt(depth int) gast.Stmt {
	r := g.R
	subjKind := []model.Kind{model.KInt, model.KStr, model.KStr, model.KBool}[r.Intn(4)]
	subj := g.E.Of(subjKind, 1, false)
	if r.Intn(3) == 0 {
		subj = g.localOrGlobal()
	}
	sw := gast.Switch{X: subj}
	n := r.Intn(4)
	defPos := -1
	if r.Intn(3) != 0 {
		defPos = r.Intn(n + 1)
	}
	for i := 0; i <= n; i++ {
		if i == defPos {
			sw.Cases = append(sw.Cases, gast.Case{Default: true, Body: g.block(depth-1, 1)})
		}
		if i == n {
			break
		}
		c := gast.Case{Body: g.block(depth-1, 1)}
		m := 1 + r.Intn(3)
		for j := 0; j < m; j++ {
			switch {
			case subjKind == model.KStr && r.Intn(3) == 0:
				c.Exprs = append(c.Exprs, g.E.leafLit(model.KRegex))
			case r.Intn(3) == 0:
				c.Exprs = append(c.Exprs, g.E.Of(subjKind, 1, false))
			default:
				c.Exprs = append(c.Exprs, g.E.leafLit(subjKind))
			}
			if r.Intn(3) == 0 {
				// make the evaluation of this alternative observable: v() is traced and
				// returns its argument (alternatives after the matching one are not evaluated)
				c.Exprs[len(c.Exprs)-1] = gast.Call{Fn: "v", Args: []gast.Expr{c.Exprs[len(c.Exprs)-1]}}
			}
		}
		sw.Cases = append(sw.Cases, c)
	}
	return sw
}

// leafLit is a literal leaf of the kind.
func (g *ExprGen) leafLit(k model.Kind) gast.Expr {
	for i := 0; i < 8; i++ {
		if l, ok := LitOf(RandValue(g.R, k)); ok {
			return l
		}
	}
	return gast.IntLit{V: 0}
}

func (g *ProgGen) function(idx int) gast.FuncDef {
	r := g.R
	f := fnInfo{name: fmt.Sprintf("f%d", idx+1), value: r.Intn(3) != 0, rec: r.Intn(4) == 0}
	np := r.Intn(3)
	if f.rec && np == 0 {
		np = 1
	}
	perm := r.Perm(len(paramNames))
	for i := 0; i < np; i++ {
		f.params = append(f.params, paramNames[perm[i]])
	}
	if f.rec {
		f.params[0] = "n"
		for i := 1; i < len(f.params); i++ {
			if f.params[i] == "n" {
				f.params[i] = "b"
			}
		}
		if len(f.params) > 2 && f.params[1] == f.params[2] {
			f.params = f.params[:2]
		}
	}
	var body []gast.Stmt
	nl := r.Intn(3)
	for i := 0; i < nl; i++ {
		name := []string{"x", "y", "a", "l1"}[r.Intn(4)]
		dup := false
		for _, p := range append(append([]string{}, f.params...), f.locals...) {
			if p == name {
				dup = true
			}
		}
		if dup {
			continue
		}
		f.locals = append(f.locals, name)
		body = append(body, gast.Local{Name: name}, gast.Assign{Name: name, X: g.E.Any(1, false)})
	}
	// register before generating the body so that other bodies may call it;
	// the body itself only calls functions with a smaller index (no mutual
	// recursion => termination) plus itself when rec.
	saveFuncs := g.funcs
	g.curFn = &f
	selfArgs := func() []gast.Expr {
		args := []gast.Expr{gast.Infix{Op: "-", L: gast.Ident{Name: "n"}, R: gast.IntLit{V: 1}}}
		for i := 1; i < len(f.params); i++ {
			args = append(args, g.E.Any(0, false))
		}
		return args
	}
	switch {
	case f.rec && f.value:
		base := []gast.Stmt{g.traceStmt(gast.Ident{Name: "n"}), gast.Return{X: g.valueExpr(1)}}
		body = append(body, gast.If{C: gast.Infix{Op: "<=", L: gast.Ident{Name: "n"}, R: gast.IntLit{V: 0}}, Then: base})
		body = append(body, g.block(g.MaxDepth-1, 1+r.Intn(3))...)
		body = append(body, gast.Assign{Name: "r_" + f.name, X: gast.Call{Fn: f.name, Args: selfArgs()}})
		// value read after the inner call returns: exposes clobbered parameters
		body = append(body, g.traceStmt(gast.Ident{Name: "n"}, gast.Ident{Name: "r_" + f.name}))
		body = append(body, gast.Return{X: gast.ArrayLit{Els: []gast.Expr{gast.Ident{Name: "n"}, gast.Ident{Name: "r_" + f.name}}}})
	case f.rec:
		// a value-less function has no early return: recurse under a guard
		inner := g.block(g.MaxDepth-1, 1+r.Intn(2))
		inner = append(inner, gast.ExprStmt{X: gast.Call{Fn: f.name, Args: selfArgs()}}, g.traceStmt(gast.Ident{Name: "n"}))
		body = append(body, gast.If{C: gast.Infix{Op: ">", L: gast.Ident{Name: "n"}, R: gast.IntLit{V: 0}}, Then: inner, HasElse: true, Else: []gast.Stmt{g.traceStmt(gast.Ident{Name: "n"})}})
	default:
		body = append(body, g.block(g.MaxDepth-1, 1+r.Intn(3))...)
		if f.value {
			body = append(body, gast.Return{X: g.valueExpr(1)})
		}
	}
	g.curFn = nil
	g.funcs = saveFuncs
	fd := gast.FuncDef{Name: f.name, Params: f.params, Body: body}
	g.funcs = append(g.funcs, f)
	return fd
}

// Program generates one program.
func (g *ProgGen) Program() gast.Program {
	g.tid, g.wid, g.funcs, g.curFn, g.loopVars = 0, 0, nil, nil, nil
	if g.MaxDepth == 0 {
		g.MaxDepth = 3
	}
	if g.MaxStmts == 0 {
		g.MaxStmts = 5
	}
	var defs []gast.Stmt
	for i := 0; i < g.Funcs; i++ {
		defs = append(defs, g.function(i))
	}
	var main []gast.Stmt
	// some globals start defined so that clashes with parameter names matter
	for _, n := range globalNames {
		if g.R.Intn(2) == 0 {
			main = append(main, gast.Assign{Name: n, X: g.E.Any(0, false)})
		}
	}
	main = append(main, g.block(g.MaxDepth, 1+g.R.Intn(g.MaxStmts))...)
	if g.R.Intn(3) != 0 {
		main = append(main, gast.Return{X: g.valueExpr(1)})
	}
	// functions may be defined before or after their use
	var out []gast.Stmt
	switch g.R.Intn(3) {
	case 0:
		out = append(defs, main...)
	case 1:
		out = append(main, defs...)
		// a trailing return would make the definitions unreachable text, which
		// is fine: definitions are collected at Prepare time.
	default:
		half := len(defs) / 2
		out = append(append(append([]gast.Stmt{}, defs[:half]...), main...), defs[half:]...)
	}
	return gast.Program{Stmts: out}
}
