// Package gen holds the seeded generators: values, typed expressions,
// structured programs, hostile text and host objects.
package gen

import (
	"math"
	"math/rand"
	"strconv"

	"verif/internal/gast"
	"verif/internal/model"
)

// Boundary-biased pools.
var (
	IntPool   = []int64{0, 1, -1, 2, 3, 7, 10, -3, 100, 255, 256, 257, 512, 4096, 32768, 65280, 9007199254740992, 9007199254740993, math.MaxInt64 - 1, 65533, 65534, 65535, 65536, 65537, -65535, 1 << 31, math.MaxInt64, math.MinInt64 + 1, 12345}
	FloatPool = []float64{0, 0.5, -1.5, 2, 3.25, 65535, 1e10, 0.1, -0.25, 100.75, math.Copysign(0, -1)}
	StrPool   = []string{"", "a", "A", "ab", "abc", "10", "9", "héllo", "狐犬", " x ", "Hello World", "line1\nline2", "a/b", "q\"uote", "it's", "tab\there", "back\\slash", "ß", "é", "50% off", "%d%s"}
	RegexPool = []string{"a", "^h", "b$", "[0-9]+", "l+o", "^$", "x|y", "a/b", "(?i)hello", "(?i)^A", "(?m)^line2$", "\\d", "w.rld"}
)

// LitOf builds the literal expression that denotes a value (negative numbers
// via prefix minus); ok is false for values without a literal form.
func LitOf(v model.Value) (gast.Expr, bool) {
	switch v.K {
	case model.KInt:
		if v.I == math.MinInt64 {
			return gast.Infix{Op: "-", L: gast.Prefix{Op: "-", X: gast.IntLit{V: math.MaxInt64}}, R: gast.IntLit{V: 1}}, true
		}
		if v.I < 0 {
			return gast.Prefix{Op: "-", X: gast.IntLit{V: -v.I}}, true
		}
		if v.I%7 == 3 && v.I < 1<<40 {
			// some literals are spelt with leading zeros (decimal all the same): 010 is ten
			return gast.IntLit{V: v.I, Spelling: "0" + strconv.FormatInt(v.I, 10)}, true
		}
		return gast.IntLit{V: v.I}, true
	case model.KFloat:
		if !model.IsFiniteNumber(v.F) {
			return nil, false
		}
		if v.F < 0 || (v.F == 0 && math.Signbit(v.F)) {
			return gast.Prefix{Op: "-", X: gast.FloatLit{V: -v.F}}, true
		}
		return gast.FloatLit{V: v.F}, true
	case model.KStr:
		for _, r := range v.S {
			if r == 0 || r == 0xFFFD {
				return nil, false
			}
		}
		return gast.StrLit{V: v.S}, true
	case model.KBool:
		return gast.BoolLit{V: v.B}, true
	case model.KNull:
		return gast.NullLit{}, true
	case model.KRegex:
		pat, flags := v.S, ""
		if len(pat) >= 4 && pat[:2] == "(?" {
			for i := 2; i < len(pat); i++ {
				if pat[i] == ')' {
					flags = pat[2:i]
					pat = pat[i+1:]
					break
				}
			}
		}
		if pat == "" {
			return nil, false
		}
		return gast.RegexLit{Pat: pat, Flags: flags}, true
	case model.KArr:
		var els []gast.Expr
		for _, e := range v.A {
			l, ok := LitOf(e)
			if !ok {
				return nil, false
			}
			els = append(els, l)
		}
		return gast.ArrayLit{Els: els}, true
	case model.KHash:
		var ks, vs []gast.Expr
		for _, e := range v.H {
			k, ok := LitOf(e.Key)
			if !ok {
				return nil, false
			}
			val, ok := LitOf(e.Val)
			if !ok {
				return nil, false
			}
			ks = append(ks, k)
			vs = append(vs, val)
		}
		return gast.HashLit{Keys: ks, Vals: vs}, true
	}
	return nil, false
}

// RandScalar draws a scalar value of the kind.
func RandScalar(r *rand.Rand, k model.Kind) model.Value {
	switch k {
	case model.KInt:
		if r.Intn(4) == 0 {
			return model.Int(int64(r.Intn(41) - 20))
		}
		return model.Int(IntPool[r.Intn(len(IntPool))])
	case model.KFloat:
		if r.Intn(4) == 0 {
			return model.Float(float64(r.Intn(2001)-1000) / 8)
		}
		return model.Float(FloatPool[r.Intn(len(FloatPool))])
	case model.KStr:
		return model.Str(StrPool[r.Intn(len(StrPool))])
	case model.KBool:
		return model.Bool(r.Intn(2) == 0)
	case model.KRegex:
		return model.Regex(RegexPool[r.Intn(len(RegexPool))])
	}
	return model.Null()
}

var scalarKinds = []model.Kind{model.KInt, model.KFloat, model.KStr, model.KBool}

// RandValue draws a value of the kind; containers hold scalars (arrays) or
// scalars / one nested level (hashes).
func RandValue(r *rand.Rand, k model.Kind) model.Value {
	switch k {
	case model.KArr:
		n := []int{0, 1, 2, 3, 5}[r.Intn(5)]
		out := make([]model.Value, n)
		mono := r.Intn(2) == 0
		ek := scalarKinds[r.Intn(len(scalarKinds))]
		for i := range out {
			if !mono {
				ek = scalarKinds[r.Intn(len(scalarKinds))]
			}
			out[i] = RandScalar(r, ek)
		}
		return model.Value{K: model.KArr, A: out}
	case model.KHash:
		n := []int{0, 1, 2, 4}[r.Intn(4)]
		var ents []model.HashEnt
		stringKeys := r.Intn(2) == 0
		for i := 0; i < n; i++ {
			var key model.Value
			switch {
			case stringKeys || r.Intn(3) == 0:
				key = model.Str([]string{"a", "b", "name", "k1", "Z", "x y", "10"}[r.Intn(7)])
			case r.Intn(2) == 0:
				key = model.Int(int64(r.Intn(12)))
			default:
				key = model.Float(float64(r.Intn(4)) + []float64{0.25, 0.5, 0.75, 0.1}[r.Intn(4)])
			}
			dup := false
			for _, e := range ents {
				if e.Key.Print() == key.Print() {
					dup = true
				}
			}
			if dup {
				continue
			}
			ents = append(ents, model.HashEnt{Key: key, Val: RandScalar(r, scalarKinds[r.Intn(len(scalarKinds))])})
		}
		return model.Value{K: model.KHash, H: ents}
	}
	return RandScalar(r, k)
}
