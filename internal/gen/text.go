package gen

import (
	"math/rand"
	"strings"
)

var soupTokens = []string{"if", "else", "while", "for", "foreach", "in", "function", "local", "return", "switch", "case", "default", "true", "false",
	"(", ")", "{", "}", "[", "]", ",", ";", ":", "?", "=", "==", "!=", "<", "<=", ">", ">=", "+", "-", "*", "/", "%", "**", "++", "--", "+=", "-=", "*=", "/=",
	"&&", "||", "!", "~=", "!~", "..", ".", "√", "x", "y", "f", "len", "print", "panic", "0", "1", "65535", "70000", "1.5", "99999999999999999999", "\"s\"", "'t'", "\"", "'", "/re/", "/re/i", "/(?i/", "/(?/", "/(?P<x/", "/(?i)/i", "/(/", "/[/", "/a{2,1}/", "/\\/", "/(?:/m", "/", "//", "\n", "$a", "null", "@", "#", "&", "|", "\\", "\x00", "é", "狐"}

// TokenSoup is a random sequence over the language's alphabet.
func TokenSoup(r *rand.Rand, n int) string {
	var b strings.Builder
	for i := 0; i < n; i++ {
		b.WriteString(soupTokens[r.Intn(len(soupTokens))])
		if r.Intn(4) != 0 {
			b.WriteByte(' ')
		}
	}
	return b.String()
}

// RandBytes is a random byte string.
func RandBytes(r *rand.Rand, n int) string {
	b := make([]byte, n)
	for i := range b {
		if r.Intn(3) == 0 {
			b[i] = byte(r.Intn(256))
		} else {
			const al = " \n\t(){}[];,.+-*/%=<>!~&|?:\"'\\$_a1xif"
			b[i] = al[r.Intn(len(al))]
		}
	}
	return string(b)
}

// Mutate applies a few random edits to a corpus entry.
func Mutate(r *rand.Rand, corpus []string) string {
	s := corpus[r.Intn(len(corpus))]
	rs := []rune(s)
	for k := 0; k < 1+r.Intn(4); k++ {
		if len(rs) == 0 {
			rs = []rune(TokenSoup(r, 3))
		}
		i := r.Intn(len(rs))
		switch r.Intn(8) {
		case 0: // flip
			fl := []rune("(){}[];\"'/\\=+-!?:,.0a\x00 ")
			rs[i] = fl[r.Intn(len(fl))]
		case 1: // delete a span
			j := i + r.Intn(8)
			if j > len(rs) {
				j = len(rs)
			}
			rs = append(rs[:i], rs[j:]...)
		case 2: // truncate
			rs = rs[:i]
		case 3: // duplicate a span
			j := i + r.Intn(20)
			if j > len(rs) {
				j = len(rs)
			}
			rs = append(rs[:j], append(append([]rune{}, rs[i:j]...), rs[j:]...)...)
		case 4: // splice from another entry
			o := []rune(corpus[r.Intn(len(corpus))])
			if len(o) > 0 {
				a := r.Intn(len(o))
				bnd := a + r.Intn(30)
				if bnd > len(o) {
					bnd = len(o)
				}
				rs = append(rs[:i], append(append([]rune{}, o[a:bnd]...), rs[i:]...)...)
			}
		case 5: // insert soup
			rs = append(rs[:i], append([]rune(TokenSoup(r, 1+r.Intn(3))), rs[i:]...)...)
		case 6: // swap two characters
			j := r.Intn(len(rs))
			rs[i], rs[j] = rs[j], rs[i]
		default: // nest: wrap a span in brackets
			j := i + r.Intn(15)
			if j > len(rs) {
				j = len(rs)
			}
			open, close := []string{"(", "[", "{", "if (1) {", "f("}[r.Intn(5)], ""
			switch open {
			case "(", "f(":
				close = ")"
			case "[":
				close = "]"
			default:
				close = "}"
			}
			mid := append([]rune(open), rs[i:j]...)
			mid = append(mid, []rune(close)...)
			rs = append(rs[:i], append(mid, rs[j:]...)...)
		}
	}
	return string(rs)
}

// Nested builds deeply nested inputs of a given depth.
func Nested(r *rand.Rand, depth int) string {
	switch r.Intn(8) {
	case 0:
		return "return " + strings.Repeat("(", depth) + "1" + strings.Repeat(")", depth) + ";"
	case 1:
		return "return " + strings.Repeat("[", depth) + "1" + strings.Repeat("]", depth) + ";"
	case 2:
		return "return " + strings.Repeat("-", 0) + strings.Repeat("!", depth) + "x;"
	case 3:
		return strings.Repeat("if (1) { ", depth) + "x = 1;" + strings.Repeat(" }", depth)
	case 4:
		return "return " + strings.Repeat("{\"a\":", depth) + "1" + strings.Repeat("}", depth) + ";"
	case 5:
		return "return " + strings.Repeat("f(", depth) + "1" + strings.Repeat(")", depth) + ";"
	case 6:
		return "return " + strings.Repeat("(", depth) + "1" // unbalanced
	default:
		return "x = 1" + strings.Repeat(" + 1", depth) + ";"
	}
}
