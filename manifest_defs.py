HOOK_COMMITS = ["69d1e72"]
NOTES = ("Runtime monitoring of skx/evalfilter. Every check rebuilds the driver from /repo's working tree. "
         "Exit 0 = held on what was observed, 1 = VIOLATION, 3 = INCONCLUSIVE (never folded into the others). "
         "Known findings: KNOWN_FINDINGS.txt. Design: DESIGN.md.")
NOT_APPLICABLE = {}
CHECKS = {
 "C01": dict(level="exploration", technique="reference-model monitor (independent evaluator) over an exhaustive operator x type x provenance table and random nestings",
   text="Every cell of the operator x operand-type x provenance table (33 representative values, 4 provenances) and 6k/300k random nestings are executed by the real engine and compared (error-or-(type, printed form)) with an independent reference evaluator; held on the executions observed.",
   note="Trusted: the reference model's reading of the property statement; don't-care zones (DESIGN 1.1) are skipped and counted, not judged. Says nothing about values/nestings outside the generated set.", design_ref="DESIGN.md 4/C01"),
 "C02": dict(level="exploration", technique="reference-model monitor over generated structured programs, all truth assignments of the condition fields, trace host function with unique ids",
   text="500/20k random structured programs (every control-flow construct, nesting up to 5) are each run under all 2^k truth assignments of their condition fields (truthy/falsy values of several types); result, host-call trace and variables left are compared with an independent reference interpreter; plus fixed regression programs.",
   note="Trusted: reference model; generator keeps value-yielding expression statements out of foreach bodies (known finding foreach-residue, probed separately). Holds only for the programs generated.", design_ref="DESIGN.md 4/C02"),
 "C06": dict(level="exploration", technique="reference-model monitor with lexical frames + scope-depth invariant hook at quiescent points",
   text="1.2k/100k random programs with 1-4 user functions (name clashes, recursion, returns from inside loops) run under all truth assignments; result/trace/variables compared with a lexical-frame model; open-scope count (hook) must be unchanged by every run; 12 fixed clause-by-clause regression programs.",
   note="Trusted: reference model; programs in which a callee touches a live caller's local are don't-care and skipped (counted in evidence).", design_ref="DESIGN.md 4/C06"),
}
