HOOK_COMMITS = ["69d1e72"]
NOTES = ("Runtime monitoring of skx/evalfilter. Every check rebuilds the driver from /repo's working tree. "
         "Exit 0 = held on what was observed, 1 = VIOLATION, 3 = INCONCLUSIVE (never folded into the others). "
         "Known findings: KNOWN_FINDINGS.txt. Design: DESIGN.md.")
NOT_APPLICABLE = {}
CHECKS = {
 "C01": dict(level="exploration", technique="reference-model monitor (independent evaluator) over an exhaustive operator x type x provenance table and random nestings",
   text="Every cell of the operator x operand-type x provenance table (33 representative values, 4 provenances) and 6k/300k random nestings are executed by the real engine and compared (error-or-(type, printed form)) with an independent reference evaluator; held on the executions observed.",
   note="Trusted: the reference model's reading of the property statement; don't-care zones (DESIGN 1.1) are skipped and counted, not judged. Says nothing about values/nestings outside the generated set.", design_ref="DESIGN.md 4/C01"),
}
